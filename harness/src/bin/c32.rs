//! C32 — WaitSet wakes whenever an attached condition becomes true.
//!
//! Line formats (one case per line, ops separated by `|`):
//!   `D <nc> <nch> | <op> ...`  nc real DcpsStatusCondition objects and nch real notification
//!        channels driven directly.  ops: `a c k` add_communication_state, `r c k`
//!        remove_communication_state, `s c k1,k2|-` set_enabled_statuses, `t c` get_trigger_value,
//!        `e c` get_enabled_statuses, `g c ch` register_notification(sender[ch].clone()),
//!        `p ch` poll receiver[ch] once (0 Ready, 1 Pending, 2 closed), `x ch` drop sender[ch].
//!        step output: `<op result> <trigger value of every condition> <wake count of every waker>`
//!   `W <nc> <nw> | <op> ...`  the real async API, see `mod wl`.  ops: `a c 1`, `r c 1`, `s c ks`,
//!        `t c`, `e c` as above (through the API), `w i c1,c2|-` waiter i builds a WaitSetAsync with
//!        these conditions and calls wait() (the future is created, not polled), `n i` poll the
//!        future of waiter i once and let the worker handle the mail it sent, `c i` drop the future.
//!        step output: `<op result> <mail sent 0/1> <trigger value of every condition> <bit mask of
//!        the waiters whose waker was called by somebody else during the op>`; the result of `n i` is
//!        -1 (still pending), the returned conditions as hex digits index+1, -2 PreconditionNotMet,
//!        -3 AlreadyDeleted, -4 other error.
//! Output line: `OK <step> ; <step> ; ...`
use dust_dds::dcps::channels::notification::{notification, NotificationReceiver, NotificationSender};
use dust_dds::dcps::status_condition::DcpsStatusCondition;
use dust_dds::dcps::status_mask::StatusMask;
use dust_dds::infrastructure::status::StatusKind;
use std::future::Future;
use std::pin::Pin;
use std::sync::atomic::{AtomicUsize, Ordering};
use std::sync::Arc;
use std::task::{Context, Poll, Wake, Waker};

const KINDS: [StatusKind; 13] = [
    StatusKind::InconsistentTopic,
    StatusKind::OfferedDeadlineMissed,
    StatusKind::RequestedDeadlineMissed,
    StatusKind::OfferedIncompatibleQos,
    StatusKind::RequestedIncompatibleQos,
    StatusKind::SampleLost,
    StatusKind::SampleRejected,
    StatusKind::DataOnReaders,
    StatusKind::DataAvailable,
    StatusKind::LivelinessLost,
    StatusKind::LivelinessChanged,
    StatusKind::PublicationMatched,
    StatusKind::SubscriptionMatched,
];

fn kind_index(k: &StatusKind) -> usize {
    KINDS.iter().position(|x| x == k).unwrap()
}

struct CountWaker(AtomicUsize);
impl Wake for CountWaker {
    fn wake(self: Arc<Self>) {
        self.0.fetch_add(1, Ordering::SeqCst);
    }
}

fn kinds_of(tok: &str) -> Vec<StatusKind> {
    if tok == "-" {
        return vec![];
    }
    tok.split(',').map(|x| KINDS[x.parse::<usize>().unwrap() % 13].clone()).collect()
}

// ---------------------------------------------------------------- direct layer
fn run_direct(nc: usize, nch: usize, ops: &[&str]) -> String {
    let mut conds: Vec<DcpsStatusCondition> = (0..nc).map(|_| DcpsStatusCondition::default()).collect();
    let mut senders: Vec<Option<NotificationSender>> = Vec::new();
    let mut receivers: Vec<NotificationReceiver> = Vec::new();
    let mut counters: Vec<Arc<CountWaker>> = Vec::new();
    for _ in 0..nch {
        let (s, r) = notification();
        senders.push(Some(s));
        receivers.push(r);
        counters.push(Arc::new(CountWaker(AtomicUsize::new(0))));
    }
    let mut steps: Vec<String> = Vec::new();
    for op in ops {
        let t: Vec<&str> = op.split_whitespace().collect();
        if t.is_empty() {
            continue;
        }
        let a = |i: usize| t[i].parse::<usize>().unwrap();
        let r: u64 = match t[0] {
            "a" => {
                if a(1) < nc {
                    conds[a(1)].add_communication_state(KINDS[a(2) % 13].clone());
                }
                0
            }
            "r" => {
                if a(1) < nc {
                    conds[a(1)].remove_communication_state(KINDS[a(2) % 13].clone());
                }
                0
            }
            "s" => {
                if a(1) < nc {
                    let m: StatusMask = kinds_of(t[2]).iter().collect();
                    conds[a(1)].set_enabled_statuses(m);
                }
                0
            }
            "t" => {
                if a(1) < nc {
                    conds[a(1)].get_trigger_value() as u64
                } else {
                    0
                }
            }
            "e" => {
                if a(1) < nc {
                    let m = conds[a(1)].get_enabled_statuses();
                    m.into_iter().map(|k| 1u64 << kind_index(&k)).sum()
                } else {
                    0
                }
            }
            "g" => {
                let (c, ch) = (a(1), a(2));
                match senders.get(ch).and_then(|s| s.as_ref()) {
                    Some(s) => {
                        let clone = s.clone();
                        if c < nc {
                            conds[c].register_notification(clone);
                        } else {
                            // the model has no such condition: the clone must not exist
                            // either; there is no way to clone-and-not-drop, so the
                            // generator never produces this
                            drop(clone);
                        }
                        0
                    }
                    None => 9,
                }
            }
            "p" => {
                let ch = a(1);
                if ch < nch {
                    let waker = Waker::from(counters[ch].clone());
                    let mut cx = Context::from_waker(&waker);
                    match Pin::new(&mut receivers[ch]).poll(&mut cx) {
                        Poll::Ready(Ok(())) => 0,
                        Poll::Pending => 1,
                        Poll::Ready(Err(_)) => 2,
                    }
                } else {
                    2
                }
            }
            "x" => {
                let ch = a(1);
                match senders.get_mut(ch).and_then(|s| s.take()) {
                    Some(s) => {
                        drop(s);
                        0
                    }
                    None => 9,
                }
            }
            _ => return "BADOP".to_string(),
        };
        let mut line = format!("{}", r);
        for c in &conds {
            line.push_str(if c.get_trigger_value() { " 1" } else { " 0" });
        }
        for k in &counters {
            line.push_str(&format!(" {}", k.0.load(Ordering::SeqCst)));
        }
        steps.push(line);
    }
    format!("OK {}", steps.join(" ; "))
}


// ------------------------------------------------------------------ wait layer
// The real WaitSetAsync::wait futures, the real async API and the real DCPS
// worker loop, all polled by hand on this thread.  The runtime is hand-made:
// the spawner only stores the futures (the worker loop is polled explicitly),
// the timer never fires and the clock stands still, so the worker does exactly
// one loop iteration per mail.  Conditions are the status conditions of real
// DataWriters with a 1000 s deadline; "status OfferedDeadlineMissed changes" is
// produced by back-dating the last write time of the writer's instance
// (register_instance_w_timestamp) so that the worker's own deadline check calls
// add_communication_state; it is read (removed) by
// get_offered_deadline_missed_status.
mod wl {
    use super::CountWaker;
    use dust_dds::dds_async::condition::StatusConditionAsync;
    use dust_dds::dds_async::configuration::DustDdsConfiguration;
    use dust_dds::dds_async::data_writer::DataWriterAsync;
    use dust_dds::dds_async::domain_participant::DomainParticipantAsync;
    use dust_dds::dds_async::domain_participant_factory::DomainParticipantFactoryAsync;
    use dust_dds::dds_async::publisher::PublisherAsync;
    use dust_dds::dds_async::topic::TopicAsync;
    use dust_dds::dds_async::wait_set::{ConditionAsync, WaitSetAsync};
    use dust_dds::infrastructure::error::{DdsError, DdsResult};
    use dust_dds::infrastructure::listener::NO_LISTENER;
    use dust_dds::infrastructure::qos::{DataWriterQos, QosKind};
    use dust_dds::infrastructure::qos_policy::DeadlineQosPolicy;
    use dust_dds::infrastructure::status::{StatusKind, NO_STATUS};
    use dust_dds::infrastructure::time::{Duration, DurationKind, Time};
    use dust_dds::infrastructure::type_support::DdsType;
    use dust_dds::runtime::{Clock, DdsRuntime, Spawner, TaskHandle, Timer};
    use dust_dds::transport::interface::{
        RtpsTransportParticipant, TransportDataReceiver, TransportParticipantFactory, WriteMessage,
    };
    use std::cell::RefCell;
    use std::future::Future;
    use std::pin::Pin;
    use std::sync::atomic::{AtomicUsize, Ordering};
    use std::sync::{Arc, Mutex};
    use std::task::{Context, Poll, Waker};

    #[derive(Debug, PartialEq, DdsType)]
    pub struct Sample {
        #[dust_dds(key)]
        id: u8,
        value: u8,
    }

    const NOW: i32 = 10_000;
    const DEADLINE: i32 = 1_000;

    #[derive(Clone)]
    struct HClock;
    impl Clock for HClock {
        fn now(&self) -> Time {
            Time::new(NOW, 0)
        }
    }
    #[derive(Clone)]
    struct HTimer;
    impl Timer for HTimer {
        fn delay(&mut self, _d: core::time::Duration) -> impl Future<Output = ()> + Send {
            std::future::pending()
        }
    }
    struct HHandle;
    impl TaskHandle for HHandle {
        fn join(&self) {}
    }
    type Task = Pin<Box<dyn Future<Output = ()> + Send>>;
    #[derive(Clone)]
    struct HSpawner(Arc<Mutex<Vec<Task>>>);
    impl Spawner for HSpawner {
        type TaskHandle = HHandle;
        fn spawn(&self, f: impl Future<Output = ()> + Send + 'static) -> HHandle {
            self.0.lock().unwrap().push(Box::pin(f));
            HHandle
        }
    }
    struct HRuntime(HSpawner);
    impl DdsRuntime for HRuntime {
        type ClockHandle = HClock;
        type TimerHandle = HTimer;
        type SpawnerHandle = HSpawner;
        fn timer(&self) -> HTimer {
            HTimer
        }
        fn clock(&self) -> HClock {
            HClock
        }
        fn spawner(&self) -> HSpawner {
            self.0.clone()
        }
    }

    struct NullWriter;
    impl WriteMessage for NullWriter {
        fn write_message(&self, _buf: &[u8], _locators: &[dust_dds::transport::types::Locator]) {}
    }
    struct NullTransport;
    impl TransportParticipantFactory for NullTransport {
        fn create_participant(&self, _domain_id: i32, _r: TransportDataReceiver) -> RtpsTransportParticipant {
            RtpsTransportParticipant {
                message_writer: Box::new(NullWriter),
                default_unicast_locator_list: vec![],
                metatraffic_unicast_locator_list: vec![],
                metatraffic_multicast_locator_list: vec![],
                default_multicast_locator_list: vec![],
                fragment_size: 1344,
            }
        }
    }

    pub struct World {
        tasks: Arc<Mutex<Vec<Task>>>,
        worker_wakes: Arc<CountWaker>,
        _factory: &'static DomainParticipantFactoryAsync<NullTransport>,
        participant: DomainParticipantAsync,
        topic: TopicAsync,
        cases: std::cell::Cell<usize>,
        dirty: std::cell::Cell<bool>,
    }

    impl World {
        /// polls every spawned task (the DCPS worker loop) until none of them was woken again
        fn run_worker(&self) {
            let waker = Waker::from(self.worker_wakes.clone());
            let mut cx = Context::from_waker(&waker);
            for _ in 0..10_000 {
                let before = self.worker_wakes.0.load(Ordering::SeqCst);
                let mut tasks = self.tasks.lock().unwrap();
                let mut i = 0;
                while i < tasks.len() {
                    match tasks[i].as_mut().poll(&mut cx) {
                        Poll::Ready(()) => {
                            let _ = tasks.remove(i);
                        }
                        Poll::Pending => i += 1,
                    }
                }
                drop(tasks);
                if self.worker_wakes.0.load(Ordering::SeqCst) == before {
                    return;
                }
            }
            panic!("worker does not become idle");
        }

        /// drives one API call to completion (its mails are handled by the worker in order)
        fn drive<F: Future>(&self, f: F) -> F::Output {
            let mut f = std::pin::pin!(f);
            let counter = Arc::new(CountWaker(AtomicUsize::new(0)));
            let waker = Waker::from(counter);
            let mut cx = Context::from_waker(&waker);
            for _ in 0..10_000 {
                if let Poll::Ready(x) = f.as_mut().poll(&mut cx) {
                    return x;
                }
                self.run_worker();
            }
            panic!("API call does not complete");
        }

        fn new() -> World {
            let tasks: Arc<Mutex<Vec<Task>>> = Arc::new(Mutex::new(Vec::new()));
            let runtime = HRuntime(HSpawner(tasks.clone()));
            let factory: &'static DomainParticipantFactoryAsync<NullTransport> = Box::leak(Box::new(
                DomainParticipantFactoryAsync::new(runtime, [0; 4], [0; 4], NullTransport, DustDdsConfiguration::default()),
            ));
            let worker_wakes = Arc::new(CountWaker(AtomicUsize::new(0)));
            // bootstrap: the participant and the topic are created with a temporary world view
            let boot = Boot { tasks: tasks.clone(), worker_wakes: worker_wakes.clone() };
            let participant = boot
                .drive(factory.create_participant(0, QosKind::Default, NO_LISTENER, NO_STATUS))
                .expect("create_participant");
            let topic = boot
                .drive(participant.create_topic::<Sample>("C32Topic", "Sample", QosKind::Default, NO_LISTENER, NO_STATUS))
                .expect("create_topic");
            World { tasks, worker_wakes, _factory: factory, participant, topic, cases: std::cell::Cell::new(0), dirty: std::cell::Cell::new(false) }
        }
    }

    struct Boot {
        tasks: Arc<Mutex<Vec<Task>>>,
        worker_wakes: Arc<CountWaker>,
    }
    impl Boot {
        fn drive<F: Future>(&self, f: F) -> F::Output {
            let mut f = std::pin::pin!(f);
            let wk = Waker::from(Arc::new(CountWaker(AtomicUsize::new(0))));
            let mut cx = Context::from_waker(&wk);
            let wwk = Waker::from(self.worker_wakes.clone());
            let mut wcx = Context::from_waker(&wwk);
            for _ in 0..10_000 {
                if let Poll::Ready(x) = f.as_mut().poll(&mut cx) {
                    return x;
                }
                for _ in 0..4 {
                    for t in self.tasks.lock().unwrap().iter_mut() {
                        let _ = t.as_mut().poll(&mut wcx);
                    }
                }
            }
            panic!("bootstrap call does not complete");
        }
    }

    thread_local! {
        static WORLD: RefCell<Option<World>> = const { RefCell::new(None) };
    }

    type WaitFuture = Pin<Box<dyn Future<Output = DdsResult<Vec<ConditionAsync>>>>>;
    struct Waiting {
        fut: WaitFuture,
        counter: Arc<CountWaker>,
    }

    fn tag_of(w: &World, c: &StatusConditionAsync) -> usize {
        // conditions carry their index + 1 in the four highest status kinds (the
        // generator keeps these bits in every mask it sets); reading the mask does
        // not change anything
        match w.drive(c.get_enabled_statuses()) {
            Ok(l) => {
                let mut t = 0usize;
                for k in l {
                    t |= match k {
                        StatusKind::LivelinessLost => 1,
                        StatusKind::LivelinessChanged => 2,
                        StatusKind::PublicationMatched => 4,
                        StatusKind::SubscriptionMatched => 8,
                        _ => 0,
                    };
                }
                t
            }
            Err(_) => 0,
        }
    }

    /// One world (factory + worker loop + participant + topic) serves at most
    /// WORLD_CASES cases: the participant's publisher counter is a u8.  A world in
    /// which a case panicked is not reused.
    const WORLD_CASES: usize = 100;

    pub fn run(nc: usize, nw: usize, ops: &[&str]) -> String {
        WORLD.with(|cell| {
            let fresh = match cell.borrow().as_ref() {
                Some(w) => w.cases.get() >= WORLD_CASES || w.dirty.get(),
                None => true,
            };
            if fresh {
                *cell.borrow_mut() = None;
                *cell.borrow_mut() = Some(World::new());
            }
            let guard = cell.borrow();
            let w = guard.as_ref().unwrap();
            w.cases.set(w.cases.get() + 1);
            w.dirty.set(true);
            let out = run_in(w, nc, nw, ops);
            w.dirty.set(false);
            out
        })
    }

    fn run_in(w: &World, nc: usize, nw: usize, ops: &[&str]) -> String {
        let publisher: PublisherAsync = w
            .drive(w.participant.create_publisher(QosKind::Default, NO_LISTENER, NO_STATUS))
            .expect("create_publisher");
        let qos = DataWriterQos {
            deadline: DeadlineQosPolicy { period: DurationKind::Finite(Duration::new(DEADLINE, 0)) },
            ..Default::default()
        };
        let mut writers: Vec<DataWriterAsync<Sample>> = Vec::new();
        let mut conds: Vec<StatusConditionAsync> = Vec::new();
        // conditions 0 .. nc-4 belong to DataWriters; the last three belong to a Topic, a
        // Subscriber and a DataReader (on a topic of their own, so nothing ever matches):
        // their statuses never change, they exercise the other entity kinds of
        // status_condition_methods.rs
        let nwr = nc.saturating_sub(3);
        for _ in 0..nwr {
            let dw = w
                .drive(publisher.create_datawriter::<Sample>(&w.topic, QosKind::Specific(qos.clone()), NO_LISTENER, NO_STATUS))
                .expect("create_datawriter");
            conds.push(dw.get_statuscondition());
            writers.push(dw);
        }
        let rtopic = w
            .drive(w.participant.create_topic::<Sample>(
                &format!("C32R{}", w.cases.get()),
                "Sample",
                QosKind::Default,
                NO_LISTENER,
                NO_STATUS,
            ))
            .expect("create_topic");
        let subscriber = w
            .drive(w.participant.create_subscriber(QosKind::Default, NO_LISTENER, NO_STATUS))
            .expect("create_subscriber");
        let reader = w
            .drive(subscriber.create_datareader::<Sample>(&rtopic, QosKind::Default, NO_LISTENER, NO_STATUS))
            .expect("create_datareader");
        if nc >= 3 {
            conds.push(rtopic.get_statuscondition());
            conds.push(subscriber.get_statuscondition());
            conds.push(reader.get_statuscondition());
        }
        let nwr = writers.len();
        let mut waiters: Vec<Option<Waiting>> = (0..nw).map(|_| None).collect();
        let mut steps: Vec<String> = Vec::new();
        for op in ops {
            let t: Vec<&str> = op.split_whitespace().collect();
            if t.is_empty() {
                continue;
            }
            let a = |i: usize| t[i].parse::<usize>().unwrap();
            let before: Vec<usize> = waiters
                .iter()
                .map(|x| x.as_ref().map(|x| x.counter.0.load(Ordering::SeqCst)).unwrap_or(0))
                .collect();
            let mut own: Option<usize> = None;
            let mut mail = 0i64;
            let r: i64 = match t[0] {
                "a" => {
                    // only OfferedDeadlineMissed can be produced on a DataWriter
                    if a(1) < nwr && a(2) == 1 {
                        w.drive(writers[a(1)].register_instance_w_timestamp(
                            Sample { id: 1, value: 0 },
                            Time::new(NOW - DEADLINE - 1, 0),
                        ))
                        .expect("register_instance");
                    }
                    0
                }
                "r" => {
                    if a(1) < nwr && a(2) == 1 {
                        w.drive(writers[a(1)].get_offered_deadline_missed_status()).expect("get status");
                    }
                    0
                }
                "s" => {
                    if a(1) < nc {
                        let ks = super::kinds_of(t[2]);
                        w.drive(conds[a(1)].set_enabled_statuses(&ks)).expect("set_enabled_statuses");
                    }
                    0
                }
                "t" => {
                    if a(1) < nc {
                        w.drive(conds[a(1)].get_trigger_value()).expect("get_trigger_value") as i64
                    } else {
                        0
                    }
                }
                "e" => {
                    if a(1) < nc {
                        let l = w.drive(conds[a(1)].get_enabled_statuses()).expect("get_enabled_statuses");
                        l.into_iter().map(|k| 1i64 << super::kind_index(&k)).sum()
                    } else {
                        0
                    }
                }
                "w" => {
                    let i = a(1);
                    if i < nw {
                        own = Some(i); // a new call with a new waker: nothing to compare with
                        let mut ws = WaitSetAsync::new();
                        if t[2] != "-" {
                            for c in t[2].split(',') {
                                let c = c.parse::<usize>().unwrap();
                                w.drive(ws.attach_condition(ConditionAsync::StatusCondition(conds[c % nc].clone())))
                                    .expect("attach_condition");
                            }
                        }
                        waiters[i] = Some(Waiting {
                            fut: Box::pin(async move { ws.wait().await }),
                            counter: Arc::new(CountWaker(AtomicUsize::new(0))),
                        });
                    }
                    0
                }
                "n" => {
                    let i = a(1);
                    let mut res: i64 = -1;
                    if i < nw {
                        if let Some(wt) = waiters[i].as_mut() {
                            own = Some(i);
                            let worker_before = w.worker_wakes.0.load(Ordering::SeqCst);
                            let waker = Waker::from(wt.counter.clone());
                            let mut cx = Context::from_waker(&waker);
                            let p = wt.fut.as_mut().poll(&mut cx);
                            if w.worker_wakes.0.load(Ordering::SeqCst) != worker_before {
                                mail = 1;
                            }
                            w.run_worker();
                            if let Poll::Ready(x) = p {
                                waiters[i] = None;
                                res = match x {
                                    Ok(l) => {
                                        let mut code: i64 = 0;
                                        for c in &l {
                                            let ConditionAsync::StatusCondition(sc) = c;
                                            code = code * 16 + (tag_of(w, sc) as i64);
                                        }
                                        code
                                    }
                                    Err(DdsError::PreconditionNotMet(_)) => -2,
                                    Err(DdsError::AlreadyDeleted) => -3,
                                    Err(_) => -4,
                                };
                            }
                        }
                    }
                    res
                }
                "c" => {
                    let i = a(1);
                    if i < nw {
                        waiters[i] = None;
                    }
                    0
                }
                _ => return "BADOP".to_string(),
            };
            let mut woken: u64 = 0;
            for (i, x) in waiters.iter().enumerate() {
                if let Some(x) = x {
                    if Some(i) != own && x.counter.0.load(Ordering::SeqCst) != before[i] {
                        woken |= 1 << i;
                    }
                }
            }
            let mut line = format!("{} {}", r, mail);
            for c in &conds {
                let tv = w.drive(c.get_trigger_value()).expect("get_trigger_value");
                line.push_str(if tv { " 1" } else { " 0" });
            }
            line.push_str(&format!(" {}", woken));
            steps.push(line);
        }
        // clean up: the futures, then the entities of this case
        waiters.clear();
        let mut cleanup_ok = true;
        for dw in &writers {
            cleanup_ok &= w.drive(publisher.delete_datawriter(dw)).is_ok();
        }
        cleanup_ok &= w.drive(w.participant.delete_publisher(&publisher)).is_ok();
        cleanup_ok &= w.drive(subscriber.delete_datareader(&reader)).is_ok();
        cleanup_ok &= w.drive(w.participant.delete_subscriber(&subscriber)).is_ok();
        cleanup_ok &= w.drive(w.participant.delete_topic(&rtopic)).is_ok();
        if !cleanup_ok {
            return "CLEANUPERR".to_string();
        }
        format!("OK {}", steps.join(" ; "))
    }
}

fn run_line(line: &str) -> String {
    let parts: Vec<&str> = line.split('|').map(|x| x.trim()).collect();
    let head: Vec<&str> = parts[0].split_whitespace().collect();
    if head.len() != 3 {
        return "BADCASE".to_string();
    }
    let n1 = head[1].parse::<usize>().unwrap();
    let n2 = head[2].parse::<usize>().unwrap();
    match head[0] {
        "D" => run_direct(n1, n2, &parts[1..]),
        "W" => wl::run(n1, n2, &parts[1..]),
        _ => "BADCASE".to_string(),
    }
}

fn main() {
    vh::main_loop_sites(run_line);
}
