//! Writer side of C19: drives the real DataWriterEntity<T>::write_w_timestamp
//! (dds/src/dcps/dcps_domain_participant/data_writer_entity.rs) with a recording mock
//! transport writer and prints every result and the bookkeeping after every operation.
//!
//! line:  Q hist ms mi mspi life ; op ; op ; ...
//!   hist 0 keep-all | depth; ms/mi/mspi -1 unlimited | n; life -1 infinite | nanoseconds
//! ops:  W h data ts now    DataWriterEntity::write_w_timestamp (ts, now in nanoseconds)
//!       P h                the KEEP_LAST step the caller (writer_methods.rs:355-405, best-effort
//!                          / acknowledged branch) performs before write_w_timestamp: when the
//!                          instance holds `depth` samples pop the oldest and remove it from
//!                          the transport writer
//!       A h data ts now    P h followed by W h data ts now (what DataWriter::write does)
//! output per op:  <code> n <ninst> (<h> <len>)* c <nchanges> s <last_seq>    code: 0 Ok, 1 OutOfResources, 9 other error
//! final:          F n <ninst> (<h> <lwt|-1> <len> <seq>*)* C <nchanges> (<seq> <h> <data> <ts>)* S <last_seq>
use dust_dds::dcps::dcps_domain_participant::data_writer_entity::DataWriterEntity;
use dust_dds::dcps::dcps_domain_participant::rtps_traits::RtpsWriter;
use dust_dds::infrastructure::error::DdsError;
use dust_dds::infrastructure::instance::InstanceHandle;
use dust_dds::infrastructure::qos::DataWriterQos;
use dust_dds::infrastructure::qos_policy::*;
use dust_dds::infrastructure::time::{Duration, DurationKind, Time};
use dust_dds::runtime::{Clock, DdsRuntime, Spawner, TaskHandle, Timer};
use dust_dds::transport::interface::WriteMessage;
use dust_dds::transport::types::{CacheChange, EntityId, Guid, Locator};

// ---------------------------------------------------------------- a do-nothing runtime
#[derive(Clone)]
struct NoClock;
impl Clock for NoClock {
    fn now(&self) -> Time {
        Time::new(1_700_000_000, 0)
    }
}
#[derive(Clone)]
struct NoTimer;
impl Timer for NoTimer {
    fn delay(&mut self, _d: core::time::Duration) -> impl core::future::Future<Output = ()> + Send {
        async {}
    }
}
struct NoTask;
impl TaskHandle for NoTask {
    fn join(&self) {}
}
#[derive(Clone)]
struct NoSpawner;
impl Spawner for NoSpawner {
    type TaskHandle = NoTask;
    fn spawn(&self, _f: impl core::future::Future<Output = ()> + Send + 'static) -> NoTask {
        NoTask
    }
}
struct NoRuntime;
impl DdsRuntime for NoRuntime {
    type ClockHandle = NoClock;
    type TimerHandle = NoTimer;
    type SpawnerHandle = NoSpawner;
    fn timer(&self) -> NoTimer {
        NoTimer
    }
    fn clock(&self) -> NoClock {
        NoClock
    }
    fn spawner(&self) -> NoSpawner {
        NoSpawner
    }
}
struct NoWire;
impl WriteMessage for NoWire {
    fn write_message(&self, _buf: &[u8], _locators: &[Locator]) {}
}

// ---------------------------------------------------------------- recording transport writer
struct MockWriter {
    changes: Vec<CacheChange>,
}
impl RtpsWriter for MockWriter {
    fn guid(&self) -> Guid {
        Guid::new([7; 12], EntityId::new([0, 0, 1], 2))
    }
    fn add_change(&mut self, cache_change: CacheChange, _m: &(impl WriteMessage + ?Sized), _r: &impl DdsRuntime) {
        self.changes.push(cache_change);
    }
}
impl MockWriter {
    // RtpsStatefulWriter::remove_change: drop the change with this sequence number
    fn remove_change(&mut self, seq: i64) {
        self.changes.retain(|c| c.sequence_number != seq);
    }
}

fn h16(i: i128) -> [u8; 16] {
    let mut b = [0u8; 16];
    b[8..16].copy_from_slice(&(i as u64).to_be_bytes());
    b
}
fn h2i(b: &[u8; 16]) -> u64 {
    u64::from_be_bytes(b[8..16].try_into().unwrap())
}
fn time(ns: i128) -> Time {
    Time::new((ns / 1_000_000_000) as i32, (ns % 1_000_000_000) as u32)
}
fn t2i(t: Time) -> i128 {
    t.sec() as i128 * 1_000_000_000 + t.nanosec() as i128
}
fn len(v: i128) -> Length {
    if v < 0 { Length::Unlimited } else { Length::Limited(v as i32) }
}

fn snapshot(w: &DataWriterEntity<MockWriter>) -> String {
    let mut s = format!("n {}", w.registered_instance_info.len());
    for i in w.registered_instance_info.iter() {
        let ih: [u8; 16] = i.instance_handle.into();
        s += &format!(" {} {}", h2i(&ih), i.samples.len());
    }
    s += &format!(" c {} s {}", w.transport_writer.changes.len(), w.last_change_sequence_number);
    s
}

fn pre(w: &mut DataWriterEntity<MockWriter>, h: InstanceHandle) {
    // writer_methods.rs:355-405 without the reliable/unacknowledged wait
    if let HistoryQosPolicyKind::KeepLast(depth) = w.qos.history.kind {
        let smallest = w
            .registered_instance_info
            .iter()
            .find(|x| x.instance_handle == h)
            .and_then(|s| if s.samples.len() == depth as usize { s.samples.front().copied() } else { None });
        if smallest.is_some() {
            if let Some(s) = w.registered_instance_info.iter_mut().find(|x| x.instance_handle == h) {
                if let Some(sn) = s.samples.pop_front() {
                    w.transport_writer.remove_change(sn);
                }
            }
        }
    }
}

fn write(w: &mut DataWriterEntity<MockWriter>, v: &[i128]) -> i32 {
    let mut data = vec![0u8; 8];
    data.copy_from_slice(&(v[1] as u64).to_be_bytes());
    match w.write_w_timestamp(InstanceHandle::new(h16(v[0])), data, time(v[2]), time(v[3]), &NoWire, &NoRuntime) {
        Ok(()) => 0,
        Err(DdsError::OutOfResources) => 1,
        Err(_) => 9,
    }
}

fn run_line(line: &str) -> String {
    let mut parts = line.split(';');
    let q = vh::util::ints(parts.next().unwrap());
    let mut qos = DataWriterQos::default();
    qos.history.kind = if q[0] == 0 { HistoryQosPolicyKind::KeepAll } else { HistoryQosPolicyKind::KeepLast(q[0] as u32) };
    qos.resource_limits.max_samples = len(q[1]);
    qos.resource_limits.max_instances = len(q[2]);
    qos.resource_limits.max_samples_per_instance = len(q[3]);
    qos.lifespan.duration = if q[4] < 0 { DurationKind::Infinite } else {
        DurationKind::Finite(Duration::new((q[4] / 1_000_000_000) as i32, (q[4] % 1_000_000_000) as u32)) };
    let mut w = DataWriterEntity::new(InstanceHandle::new(h16(999)), MockWriter { changes: vec![] }, "t".to_string(), qos);
    w.enabled = true;
    let mut out: Vec<String> = vec![];
    for op in parts.map(|x| x.trim()).filter(|x| !x.is_empty()) {
        let (name, rest) = op.split_once(' ').unwrap_or((op, ""));
        let v = vh::util::ints(rest);
        let code = match name {
            "W" => write(&mut w, &v),
            "P" => { pre(&mut w, InstanceHandle::new(h16(v[0]))); 0 }
            "A" => { pre(&mut w, InstanceHandle::new(h16(v[0]))); write(&mut w, &v) }
            _ => 9,
        };
        out.push(format!("{} {}", code, snapshot(&w)));
    }
    let mut s = format!("F n {}", w.registered_instance_info.len());
    for i in w.registered_instance_info.iter() {
        let ih: [u8; 16] = i.instance_handle.into();
        s += &format!(" {} {} {}", h2i(&ih), i.last_write_time.map(t2i).unwrap_or(-1), i.samples.len());
        for sn in i.samples.iter() {
            s += &format!(" {}", sn);
        }
    }
    s += &format!(" C {}", w.transport_writer.changes.len());
    for c in w.transport_writer.changes.iter() {
        let data = u64::from_be_bytes(c.data_value[0..8].try_into().unwrap());
        s += &format!(" {} {} {} {}", c.sequence_number, c.instance_handle.map(|h| h2i(&h)).unwrap_or(0), data,
            c.source_timestamp.map(|t| t2i(t.into())).unwrap_or(-1));
    }
    s += &format!(" S {}", w.last_change_sequence_number);
    out.push(s);
    out.join(" | ")
}

fn main() {
    vh::main_loop(run_line);
}
