//! Writer-side scenario interpreter (C27 / C28), copied from bin/sim.rs and extended.
//! One scenario per stdin line, ops separated by ';'; every scenario runs in a fresh child
//! process (`wrt --one`) because the factory owns a process-wide static channel.
//!
//! Every op prints `<name> <result...> [events...] @<now_ns>`; events are
//!   !<slot>:<rc>:<t_ns>      a previously PENDING write (slot) completed with rc at time t
//!   A<r>:<w>:<base>:<count>  an ACKNACK from reader r for writer w was handed to the writer's participant
//!   M<w>=<r>,<r>...          the matched-subscription set of writer w changed (reader indices, sorted; `-` = empty)
//!
//! ops (indices refer to creation order of each entity kind, starting at 0):
//!   cfg frag=<n> tag=<s> ann=<ms>           (before creating participants)
//!   P <domain> [auto=0]                      create participant (auto=0: entity_factory.autoenable_created_entities=false)
//!   T <p> <name> [nokey]                     create topic (type KeyedData, or the keyless PlainData)
//!   PUB <p> [auto=0] | SUB <p>               auto=0: publisher entity_factory.autoenable_created_entities=false
//!   W <pub> <topic> k=v...                   rel dur hist ms mi mspi dl ls mbt own str ad
//!   R <sub> <topic> k=v...                   rel dur hist ms mi mspi dl own sep ord
//!   en <writer>                              DataWriter::enable
//!   reg <writer> <key> [ts_ns]               register_instance(_w_timestamp)   -> `reg h=<hex>` | `reg none` | `reg E<n>`
//!   lk <writer> <key>                        lookup_instance                   -> `lk h=<hex>` | `lk none` | `lk E<n>`
//!   u / d <writer> <key> [ts_ns]             unregister_instance / dispose (handle argument None)
//!   w <writer> <key> <len> [ts_ns]           write, NOT waited for: `w <slot> <rc>` or `w <slot> PENDING`; the payload's
//!                                            first two bytes are the slot number (slots count all `w` ops of the scenario)
//!   t <reader> <max> | r <reader> <max>      take / read (any state): per sample `<id> <slot> <len> <instance_state> <ts>`
//!   th <reader> <max> | tr <reader> <max>    take, labelled as history view (late joiner) / received view (matched reader)
//!   adv <ns>                                 advance simulated time
//!   net [max]                                deliver in-flight datagrams one by one (fault rules apply)
//!   fault <drop|dup|hold> <kind> <sn> <frag> <times>   rule on USER traffic (kind DATA DATA_FRAG HEARTBEAT ACKNACK GAP NACK_FRAG ANY; -1 = any)
//!   clr                                      remove all fault rules
//!   rel                                      release held datagrams
//!   wfa <writer> <budget_ns>                 wait_for_acknowledgments
//!   pm <writer> | sm <reader> | ms <writer>  matched statuses / matched subscriptions (reader indices)
//!   delW <w> | delR <r> | delPUB <i> | delSUB <i> | delT <i> | delP <i> | delall <p>
//!   sent                                     summary of user datagrams sent since the last `sent`
//!   mark | hist <writer>                     forget the sent log so far | sorted sequence numbers of the DATA(_FRAG)
//!                                            submessages the writer sent since the last mark (`hist -` if none)
use dust_dds::dds_async::data_reader::DataReaderAsync;
use dust_dds::dds_async::data_writer::DataWriterAsync;
use dust_dds::dds_async::domain_participant::DomainParticipantAsync;
use dust_dds::dds_async::domain_participant_factory::DomainParticipantFactoryAsync;
use dust_dds::dds_async::publisher::PublisherAsync;
use dust_dds::dds_async::subscriber::SubscriberAsync;
use dust_dds::dds_async::topic::TopicAsync;
use dust_dds::dds_async::topic_description::TopicDescriptionAsync;
use dust_dds::infrastructure::error::{DdsError, DdsResult};
use dust_dds::infrastructure::instance::InstanceHandle;
use dust_dds::infrastructure::qos::{DataReaderQos, DataWriterQos, DomainParticipantQos, PublisherQos, QosKind};
use dust_dds::infrastructure::qos_policy::*;
use dust_dds::infrastructure::sample_info::{
    InstanceStateKind, ANY_INSTANCE_STATE, ANY_SAMPLE_STATE, ANY_VIEW_STATE,
};
use dust_dds::infrastructure::time::{Duration, DurationKind, Time};
use dust_dds::infrastructure::type_support::DdsType;
use dust_dds::rtps_messages::overall_structure::{RtpsMessageRead, RtpsSubmessageReadKind};
use dust_dds::runtime::{DdsRuntime, Spawner};
use std::collections::HashMap;
use std::io::{BufRead, Write};
use std::sync::{Arc, Mutex};
use vh::sim::{Packet, Sim, SimRuntime, SimTransport};

#[derive(DdsType, Debug, Clone, PartialEq)]
struct KeyedData {
    #[dust_dds(key)]
    id: u8,
    value: Vec<u8>,
}

/// the same members, but no key: a keyless (NO_KEY) topic type
#[derive(DdsType, Debug, Clone, PartialEq)]
struct PlainData {
    id: u8,
    value: Vec<u8>,
}

#[derive(Clone)]
enum Wr {
    K(DataWriterAsync<KeyedData>),
    N(DataWriterAsync<PlainData>),
}
#[derive(Clone)]
enum Rd {
    K(DataReaderAsync<KeyedData>),
    N(DataReaderAsync<PlainData>),
}
macro_rules! on_w {
    ($w:expr, $x:ident => $e:expr) => {
        match $w {
            Wr::K($x) => $e,
            Wr::N($x) => $e,
        }
    };
}
macro_rules! on_r {
    ($r:expr, $x:ident => $e:expr) => {
        match $r {
            Rd::K($x) => $e,
            Rd::N($x) => $e,
        }
    };
}

fn err_code(e: &DdsError) -> i32 {
    match e {
        DdsError::Error(_) => 1,
        DdsError::Unsupported => 2,
        DdsError::BadParameter => 3,
        DdsError::PreconditionNotMet(_) => 4,
        DdsError::OutOfResources => 5,
        DdsError::NotEnabled => 6,
        DdsError::ImmutablePolicy => 7,
        DdsError::InconsistentPolicy => 8,
        DdsError::AlreadyDeleted => 9,
        DdsError::Timeout => 10,
        DdsError::NoData => 11,
        DdsError::IllegalOperation => 12,
    }
}
fn rc<T>(r: &DdsResult<T>) -> String {
    match r {
        Ok(_) => "0".into(),
        Err(e) => format!("E{}", err_code(e)),
    }
}
fn rh(r: &DdsResult<Option<InstanceHandle>>) -> String {
    match r {
        Ok(Some(h)) => format!("h={}", vh::util::to_hex(&h.as_ref()[..])),
        Ok(None) => "none".into(),
        Err(e) => format!("E{}", err_code(e)),
    }
}
fn kv(tokens: &[&str]) -> HashMap<String, i64> {
    let mut m = HashMap::new();
    for t in tokens {
        if let Some((k, v)) = t.split_once('=') {
            if let Ok(v) = v.parse::<i64>() {
                m.insert(k.to_string(), v);
            }
        }
    }
    m
}
fn dk(ns: i64) -> DurationKind {
    if ns < 0 {
        DurationKind::Infinite
    } else {
        DurationKind::Finite(Duration::new((ns / 1_000_000_000) as i32, (ns % 1_000_000_000) as u32))
    }
}
fn len(v: i64) -> Length {
    if v < 0 { Length::Unlimited } else { Length::Limited(v as i32) }
}
fn tm(ns: i64) -> Time {
    Time::new(ns.div_euclid(1_000_000_000) as i32, ns.rem_euclid(1_000_000_000) as u32)
}
/// payload of write number `slot`: two bytes of slot number, then filler
fn payload(n: usize, slot: usize) -> Vec<u8> {
    let mut v = vec![(slot & 0xff) as u8, ((slot >> 8) & 0xff) as u8];
    while v.len() < n {
        v.push((v.len() as u8) ^ 0x5a);
    }
    v
}
fn slot_of(v: &[u8]) -> i64 {
    if v.len() >= 2 { v[0] as i64 | ((v[1] as i64) << 8) } else { -1 }
}

#[derive(Clone)]
struct Rule {
    action: u8,
    kind: String,
    sn: i64,
    frag: i64,
    times: i64,
}

fn eid(e: dust_dds::transport::types::EntityId) -> [u8; 4] {
    let k = e.entity_key();
    [k[0], k[1], k[2], e.entity_kind()]
}

/// (kind, writer entity key, sn, first fragment) of every submessage in a datagram
fn summarize(bytes: &[u8]) -> Vec<(String, u32, i64, i64)> {
    let mut v = vec![];
    if let Ok(m) = RtpsMessageRead::try_from(bytes) {
        for s in m.submessages() {
            let key = |e: dust_dds::transport::types::EntityId| {
                let k = e.entity_key();
                ((k[0] as u32) << 16) | ((k[1] as u32) << 8) | k[2] as u32
            };
            match s {
                RtpsSubmessageReadKind::Data(d) => v.push(("DATA".into(), key(d.writer_id()), d.writer_sn(), 0)),
                RtpsSubmessageReadKind::DataFrag(d) => {
                    v.push(("DATA_FRAG".into(), key(d.writer_id()), d.writer_sn(), d.fragment_starting_num() as i64))
                }
                RtpsSubmessageReadKind::Heartbeat(h) => v.push(("HEARTBEAT".into(), key(h.writer_id()), h.last_sn(), h.first_sn())),
                RtpsSubmessageReadKind::AckNack(a) => v.push(("ACKNACK".into(), key(*a.writer_id()), a.reader_sn_state().base(), 0)),
                RtpsSubmessageReadKind::Gap(g) => v.push(("GAP".into(), key(g.writer_id()), g.gap_start(), g.gap_list().base())),
                RtpsSubmessageReadKind::NackFrag(n) => v.push(("NACK_FRAG".into(), key(n._writer_id()), n.writer_sn(), 0)),
                _ => {}
            }
        }
    }
    v
}

/// (source guid prefix, reader entity id, writer entity id, base, count) of every ACKNACK in a datagram
fn acknacks(bytes: &[u8]) -> Vec<([u8; 12], [u8; 4], [u8; 4], i64, i64)> {
    let mut v = vec![];
    if let Ok(m) = RtpsMessageRead::try_from(bytes) {
        let prefix = m.header().guid_prefix();
        for s in m.submessages() {
            if let RtpsSubmessageReadKind::AckNack(a) = s {
                v.push((prefix, eid(*a.reader_id()), eid(*a.writer_id()), a.reader_sn_state().base(), a.count() as i64));
            }
        }
    }
    v
}

struct World {
    sim: Sim,
    factory: DomainParticipantFactoryAsync<SimTransport>,
    parts: Vec<DomainParticipantAsync>,
    topics: Vec<TopicAsync>,
    topic_keyed: Vec<bool>,
    pubs: Vec<PublisherAsync>,
    subs: Vec<SubscriberAsync>,
    writers: Vec<Wr>,
    writer_part: Vec<[u8; 12]>,
    readers: Vec<Rd>,
    rules: Vec<Rule>,
    sent_mark: usize,
    /// result and completion time of every `w` op, by slot
    done: Arc<Mutex<Vec<Option<(String, i64)>>>>,
    reported: Vec<bool>,
    matched: Vec<Vec<usize>>,
}

const BUDGET: i64 = 2_000_000_000;

impl World {
    fn filter(rules: &mut Vec<Rule>, p: &Packet) -> u8 {
        if p.meta {
            return 0;
        }
        let subs = summarize(&p.bytes);
        for r in rules.iter_mut() {
            if r.times == 0 {
                continue;
            }
            let hit = subs.iter().any(|(k, _, sn, frag)| {
                (r.kind == "ANY" || &r.kind == k) && (r.sn < 0 || r.sn == *sn) && (r.frag < 0 || r.frag == *frag)
            });
            if hit {
                if r.times > 0 {
                    r.times -= 1;
                }
                return r.action;
            }
        }
        0
    }

    fn whandle(&self, i: usize) -> InstanceHandle {
        on_w!(&self.writers[i], x => x.get_instance_handle())
    }
    fn rhandle(&self, i: usize) -> InstanceHandle {
        on_r!(&self.readers[i], x => x.get_instance_handle())
    }

    /// completions of pending writes that were not reported yet
    fn completions(&mut self) -> String {
        let d = self.done.lock().unwrap();
        let mut s = String::new();
        for (i, x) in d.iter().enumerate() {
            if let Some((r, t)) = x {
                if !self.reported[i] {
                    self.reported[i] = true;
                    s += &format!(" !{}:{}:{}", i, r, t);
                }
            }
        }
        s
    }

    /// changes of the matched-subscription sets (as reader indices)
    fn matched_changes(&mut self) -> String {
        let mut s = String::new();
        for i in 0..self.writers.len() {
            let w = self.writers[i].clone();
            let r = on_w!(&w, x => self.sim.run(x.get_matched_subscriptions(), BUDGET));
            let mut cur: Vec<usize> = vec![];
            if let Ok(Ok(l)) = r {
                for h in l {
                    for j in 0..self.readers.len() {
                        if self.rhandle(j) == h {
                            cur.push(j);
                        }
                    }
                }
            }
            cur.sort();
            if cur != self.matched[i] {
                let txt = if cur.is_empty() { "-".to_string() } else { cur.iter().map(|x| x.to_string()).collect::<Vec<_>>().join(",") };
                s += &format!(" M{}={}", i, txt);
                self.matched[i] = cur;
            }
        }
        s
    }

    fn ack_tokens(&self, p: &Packet) -> String {
        let mut s = String::new();
        if p.meta {
            return s;
        }
        for (prefix, rid, wid, base, count) in acknacks(&p.bytes) {
            let mut rg = [0u8; 16];
            rg[..12].copy_from_slice(&prefix);
            rg[12..].copy_from_slice(&rid);
            let r = (0..self.readers.len()).find(|j| self.rhandle(*j).as_ref() == &rg);
            let dst = self.parts.get(p.to).map(|x| x.get_instance_handle());
            let w = (0..self.writers.len()).find(|j| {
                let h = self.whandle(*j);
                h.as_ref()[12..] == wid && dst.map(|d| d.as_ref()[..12] == h.as_ref()[..12]).unwrap_or(false)
            });
            if let (Some(r), Some(w)) = (r, w) {
                s += &format!(" A{}:{}:{}:{}", r, w, base, count);
            }
        }
        s
    }

    fn deliver(&mut self, p: &Packet) -> String {
        let mut s = self.ack_tokens(p);
        self.sim.deliver_packet(p);
        // a match change caused by this datagram comes before the completions it triggered
        if p.meta {
            s += &self.matched_changes();
        }
        s += &self.completions();
        s
    }

    fn pump(&mut self, max: usize) -> (usize, String) {
        let mut n = 0;
        let mut ev = String::new();
        self.sim.settle();
        loop {
            let next = {
                let mut q = self.sim.shared.inflight.lock().unwrap();
                match q.iter().position(|p| !p.held) {
                    Some(i) => Some(q.remove(i)),
                    None => None,
                }
            };
            let Some(mut p) = next else { break };
            match World::filter(&mut self.rules, &p) {
                1 => {}
                2 => {
                    ev += &self.deliver(&p);
                    ev += &self.deliver(&p);
                }
                3 => {
                    p.held = true;
                    self.sim.shared.inflight.lock().unwrap().push(p);
                }
                _ => ev += &self.deliver(&p),
            }
            n += 1;
            if n >= max {
                break;
            }
        }
        (n, ev)
    }

    fn op(&mut self, op: &str) -> String {
        let body = self.op_body(op);
        if body.is_empty() {
            return body;
        }
        let ev = self.completions();
        format!("{}{} @{}", body, ev, self.sim.now())
    }

    fn op_body(&mut self, op: &str) -> String {
        let t: Vec<&str> = op.split_whitespace().collect();
        if t.is_empty() {
            return String::new();
        }
        let n = |i: usize| -> i64 { t.get(i).and_then(|x| x.parse::<i64>().ok()).unwrap_or(0) };
        let u = |i: usize| -> usize { n(i) as usize };
        // an op on a writer / reader that does not exist (its creation was refused)
        let needs_writer = ["en", "reg", "lk", "d", "u", "w", "wfa", "pm", "ms", "delW", "hist"];
        let needs_reader = ["t", "r", "th", "tr", "sm", "delR"];
        if (needs_writer.contains(&t[0]) && u(1) >= self.writers.len())
            || (needs_reader.contains(&t[0]) && u(1) >= self.readers.len())
        {
            return format!("{} NOENT", t[0]);
        }
        match t[0] {
            "cfg" => {
                let m = kv(&t[1..]);
                if let Some(f) = m.get("frag") {
                    *self.sim.shared.fragment_size.lock().unwrap() = *f as usize;
                }
                let tag = t.iter().find_map(|x| x.strip_prefix("tag=")).map(|s| s.to_string());
                let ann = m.get("ann").copied();
                if tag.is_some() || ann.is_some() {
                    let mut b = dust_dds::dds_async::configuration::DustDdsConfigurationBuilder::new();
                    if let Some(tg) = tag {
                        b = b.domain_tag(tg);
                    }
                    if let Some(a) = ann {
                        b = b.participant_announcement_interval(core::time::Duration::from_millis(a as u64));
                    }
                    let c = b.build().unwrap();
                    let f = &self.factory;
                    let _ = self.sim.run(async { *f.get_mut_configuration().await = c; }, BUDGET);
                }
                "c".into()
            }
            "P" => {
                let m = kv(&t[2..]);
                let f = &self.factory;
                let qos = if m.get("auto").copied().unwrap_or(1) == 0 {
                    let mut q = DomainParticipantQos::default();
                    q.entity_factory.autoenable_created_entities = false;
                    QosKind::Specific(q)
                } else {
                    QosKind::Default
                };
                let r = self.sim.run(f.create_participant(n(1) as i32, qos, None::<()>, &[]), BUDGET);
                self.sim.settle();
                match r {
                    Ok(Ok(p)) => {
                        self.parts.push(p);
                        "P 0".into()
                    }
                    Ok(Err(e)) => format!("P E{}", err_code(&e)),
                    Err(_) => "P STUCK".into(),
                }
            }
            "T" => {
                let p = &self.parts[u(1)];
                let name = t.get(2).copied().unwrap_or("topic");
                let keyed = t.get(3).copied() != Some("nokey");
                let r = if keyed {
                    self.sim.run(p.create_topic::<KeyedData>(name, "KeyedData", QosKind::Default, None::<()>, &[]), BUDGET)
                } else {
                    self.sim.run(p.create_topic::<PlainData>(name, "PlainData", QosKind::Default, None::<()>, &[]), BUDGET)
                };
                self.sim.settle();
                match r {
                    Ok(Ok(x)) => {
                        self.topics.push(x);
                        self.topic_keyed.push(keyed);
                        "T 0".into()
                    }
                    Ok(Err(e)) => format!("T E{}", err_code(&e)),
                    Err(_) => "T STUCK".into(),
                }
            }
            "PUB" => {
                let m = kv(&t[2..]);
                let p = &self.parts[u(1)];
                let qos = if m.get("auto").copied().unwrap_or(1) == 0 {
                    let mut q = PublisherQos::default();
                    q.entity_factory.autoenable_created_entities = false;
                    QosKind::Specific(q)
                } else {
                    QosKind::Default
                };
                let r = self.sim.run(p.create_publisher(qos, None::<()>, &[]), BUDGET);
                self.sim.settle();
                match r {
                    Ok(Ok(x)) => {
                        self.pubs.push(x);
                        "PUB 0".into()
                    }
                    Ok(Err(e)) => format!("PUB E{}", err_code(&e)),
                    Err(_) => "PUB STUCK".into(),
                }
            }
            "SUB" => {
                let p = &self.parts[u(1)];
                let r = self.sim.run(p.create_subscriber(QosKind::Default, None::<()>, &[]), BUDGET);
                self.sim.settle();
                match r {
                    Ok(Ok(x)) => {
                        self.subs.push(x);
                        "SUB 0".into()
                    }
                    Ok(Err(e)) => format!("SUB E{}", err_code(&e)),
                    Err(_) => "SUB STUCK".into(),
                }
            }
            "W" => {
                let m = kv(&t[3..]);
                let g = |k: &str, d: i64| m.get(k).copied().unwrap_or(d);
                let mut q = DataWriterQos::default();
                q.reliability.kind = if g("rel", 1) == 1 { ReliabilityQosPolicyKind::Reliable } else { ReliabilityQosPolicyKind::BestEffort };
                q.reliability.max_blocking_time = dk(g("mbt", 100_000_000));
                q.durability.kind = if g("dur", 0) == 1 { DurabilityQosPolicyKind::TransientLocal } else { DurabilityQosPolicyKind::Volatile };
                q.history.kind = if g("hist", 0) <= 0 {
                    if g("hist", 0) == 0 { HistoryQosPolicyKind::KeepAll } else { HistoryQosPolicyKind::KeepLast(0) }
                } else {
                    HistoryQosPolicyKind::KeepLast(g("hist", 0) as u32)
                };
                q.resource_limits.max_samples = len(g("ms", -1));
                q.resource_limits.max_instances = len(g("mi", -1));
                q.resource_limits.max_samples_per_instance = len(g("mspi", -1));
                q.deadline.period = dk(g("dl", -1));
                q.lifespan.duration = dk(g("ls", -1));
                q.ownership.kind = if g("own", 0) == 1 { OwnershipQosPolicyKind::Exclusive } else { OwnershipQosPolicyKind::Shared };
                q.ownership_strength.value = g("str", 0) as i32;
                q.writer_data_lifecycle.autodispose_unregistered_instances = g("ad", 1) == 1;
                let pb = &self.pubs[u(1)];
                let tp = &self.topics[u(2)];
                let r: Result<DdsResult<Wr>, _> = if self.topic_keyed[u(2)] {
                    self.sim.run(pb.create_datawriter::<KeyedData>(tp, QosKind::Specific(q), None::<()>, &[]), BUDGET).map(|x| x.map(Wr::K))
                } else {
                    self.sim.run(pb.create_datawriter::<PlainData>(tp, QosKind::Specific(q), None::<()>, &[]), BUDGET).map(|x| x.map(Wr::N))
                };
                self.sim.settle();
                match r {
                    Ok(Ok(x)) => {
                        let h = on_w!(&x, y => y.get_instance_handle());
                        let mut pr = [0u8; 12];
                        pr.copy_from_slice(&h.as_ref()[..12]);
                        self.writers.push(x);
                        self.writer_part.push(pr);
                        self.matched.push(vec![]);
                        "W 0".into()
                    }
                    Ok(Err(e)) => format!("W E{}", err_code(&e)),
                    Err(_) => "W STUCK".into(),
                }
            }
            "R" => {
                let m = kv(&t[3..]);
                let g = |k: &str, d: i64| m.get(k).copied().unwrap_or(d);
                let mut q = DataReaderQos::default();
                q.reliability.kind = if g("rel", 1) == 1 { ReliabilityQosPolicyKind::Reliable } else { ReliabilityQosPolicyKind::BestEffort };
                q.durability.kind = if g("dur", 0) == 1 { DurabilityQosPolicyKind::TransientLocal } else { DurabilityQosPolicyKind::Volatile };
                q.history.kind = if g("hist", 0) == 0 { HistoryQosPolicyKind::KeepAll } else { HistoryQosPolicyKind::KeepLast(g("hist", 0) as u32) };
                q.resource_limits.max_samples = len(g("ms", -1));
                q.resource_limits.max_instances = len(g("mi", -1));
                q.resource_limits.max_samples_per_instance = len(g("mspi", -1));
                q.deadline.period = dk(g("dl", -1));
                q.ownership.kind = if g("own", 0) == 1 { OwnershipQosPolicyKind::Exclusive } else { OwnershipQosPolicyKind::Shared };
                q.time_based_filter.minimum_separation = dk(g("sep", 0));
                q.destination_order.kind = if g("ord", 0) == 1 { DestinationOrderQosPolicyKind::BySourceTimestamp } else { DestinationOrderQosPolicyKind::ByReceptionTimestamp };
                let sb = &self.subs[u(1)];
                let tp = &self.topics[u(2)];
                let r: Result<DdsResult<Rd>, _> = if self.topic_keyed[u(2)] {
                    self.sim.run(sb.create_datareader::<KeyedData>(tp, QosKind::Specific(q), None::<()>, &[]), BUDGET).map(|x| x.map(Rd::K))
                } else {
                    self.sim.run(sb.create_datareader::<PlainData>(tp, QosKind::Specific(q), None::<()>, &[]), BUDGET).map(|x| x.map(Rd::N))
                };
                self.sim.settle();
                match r {
                    Ok(Ok(x)) => {
                        self.readers.push(x);
                        "R 0".into()
                    }
                    Ok(Err(e)) => format!("R E{}", err_code(&e)),
                    Err(_) => "R STUCK".into(),
                }
            }
            "en" => {
                let w = self.writers[u(1)].clone();
                let r = on_w!(&w, x => self.sim.run(x.enable(), BUDGET));
                self.sim.settle();
                match r {
                    Ok(x) => format!("en {}", rc(&x)),
                    Err(_) => "en STUCK".into(),
                }
            }
            "reg" | "lk" => {
                let w = self.writers[u(1)].clone();
                let id = n(2) as u8;
                let ts = t.get(3).and_then(|x| x.parse::<i64>().ok());
                let r = match (&w, t[0], ts) {
                    (Wr::K(x), "reg", Some(ts)) => self.sim.run(x.register_instance_w_timestamp(KeyedData { id, value: vec![] }, tm(ts)), BUDGET),
                    (Wr::K(x), "reg", None) => self.sim.run(x.register_instance(KeyedData { id, value: vec![] }), BUDGET),
                    (Wr::K(x), _, _) => self.sim.run(x.lookup_instance(KeyedData { id, value: vec![] }), BUDGET),
                    (Wr::N(x), "reg", Some(ts)) => self.sim.run(x.register_instance_w_timestamp(PlainData { id, value: vec![] }, tm(ts)), BUDGET),
                    (Wr::N(x), "reg", None) => self.sim.run(x.register_instance(PlainData { id, value: vec![] }), BUDGET),
                    (Wr::N(x), _, _) => self.sim.run(x.lookup_instance(PlainData { id, value: vec![] }), BUDGET),
                };
                self.sim.settle();
                match r {
                    Ok(x) => format!("{} {}", t[0], rh(&x)),
                    Err(_) => format!("{} STUCK", t[0]),
                }
            }
            "d" | "u" => {
                let w = self.writers[u(1)].clone();
                let id = n(2) as u8;
                let ts = t.get(3).and_then(|x| x.parse::<i64>().ok());
                let r = match (&w, t[0], ts) {
                    (Wr::K(x), "d", Some(ts)) => self.sim.run(x.dispose_w_timestamp(KeyedData { id, value: vec![] }, None, tm(ts)), BUDGET),
                    (Wr::K(x), "d", None) => self.sim.run(x.dispose(KeyedData { id, value: vec![] }, None), BUDGET),
                    (Wr::K(x), _, Some(ts)) => self.sim.run(x.unregister_instance_w_timestamp(KeyedData { id, value: vec![] }, None, tm(ts)), BUDGET),
                    (Wr::K(x), _, None) => self.sim.run(x.unregister_instance(KeyedData { id, value: vec![] }, None), BUDGET),
                    (Wr::N(x), "d", Some(ts)) => self.sim.run(x.dispose_w_timestamp(PlainData { id, value: vec![] }, None, tm(ts)), BUDGET),
                    (Wr::N(x), "d", None) => self.sim.run(x.dispose(PlainData { id, value: vec![] }, None), BUDGET),
                    (Wr::N(x), _, Some(ts)) => self.sim.run(x.unregister_instance_w_timestamp(PlainData { id, value: vec![] }, None, tm(ts)), BUDGET),
                    (Wr::N(x), _, None) => self.sim.run(x.unregister_instance(PlainData { id, value: vec![] }, None), BUDGET),
                };
                self.sim.settle();
                match r {
                    Ok(x) => format!("{} {}", t[0], rc(&x)),
                    Err(_) => format!("{} STUCK", t[0]),
                }
            }
            "w" => {
                // the write runs as a task of the simulator so that a blocked write does not
                // block the scenario; its result and completion time are recorded by slot
                let w = self.writers[u(1)].clone();
                let id = n(2) as u8;
                let ts = t.get(4).and_then(|x| x.parse::<i64>().ok());
                let slot = {
                    let mut d = self.done.lock().unwrap();
                    d.push(None);
                    d.len() - 1
                };
                self.reported.push(false);
                let value = payload(u(3), slot);
                let done = self.done.clone();
                let shared = self.sim.shared.clone();
                let spawner = SimRuntime(self.sim.shared.clone()).spawner();
                spawner.spawn(async move {
                    let r = match (&w, ts) {
                        (Wr::K(x), Some(ts)) => x.write_w_timestamp(KeyedData { id, value }, None, tm(ts)).await,
                        (Wr::K(x), None) => x.write(KeyedData { id, value }, None).await,
                        (Wr::N(x), Some(ts)) => x.write_w_timestamp(PlainData { id, value }, None, tm(ts)).await,
                        (Wr::N(x), None) => x.write(PlainData { id, value }, None).await,
                    };
                    let now = *shared.now_ns.lock().unwrap();
                    done.lock().unwrap()[slot] = Some((rc(&r), now));
                });
                self.sim.settle();
                let d = self.done.lock().unwrap()[slot].clone();
                match d {
                    Some((r, _)) => {
                        self.reported[slot] = true;
                        format!("w {} {}", slot, r)
                    }
                    None => format!("w {} PENDING", slot),
                }
            }
            "t" | "r" | "th" | "tr" => {
                // th / tr are `t` under another name: they mark the take as the "history view" of a
                // late-joining reader / the final "received view" of the matched reader
                let rd = self.readers[u(1)].clone();
                let max = if n(2) <= 0 { i32::MAX } else { n(2) as i32 };
                let take = t[0] != "r";
                // (id, value, instance state, timestamp) of every sample
                let r: Result<DdsResult<Vec<(Option<(u8, Vec<u8>)>, i32, i64)>>, _> = match &rd {
                    Rd::K(x) => {
                        let r = if take {
                            self.sim.run(x.take(max, ANY_SAMPLE_STATE, ANY_VIEW_STATE, ANY_INSTANCE_STATE), BUDGET)
                        } else {
                            self.sim.run(x.read(max, ANY_SAMPLE_STATE, ANY_VIEW_STATE, ANY_INSTANCE_STATE), BUDGET)
                        };
                        r.map(|y| y.map(|l| l.into_iter().map(|s| (s.data.map(|d| (d.id, d.value)), is_code(s.sample_info.instance_state), ts_of(s.sample_info.source_timestamp))).collect()))
                    }
                    Rd::N(x) => {
                        let r = if take {
                            self.sim.run(x.take(max, ANY_SAMPLE_STATE, ANY_VIEW_STATE, ANY_INSTANCE_STATE), BUDGET)
                        } else {
                            self.sim.run(x.read(max, ANY_SAMPLE_STATE, ANY_VIEW_STATE, ANY_INSTANCE_STATE), BUDGET)
                        };
                        r.map(|y| y.map(|l| l.into_iter().map(|s| (s.data.map(|d| (d.id, d.value)), is_code(s.sample_info.instance_state), ts_of(s.sample_info.source_timestamp))).collect()))
                    }
                };
                self.sim.settle();
                match r {
                    Ok(Ok(l)) => {
                        let mut s = format!("{} {}", t[0], l.len());
                        for (d, is, ts) in l {
                            match d {
                                Some((id, v)) => s += &format!(" {} {} {} {} {}", id, slot_of(&v), v.len(), is, ts),
                                None => s += &format!(" -1 -1 0 {} {}", is, ts),
                            }
                        }
                        s
                    }
                    Ok(Err(e)) if err_code(&e) == 11 => format!("{} 0", t[0]),
                    Ok(Err(e)) => format!("{} E{}", t[0], err_code(&e)),
                    Err(_) => format!("{} STUCK", t[0]),
                }
            }
            "adv" => {
                self.sim.advance(n(1));
                let m = self.matched_changes();
                format!("adv{}", m)
            }
            "net" => {
                let max = if t.len() > 1 { u(1) } else { 100_000 };
                let (k, ev) = self.pump(max);
                format!("net {}{}", k, ev)
            }
            "fault" => {
                let action = match t[1] {
                    "drop" => 1,
                    "dup" => 2,
                    _ => 3,
                };
                self.rules.push(Rule { action, kind: t[2].to_string(), sn: n(3), frag: n(4), times: if t.len() > 5 { n(5) } else { 1 } });
                "f".into()
            }
            "clr" => {
                self.rules.clear();
                "clr".into()
            }
            "rel" => {
                self.sim.release_held();
                "rel".into()
            }
            "wfa" => {
                let w = self.writers[u(1)].clone();
                let r = on_w!(&w, x => self.sim.run(x.wait_for_acknowledgments(), n(2)));
                self.sim.settle();
                match r {
                    Ok(x) => format!("wfa {}", rc(&x)),
                    Err(_) => "wfa PENDING".into(),
                }
            }
            "pm" => {
                let w = self.writers[u(1)].clone();
                match on_w!(&w, x => self.sim.run(x.get_publication_matched_status(), BUDGET)) {
                    Ok(Ok(s)) => format!("pm {} {} {} {}", s.total_count, s.total_count_change, s.current_count, s.current_count_change),
                    Ok(Err(e)) => format!("pm E{}", err_code(&e)),
                    Err(_) => "pm STUCK".into(),
                }
            }
            "sm" => {
                let rd = self.readers[u(1)].clone();
                match on_r!(&rd, x => self.sim.run(x.get_subscription_matched_status(), BUDGET)) {
                    Ok(Ok(s)) => format!("sm {} {} {} {}", s.total_count, s.total_count_change, s.current_count, s.current_count_change),
                    Ok(Err(e)) => format!("sm E{}", err_code(&e)),
                    Err(_) => "sm STUCK".into(),
                }
            }
            "ms" => {
                let m = self.matched_changes();
                let cur = &self.matched[u(1)];
                let txt = if cur.is_empty() { "-".to_string() } else { cur.iter().map(|x| x.to_string()).collect::<Vec<_>>().join(",") };
                format!("ms {}{}", txt, m)
            }
            "delW" => {
                let w = self.writers[u(1)].clone();
                let r = on_w!(&w, x => { let pb = x.get_publisher(); self.sim.run(pb.delete_datawriter(x), BUDGET) });
                self.sim.settle();
                match r { Ok(x) => format!("delW {}", rc(&x)), Err(_) => "delW STUCK".into() }
            }
            "delR" => {
                let rd = self.readers[u(1)].clone();
                let r = on_r!(&rd, x => { let sb = x.get_subscriber(); self.sim.run(sb.delete_datareader(x), BUDGET) });
                self.sim.settle();
                let m = self.matched_changes();
                match r { Ok(x) => format!("delR {}{}", rc(&x), m), Err(_) => "delR STUCK".into() }
            }
            "delPUB" => {
                let x = &self.pubs[u(1)];
                let p = x.get_participant();
                let r = self.sim.run(p.delete_publisher(x), BUDGET);
                self.sim.settle();
                match r { Ok(x) => format!("delPUB {}", rc(&x)), Err(_) => "delPUB STUCK".into() }
            }
            "delSUB" => {
                let x = &self.subs[u(1)];
                let p = x.get_participant();
                let r = self.sim.run(p.delete_subscriber(x), BUDGET);
                self.sim.settle();
                match r { Ok(x) => format!("delSUB {}", rc(&x)), Err(_) => "delSUB STUCK".into() }
            }
            "delT" => {
                let x = &self.topics[u(1)];
                let p = x.get_participant();
                let r = self.sim.run(p.delete_topic(x), BUDGET);
                self.sim.settle();
                match r { Ok(x) => format!("delT {}", rc(&x)), Err(_) => "delT STUCK".into() }
            }
            "delall" => {
                let p = &self.parts[u(1)];
                let r = self.sim.run(p.delete_contained_entities(), BUDGET);
                self.sim.settle();
                match r { Ok(x) => format!("delall {}", rc(&x)), Err(_) => "delall STUCK".into() }
            }
            "delP" => {
                let p = &self.parts[u(1)];
                let f = &self.factory;
                let r = self.sim.run(f.delete_participant(p), BUDGET);
                self.sim.settle();
                if let Ok(Ok(())) = r {
                    self.sim.shared.endpoints.lock().unwrap()[u(1)].alive = false;
                }
                match r { Ok(x) => format!("delP {}", rc(&x)), Err(_) => "delP STUCK".into() }
            }
            "mark" => {
                self.sent_mark = self.sim.shared.sent_log.lock().unwrap().len();
                "mark".into()
            }
            "hist" => {
                // sequence numbers of the DATA / DATA_FRAG submessages writer <w> sent since the last
                // `mark` / `sent`: for a late-joining TRANSIENT_LOCAL reliable reader on a loss-free
                // network this is the content of the writer history
                let h = self.whandle(u(1));
                let wkey = ((h.as_ref()[12] as u32) << 16) | ((h.as_ref()[13] as u32) << 8) | h.as_ref()[14] as u32;
                let log = self.sim.shared.sent_log.lock().unwrap();
                let mut sns: Vec<i64> = vec![];
                for (_, _, meta, bytes) in log[self.sent_mark..].iter() {
                    if *meta {
                        continue;
                    }
                    for (k, w, sn, _) in summarize(bytes) {
                        if (k == "DATA" || k == "DATA_FRAG") && w == wkey && !sns.contains(&sn) {
                            sns.push(sn);
                        }
                    }
                }
                sns.sort();
                if sns.is_empty() { "hist -".into() } else { format!("hist {}", sns.iter().map(|x| x.to_string()).collect::<Vec<_>>().join(",")) }
            }
            "sent" => {
                let log = self.sim.shared.sent_log.lock().unwrap();
                let mut s = String::from("sent");
                for (from, to, meta, bytes) in log[self.sent_mark..].iter() {
                    if *meta {
                        continue;
                    }
                    for (k, w, sn, fr) in summarize(bytes) {
                        s += &format!(" {}>{}:{}:{}:{}:{}", from, to, k, w, sn, fr);
                    }
                }
                self.sent_mark = log.len();
                s
            }
            _ => format!("?{}", t[0]),
        }
    }
}

fn is_code(s: InstanceStateKind) -> i32 {
    match s {
        InstanceStateKind::Alive => 1,
        InstanceStateKind::NotAliveDisposed => 2,
        InstanceStateKind::NotAliveNoWriters => 4,
    }
}
fn ts_of(t: Option<Time>) -> i64 {
    t.map(|t| t.sec() as i64 * 1_000_000_000 + t.nanosec() as i64).unwrap_or(-1)
}

fn run_scenario(line: &str) -> String {
    let sim = Sim::new(1344);
    let factory = DomainParticipantFactoryAsync::new(
        SimRuntime(sim.shared.clone()),
        [1, 2, 3, 4],
        [5, 6, 7, 8],
        SimTransport(sim.shared.clone()),
        Default::default(),
    );
    let mut w = World {
        sim,
        factory,
        parts: vec![],
        topics: vec![],
        topic_keyed: vec![],
        pubs: vec![],
        subs: vec![],
        writers: vec![],
        writer_part: vec![],
        readers: vec![],
        rules: vec![],
        sent_mark: 0,
        done: Arc::new(Mutex::new(vec![])),
        reported: vec![],
        matched: vec![],
    };
    let mut out = vec![];
    for op in line.split(';') {
        let op = op.trim();
        if op.is_empty() {
            continue;
        }
        out.push(w.op(op));
    }
    out.join(" | ")
}

fn main() {
    let args: Vec<String> = std::env::args().collect();
    if args.get(1).map(|s| s.as_str()) == Some("--one") {
        // child: one scenario on stdin
        let mut line = String::new();
        std::io::stdin().lock().read_line(&mut line).unwrap();
        std::panic::set_hook(Box::new(|info| {
            let s = info.location().map(|l| format!("{}:{}", l.file(), l.line())).unwrap_or_default();
            println!("PANIC {}", s);
            std::process::exit(3);
        }));
        println!("{}", run_scenario(line.trim()));
        std::process::exit(0);
    }
    let exe = std::env::current_exe().unwrap();
    let stdin = std::io::stdin();
    let stdout = std::io::stdout();
    let mut out = stdout.lock();
    for line in stdin.lock().lines() {
        let line = line.unwrap();
        if line.trim().is_empty() {
            continue;
        }
        let mut child = std::process::Command::new(&exe)
            .arg("--one")
            .stdin(std::process::Stdio::piped())
            .stdout(std::process::Stdio::piped())
            .stderr(std::process::Stdio::null())
            .spawn()
            .unwrap();
        child.stdin.take().unwrap().write_all(format!("{}\n", line).as_bytes()).unwrap();
        let o = child.wait_with_output().unwrap();
        let s = String::from_utf8_lossy(&o.stdout);
        let last = s.lines().last().unwrap_or("ABORT").to_string();
        writeln!(out, "{}", if last.is_empty() { "ABORT".to_string() } else { last }).unwrap();
        out.flush().unwrap();
    }
}
