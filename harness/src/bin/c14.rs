use dust_dds::infrastructure::time::{Duration, Time};
use dust_dds::rtps::behavior_types::Duration as RtpsDuration;
use dust_dds::rtps_messages::types::Time as RtpsTime;
use dust_dds::transport::types::Time as TTime;

fn d(v: &[i128], i: usize) -> Duration {
    Duration::new(v[i] as i32, v[i + 1] as u32)
}
fn t(v: &[i128], i: usize) -> Time {
    Time::new(v[i] as i32, v[i + 1] as u32)
}
fn pd(x: Duration) -> String {
    format!("{} {}", x.sec(), x.nanosec())
}
fn pt(x: Time) -> String {
    format!("{} {}", x.sec(), x.nanosec())
}

fn run_line(line: &str) -> String {
    let (op, rest) = line.split_once(' ').unwrap_or((line, ""));
    let v = vh::util::ints(rest);
    match op {
        "rtdur" => {
            let w: RtpsDuration = d(&v, 0).into();
            let back: Duration = w.into();
            format!("OK {}", pd(back))
        }
        "rttime" => {
            let w: RtpsTime = d(&v, 0).into();
            let back: Duration = w.into();
            format!("OK {}", pd(back))
        }
        "rtts" => {
            let tt: TTime = t(&v, 0).into();
            let w: RtpsTime = tt.into();
            // through the wire encoding of INFO_TS as well
            let w2 = RtpsTime::new(w.seconds(), w.fraction());
            let tt2: TTime = w2.into();
            let back: Time = tt2.into();
            format!("OK {}", pt(back))
        }
        "wiredur" => {
            let w = RtpsDuration::new(v[0] as i32, v[1] as u32);
            let back: Duration = w.into();
            format!("OK {}", pd(back))
        }
        "wirets" => {
            let w = RtpsTime::new(v[0] as u32, v[1] as u32);
            let tt: TTime = w.into();
            let back: Time = tt.into();
            format!("OK {}", pt(back))
        }
        "new" => format!("OK {}", pd(Duration::new(v[0] as i32, v[1] as u32))),
        "add" => format!("OK {}", pd(d(&v, 0) + d(&v, 2))),
        "sub" => format!("OK {}", pd(d(&v, 0) - d(&v, 2))),
        "tsub" => format!("OK {}", pd(t(&v, 0) - t(&v, 2))),
        "tadd" => format!("OK {}", pt(t(&v, 0) + d(&v, 2))),
        "monoadd" => format!("OK {} {}", pd(d(&v, 0) + d(&v, 4)), pd(d(&v, 2) + d(&v, 4))),
        "monosub" => format!("OK {} {}", pd(d(&v, 0) - d(&v, 4)), pd(d(&v, 2) - d(&v, 4))),
        _ => "BADOP".to_string(),
    }
}

fn main() {
    vh::main_loop(run_line);
}
