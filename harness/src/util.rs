pub fn ints(s: &str) -> Vec<i128> {
    s.split_whitespace().filter_map(|t| t.parse::<i128>().ok()).collect()
}
pub fn hex(s: &str) -> Vec<u8> {
    let s = s.trim();
    if s == "-" {
        return vec![];
    }
    (0..s.len() / 2).map(|i| u8::from_str_radix(&s[2 * i..2 * i + 2], 16).unwrap()).collect()
}
pub fn to_hex(b: &[u8]) -> String {
    if b.is_empty() {
        return "-".to_string();
    }
    b.iter().map(|x| format!("{:02x}", x)).collect()
}
