// Generates $OUT_DIR/xtypes_src.rs: `#[path]` inclusions of the crate-private
// dds/src/xtypes/{serializer,deserializer}.rs of the repository under check, so that harness
// binaries which compile those two files into themselves (c09, ...) follow VERIF_REPO
// (default /repo) exactly like the `dust_dds` path dependency does.
fn main() {
    let repo = std::env::var("VERIF_REPO").unwrap_or_else(|_| "/repo".to_string());
    let repo = std::fs::canonicalize(&repo)
        .map(|p| p.to_string_lossy().into_owned())
        .unwrap_or(repo);
    let out = std::env::var("OUT_DIR").unwrap();
    let text = format!(
        "#[path = \"{r}/dds/src/xtypes/deserializer.rs\"]\npub mod deserializer;\n#[path = \"{r}/dds/src/xtypes/serializer.rs\"]\npub mod serializer;\n",
        r = repo
    );
    std::fs::write(format!("{out}/xtypes_src.rs"), text).unwrap();
    println!("cargo:rerun-if-env-changed=VERIF_REPO");
    println!("cargo:rerun-if-changed=build.rs");
}
