#!/usr/bin/env python3
"""Regenerates the generated block of DESIGN.md section 9 (status table, fixes,
known findings) from props/*.py, MANIFEST.json and known_findings.json."""
import importlib, json, os, re, sys
HERE = os.path.dirname(os.path.abspath(__file__))
sys.path.insert(0, HERE)
props = [json.loads(l) for l in open(os.path.join(HERE, "properties.jsonl"))]
kf = json.load(open(os.path.join(HERE, "known_findings.json")))
man = json.load(open(os.path.join(HERE, "MANIFEST.json")))
claimed = {c["property_id"]: c for c in man["checks"]}
na = {c["property_id"]: c["reason"] for c in man.get("not_applicable", [])}
out = ["<!-- BEGIN GENERATED (tools_design_tables.py) -->", "",
       "### 9.1 Status per property", "",
       "| id | status | theorems | known findings (open) | fixed defects |", "|----|--------|----------|-----------------------|---------------|"]
for p in props:
    pid = p["id"]
    ev = None
    try:
        ev = json.load(open(os.path.join(HERE, "evidence", pid + ".json")))
    except Exception:
        pass
    nth = ev["coverage"].get("obligations") if ev else ""
    known = [e["id"] for e in kf if e.get("property") == pid and e.get("status") == "known"]
    fixed = [e["id"] + " (" + e.get("commit", "?") + ")" for e in kf if e.get("property") == pid and e.get("status") == "fixed"]
    st = "claimed" if pid in claimed else "not claimed"
    out.append("| %s | %s | %s | %s | %s |" % (pid, st, nth, ", ".join(known), ", ".join(fixed)))
out += ["", "### 9.2 Defects repaired by `fix:` commits in /repo", ""]
for e in kf:
    if e.get("status") == "fixed":
        out.append("* **%s** (%s, commit %s): %s" % (e["id"], e["property"], e.get("commit", "?"), re.sub(r"^fixed: property=\S+ \S+ ", "", e["what"])))
out += ["", "### 9.3 Known findings (genuine defects recorded, not repaired)", ""]
for e in kf:
    if e.get("status") == "known":
        out.append("* **%s** (%s): %s  \n  signature: %s" % (e["id"], e["property"], e["what"], e.get("signature", "")))
out += ["", "<!-- END GENERATED -->"]
block = "\n".join(out)
p = os.path.join(HERE, "DESIGN.md")
s = open(p).read()
if "<!-- BEGIN GENERATED" in s:
    s = re.sub(r"<!-- BEGIN GENERATED.*?<!-- END GENERATED -->", lambda m: block, s, flags=re.S)
else:
    s = s.replace("## 9. Changelog of false alarms and model corrections\n\n(empty — to be filled as checks are built)\n",
                  "## 9. Status, repaired defects, known findings, changelog of false alarms\n\n" + block + "\n\n### 9.4 Changelog of false alarms and model corrections\n\n(see below)\n")
open(p, "w").write(s)
print("DESIGN.md section 9 regenerated")
