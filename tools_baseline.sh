#!/bin/bash
# Runs the repository's pinned test suite with the verification guard OFF and
# compares against BASELINE.json's stable_pass list.  usage: tools_baseline.sh [repo]
REPO=${1:-/repo}
cd "$REPO" || exit 2
cargo nextest run --workspace --no-fail-fast --tool-config-file pb:/w/lib/nextest.toml --profile pb --test-threads 8 --offline > /dev/null 2>&1
python3 - "$REPO" <<'PY'
import xml.etree.ElementTree as ET, json, sys
t=ET.parse(sys.argv[1]+'/target/nextest/pb/junit.xml')
base=set(json.load(open('/root/.vp/BASELINE.json'))['stable_pass'])
passed=set()
for tc in t.iter('testcase'):
    if not any(ch.tag in('failure','error') for ch in tc):
        passed.add(tc.get('classname')+'::'+tc.get('name'))
miss=sorted(b for b in base if b not in passed)
print("baseline stable tests: %d, passed now: %d, not passed: %d"%(len(base),len(base)-len(miss),len(miss)))
for m in miss: print("  NOT PASSED:",m)
sys.exit(1 if miss else 0)
PY
