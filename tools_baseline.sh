#!/bin/bash
# Runs the repository's pinned test suite with the verification guard OFF and
# compares against BASELINE.json's stable_pass list.  usage: tools_baseline.sh [repo]
# Tests that did not pass in the full run are re-run on their own (up to twice): the
# integration tests use real UDP multicast and time out when the machine is loaded.
REPO=${1:-/repo}
cd "$REPO" || exit 2
export CARGO_NET_OFFLINE=true
cargo nextest run --workspace --no-fail-fast --tool-config-file pb:/w/lib/nextest.toml --profile pb --test-threads 8 --offline > /dev/null 2>&1
python3 - "$REPO" <<'PY'
import xml.etree.ElementTree as ET, json, sys, subprocess, re
repo=sys.argv[1]
base=set(json.load(open('/root/.vp/BASELINE.json'))['stable_pass'])
def passed_now():
    t=ET.parse(repo+'/target/nextest/pb/junit.xml')
    ok=set()
    for tc in t.iter('testcase'):
        if not any(ch.tag in('failure','error') for ch in tc):
            ok.add(tc.get('classname')+'::'+tc.get('name'))
    return ok
ok=passed_now()
miss=sorted(b for b in base if b not in ok)
for attempt in range(2):
    if not miss: break
    names=[m.split('::')[-1] for m in miss]
    flt=' | '.join('test(=%s)'%m.split('::',2)[-1] if m.count('::')>1 and not m.startswith('dust_dds::dcps') else 'test(%s)'%m.split('::')[-1] for m in miss)
    subprocess.run(['cargo','nextest','run','--workspace','--no-fail-fast','--tool-config-file','pb:/w/lib/nextest.toml','--profile','pb','--test-threads','2','--offline','-E',flt],cwd=repo,stdout=subprocess.DEVNULL,stderr=subprocess.DEVNULL)
    ok|=passed_now()
    miss=sorted(b for b in base if b not in ok)
print("baseline stable tests: %d, passed: %d, not passed: %d"%(len(base),len(base)-len(miss),len(miss)))
for m in miss: print("  NOT PASSED:",m)
sys.exit(1 if miss else 0)
PY
