"""C08 — RTPS messages round-trip through their wire encoding."""
from vlib.core import cbool
from props import wire_common as W

PID = "C08"
PROPS_FILE = "Props/C08.v"
CORR = "Wire.WireCorr"
CORR_MODULES = ["Wire.WireCorr"]
PREFIX = "C08"
CASE_TYPE = "C08_case"
HARNESS = "c08"
KNOWN = {1: "C08-length-truncation"}   # C08-inforeply-multicast-flag was repaired in /repo (4006ca4)
RULE = ("a case is one RTPS message (header + 0..8 submessages of the 12 kinds, boundary-biased field values, "
        "sets of 0..256 members, inline QoS lists, payloads up to 200 kB) given to the real encoder "
        "(RtpsMessageWrite::new on structs built with the public constructors; or laid out big-endian by the "
        "harness) and decoded by the real RtpsMessageRead::try_from; distinct = distinct input line; "
        "non-trivial = at least one submessage and the decode returned Ok")
TRUSTED = ["theories/Wire/WireModel.v is a hand transcription of dds/src/rtps_messages/{overall_structure,"
           "submessage_elements,types}.rs and submessages/*.rs (checked against the code on every run)",
           "the big-endian byte layout used to exercise the decoder's big-endian branch is written by the harness "
           "(dust-dds has no big-endian writer); it is compared byte for byte with the Coq encoder `encode_message false`"]
ASSUMPTIONS = ["set members lie within base .. base+255 (what SequenceNumberSet::new / FragmentNumberSet::new accept)",
               "SequenceNumberSet members are below i64::MAX: i64::MAX is not a usable sequence number (the set() "
               "iterator ends at such a member since 6f37365 and every consumer adds 1), so the generator never "
               "produces it as a member (C07's mutation stream feeds it to the decoder)",
               "parameter ids differ from PID_SENTINEL; at most 65536 submessages per message (MAX_SUBMESSAGES)",
               "round trip is claimed outside the recorded class only: a submessage body or a padded parameter "
               "longer than 65535 bytes (C08-length-truncation)",
               "canonical form: set members ordered and de-duplicated, parameter values padded to a multiple of 4, "
               "fields excluded by flags come back as defaults (empty inline QoS / payload, TIME_INVALID)"]


def gen(r, tier):
    n = {"quick": 1500, "search": 6000, "thorough": 8000}[tier]
    nbig = {"quick": 4, "search": 8, "thorough": 24}[tier]
    cases = []
    # systematic: every kind alone, both endiannesses, several draws
    for k in W.KINDS:
        for e in ("LE", "BE"):
            for _ in range(12 if tier != "quick" else 8):
                cases.append((e, (W.rhex(r, 2), W.rhex(r, 2), W.rhex(r, 12), [W.rsub(r, k)])))
    # payload sizes around the 16-bit limit and beyond (D17), as last and as inner submessage
    sizes = [65515, 65516, 70000, 200000, 65000, 65511, 65512, 65535 - 20, 65537 - 20, 131072 - 20, 131072, 150000]
    for i in range(nbig):
        sz = sizes[i % len(sizes)] if i < len(sizes) else r.randint(60000, 200000)
        kind = "DA" if i % 3 != 2 else "DF"
        sub = W.rsub(r, kind, payload=sz)
        if kind == "DA":
            sub[1] = "0" + r.choice(["10", "01", "11"]) + sub[1][3]
            sub[5] = "-"
        else:
            sub[1] = "0" + sub[1][1:]
            sub[9] = "-"
        tail = [] if i % 2 == 0 else [W.rsub(r, r.choice(["HB", "IT", "PD"]))]
        cases.append(("LE" if i % 4 != 3 else "BE", (W.rhex(r, 2), W.rhex(r, 2), W.rhex(r, 12), [W.rsub(r, "IT"), sub] + tail)))
    # parameters around the 16-bit limit
    for i in range(nbig):
        sub = W.rsub(r, "DA", payload=r.choice([0, 4, 100]))
        sub[1] = "1" + sub[1][1:]
        sub[5] = W.rqos(r, big=True)
        cases.append(("LE", (W.rhex(r, 2), W.rhex(r, 2), W.rhex(r, 12), [sub, W.rsub(r, "HB")])))
    # one inline-QoS parameter of 32 KiB and more (bit 15 of the 16-bit length set; the decoder must read the
    # length unsigned), DATA and DATA_FRAG, both endiannesses; the largest ones that still fit the submessage,
    # and 65532 which does not (recorded class)
    for e in ("LE", "BE"):
        for kind, sizes in (("DA", [32764, 32768, 40000, 65504, 65532, 4 * r.randint(8192, 16000), r.randint(32765, 65000)]),
                            ("DF", [32764, 32768, 40000, 65492, 65532, 4 * r.randint(8192, 16000), r.randint(32765, 65000)])):
            for sz in sizes:
                cases.append((e, big_param_msg(r, kind, sz)))
    # INFO_REPLY with the multicast flag (regression of the repaired defect 4006ca4)
    for i in range(6):
        cases.append(("LE", (W.rhex(r, 2), W.rhex(r, 2), W.rhex(r, 12), [W.rsub(r, "IR", reply_flag=True), W.rsub(r, "HB")])))
    while len(cases) < n:
        cases.append((r.choice(["LE", "LE", "BE"]), W.rmsg(r)))
    return cases


def big_param_msg(r, kind, size, pid=0x70):
    """a DATA / DATA_FRAG whose inline QoS is one parameter with a value of `size` bytes"""
    sub = W.rsub(r, kind, payload=r.choice([0, 4, 7]))
    sub[1] = "1" + sub[1][1:]
    sub[5 if kind == "DA" else 9] = "%d:%s" % (pid, W.rbytes_bx(r, size).replace(".", "+"))
    return (W.rhex(r, 2), W.rhex(r, 2), W.rhex(r, 12), [sub, W.rsub(r, "HB")])


def corpus():
    h = ("0203", "0908", "03" * 12)
    return [
        ("LE", h + ([],)),
        ("LE", h + ([["IT", "0", "4", "0"], ["DA", "1000", "01020304", "06070809", "5", "6:0a0b0c0d,7:141516", "-"]],)),
        ("LE", h + ([["AN", "1", "01020304", "06070809", "100", "102,200,355", "-3"], ["NF", "01020304", "06070809", "9", "2", "2,257", "7"]],)),
        ("BE", h + ([["GP", "01020304", "06070809", "5", "9223372036854775552", "9223372036854775552,9223372036854775806"], ["PD"]],)),
        # D17: 70 000-byte DATA payload, length field truncated by `as u16`
        ("LE", h + ([["DA", "0100", "01020304", "06070809", "1", "-", "aa*70000"], ["HB", "10", "01020304", "06070809", "1", "1", "1"]],)),
        # regression of C08-inforeply-multicast-flag (fixed 4006ca4): the flag is written, both lists come back
        ("LE", h + ([["IR", "1", "1:7400:" + "00" * 16, "1:7401:" + "ef" * 16]],)),
        ("BE", h + ([["IR", "1", "-", "2:7401:" + "ef" * 16 + ",1:0:" + "00" * 16], ["HB", "10", "01020304", "06070809", "1", "1", "1"]],)),
        # inline-QoS parameter lengths with bit 15 set (seeded C08b: length read as i16)
        ("LE", h + ([["DA", "1100", "01020304", "06070809", "7", "112:01+ab*32766+02", "aabb"], ["HB", "10", "01020304", "06070809", "1", "1", "1"]],)),
        ("BE", h + ([["DF", "100", "01020304", "06070809", "8", "1", "1", "1344", "40000", "113:03+cd*39998", "aabbccdd"], ["PD"]],)),
        ("LE", h + ([["DA", "1000", "01020304", "06070809", "9", "114:04+ef*65502+05", "-"], ["IT", "0", "1", "2"]],)),
        # truncated length + payload bytes 0x12 (the NACK_FRAG id): the decoder panics on the tail (D17 meets D11)
        ("BE", h + ([["IT", "1", "1", "257"], ["DA", "0111", "6d1047f9", "57e324ac", "4294967297", "-", "a0a49d.12*199993.70b2d918"], ["PD"]],)),
    ]


def case_line(c):
    return c[0] + " " + W.msg_text(c[1])


def parse_line(line):
    e, t = line.split(" ", 1)
    return (e, W.parse_msg_text(t))


def case_term(c, out):
    if not out.startswith("OK "):
        return None
    bx, dec = out[3:].split(" | ", 1)
    e, m = c
    return "mkC08 %s %s %s %s %s" % (cbool(e == "LE"), W.coq_hdr(m), W.coq_subs(m[3]), W.coq_bx(bx), W.coq_dec(dec))


def nontrivial(c, out):
    if out.startswith("OK ") and c[1][3] and " | H " in out:
        return case_line(c)
    return None


def distribution(cases, outs):
    d = {}
    for c, o in zip(cases, outs):
        for s in c[1][3]:
            d[s[0]] = d.get(s[0], 0) + 1
        d[c[0]] = d.get(c[0], 0) + 1
        if len(o) > 140000:
            d["encoded>70kB"] = d.get("encoded>70kB", 0) + 1
    return d


MANIFEST = {
    "text": ("Machine-checked proof (Coq) over a byte-level model of the RTPS codec (header, the 12 submessage kinds, "
             "SequenceNumberSet/FragmentNumberSet, LocatorList, ParameterList, the `len as u16` back-patch): for every "
             "well-formed message whose submessage bodies and padded parameters fit their 16-bit length fields, "
             "decoding the encoding returns the same header and the canonical submessages, every "
             "octets_to_next_header equals the encoded body length, in both endiannesses. Outside that class the "
             "round trip is refuted by a witness (recorded finding C08-length-truncation); the INFO_REPLY multicast-flag "
             "defect found by this check was repaired (4006ca4) and is a regression case. The model is tied to the code by running the "
             "real encoder and decoder on thousands of generated messages and comparing bytes and decoded values "
             "with the model inside Coq; the round-trip oracle is applied to the implementation's own output."),
    "note": ("Trusted: Coq kernel + vm_compute; hand model WireModel.v (checked against the code by the correspondence "
             "run on every check); harness (incl. its big-endian test writer) and comparator. Round trip is not "
             "claimed for bodies/parameters > 65535 bytes (C08-length-truncation). Fixed: C08-inforeply-multicast-flag (4006ca4)."),
    "technique": "Coq proof (structural induction over messages, LE/BE codec lemmas) + differential correspondence with oracle evaluated in Coq",
}
