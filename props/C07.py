"""C07 (RTPS message part) — decoders are total: malformed bytes give errors, not panics
or huge allocations.  This check covers the RTPS message decoder RtpsMessageRead::try_from
only; the discovery parameter-list decoders and the XCDR payload decoder named in the
property are checked elsewhere and plug in through EXTRA_DECODERS."""
import os
import struct
import subprocess

from vlib import core
from vlib.core import cz
from props import wire_common as W

PID = "C07"
PROPS_FILE = "Props/C07.v"
CORR = "Wire.WireCorr"
CORR_MODULES = ["Wire.WireCorr"]
PREFIX = "C07"
CASE_TYPE = "C07_case"
HARNESS = "c07"
KNOWN = {}   # the three former classes were repaired in /repo (221c5f8, 0cb9fa7)

# ---------------------------------------------------------------------------------------
# PLACE FOR THE OTHER DECODERS OF C07 (discovery parameter lists: participant, publication,
# subscription, topic, type lookup; XCDR user payloads).  They are handled by other work
# items; each entry is the name of a props module (props/<name>.py with the usual PREFIX / CORR /
# CASE_TYPE / HARNESS / gen / case_term ...) whose correspondence `extra(ctx, binary)` below runs
# after the RTPS one.  Empty: this check, its theorems and its MANIFEST text claim the RTPS
# message decoder only.
# Discovery part: covered by proof, not re-run here — Props/C13.v proves C13_decode_total_topic /
# _publication / _subscription / _participant (`<decoder> d <> Panic p` for every byte string d)
# and ./check C13 ties that model to the code; the MANIFEST text below refers to them.
# XCDR user payloads: their own check (C09/C10 owner); not referenced as covered.
DISCOVERY_THEOREMS = ["C13_decode_total_generic", "C13_decode_total_topic", "C13_decode_total_publication",
                      "C13_decode_total_subscription", "C13_decode_total_participant"]
EXTRA_DECODERS = []
# ---------------------------------------------------------------------------------------


def extra(ctx, binary):
    """run the correspondences of the other C07 decoders (none registered yet)"""
    import importlib
    for name in EXTRA_DECODERS:
        sub = importlib.import_module("props." + name)
        b, out = core.cargo_build(ctx, bin=sub.HARNESS)
        if b is None:
            ctx.broken.append("harness %s does not build: %s" % (sub.HARNESS, out[-300:]))
            continue
        cases = (list(sub.corpus()) if hasattr(sub, "corpus") else []) + sub.gen(ctx.rng, ctx.tier)
        res, lines, outs = core.correspond(ctx, sub, b, cases, label=name)
        ctx.cov["extra_" + name] = {"evaluations": len(cases), "model_disagreements": len(res["model_bad"])}
        for i in res["oracle_bad"][:3]:
            ctx.violations.append(("oracle", "decoder %s: property oracle rejects implementation behaviour on case: %s -> %s"
                                   % (name, lines[i], outs[i]), {"case": lines[i], "harness": sub.HARNESS, "impl_output": outs[i]}))
        if res["model_bad"] and not res["oracle_bad"]:
            ctx.broken.append("correspondence %s: implementation differs from model on %d case(s)" % (name, len(res["model_bad"])))

RULE = ("a case is one byte string handed to the real RtpsMessageRead::try_from (every decoded submessage is then "
        "read through its accessors) under catch_unwind with a counting global allocator; streams: random bytes, "
        "random submessage headers over random bodies, structure-aware mutations of encodings produced by the real "
        "encoder (boundary values in every length/count field, truncation at every offset, bit flips, "
        "insert/delete), floods of minimal submessages up to 64 kB; distinct = distinct byte string; non-trivial = "
        "the input carries the RTPS magic and at least one submessage header")
TRUSTED = ["theories/Wire/WireModel.v is a hand transcription of dds/src/rtps_messages/*.rs (checked against the code "
           "on every run); its cost output counts bytes copied, loop iterations and bytes requested from the allocator "
           "with modelled struct sizes (88-byte submessage, 24-byte Parameter/Locator, 16-byte Arc header)",
           "memory of the real code is what its global allocator is asked for (counting allocator in the harness)"]
ASSUMPTIONS = ["debug profile (overflow checks on), as built by the harness",
               "this check runs the RTPS message decoder; the discovery parameter-list decoders are covered by the "
               "theorems C13_decode_total_* of Props/C13.v (checked by ./check C13), the XCDR payload decoder by its "
               "own check",
               "all three theorems are unconditional: every input list, bytes or not"]

U16 = [0, 1, 2, 3, 4, 5, 7, 8, 12, 16, 20, 24, 28, 31, 32, 33, 255, 256, 257, 288, 0x7fff, 0x8000, 0xfffc, 0xffff]
U32 = [0, 1, 2, 31, 32, 33, 255, 256, 257, 288, 512, 65535, 65536, 0x7fffffff, 0x80000000, 0xfffffeff, 0xffffff00, 0xffffff01, 0xfffffffe, 0xffffffff]
IDS = [0x01, 0x06, 0x07, 0x08, 0x09, 0x0c, 0x0e, 0x0f, 0x12, 0x13, 0x15, 0x16]
# (offset in the submessage, width) of the length / count / base fields of each kind
FIELDS = {
    "AN": [(2, 2), (12, 4), (16, 4), (20, 4), (24, 4), (1, 1)],
    "GP": [(2, 2), (12, 4), (16, 4), (20, 4), (24, 4), (28, 4), (32, 4)],
    "NF": [(2, 2), (20, 4), (24, 4), (28, 4), (1, 1)],
    "DA": [(2, 2), (4, 2), (6, 2), (24, 2), (26, 2), (1, 1), (28, 2), (30, 2)],
    "DF": [(2, 2), (4, 2), (6, 2), (24, 4), (28, 2), (30, 2), (32, 4), (36, 2), (38, 2), (1, 1)],
    "IR": [(2, 2), (4, 4), (1, 1), (32, 4)],
    "HB": [(2, 2), (1, 1), (12, 4), (28, 4)],
    "HF": [(2, 2), (20, 4)],
    "IS": [(2, 2), (4, 4)],
    "IT": [(2, 2), (1, 1)],
    "ID": [(2, 2)],
    "PD": [(2, 2), (0, 1)],
}
HDR = b"RTPS" + bytes([2, 3, 1, 2]) + bytes(range(12))


def binary():
    return os.path.join(core.CACHE, "target", "debug", HARNESS)


def real_encodings(lines):
    """mutated encodings made by the REAL encoder (harness `mutate` mode)"""
    b = binary()
    if not os.path.exists(b) or not lines:
        return []
    p = subprocess.run([b, "mutate"], input="\n".join(lines) + "\n", stdout=subprocess.PIPE,
                       stderr=subprocess.DEVNULL, text=True, timeout=300)
    return [l.strip() for l in p.stdout.splitlines() if l.strip() and not l.startswith("PANIC")]


def sub(idb, flags, body, sublen=None, le=True):
    n = len(body) if sublen is None else sublen
    return bytes([idb, flags]) + struct.pack("<H" if le else ">H", n & 0xffff) + body


def rbody(r, n):
    k = r.random()
    if k < 0.2:
        return bytes(n)
    if k < 0.3:
        return b"\xff" * n
    return bytes(r.randrange(256) for _ in range(n))


def mutation_ops(r, m):
    """structure-aware ops for message m (list of subs known)"""
    ops = []
    subs = m[3]
    for _ in range(r.choice([1, 1, 1, 2, 3])):
        k = r.random()
        if subs and k < 0.6:
            i = r.randrange(len(subs))
            off, w = r.choice(FIELDS[subs[i][0]])
            v = r.choice(U16 if w == 2 else U32 if w == 4 else list(range(0, 256, 17)) + [1, 3, 255])
            ops.append("%s@%d:%d=%d" % ({1: "b", 2: "h", 4: "w"}[w], i, off, v))
        elif k < 0.7:
            ops.append("x@%d=%d" % (r.randrange(4000), 1 << r.randrange(8)))
        elif k < 0.8:
            ops.append("t@%d" % r.randrange(0, 200))
        elif k < 0.9:
            ops.append("i@%d=%s" % (r.randrange(20, 120), bytes(r.randrange(256) for _ in range(r.choice([1, 2, 4, 8]))).hex()))
        else:
            ops.append("d@%d=%d" % (r.randrange(20, 120), r.choice([1, 2, 3, 4, 8])))
    return ",".join(ops)


def gen(r, tier):
    n = {"quick": 3000, "search": 12000, "thorough": 20000}[tier]
    out = []          # byte strings
    # 1. pure random and short inputs, every length 0..64
    for k in range(0, 65):
        out.append(rbody(r, k))
        out.append((HDR + rbody(r, 64))[:k])
    # 2. systematic boundary values in the set / locator / parameter count fields (real encoder + mutation)
    mut = []
    nf = "H 0203 0102 000102030405060708090a0b ; NF 01020304 06070809 9 %d %s 7"
    for e in ("LE", "BE"):
        for nb in list(range(0, 40, 7)) + list(range(250, 300, 3)) + [256, 257, 288, 512, 65536, 2**32 - 1, 2**31]:
            mut.append("%s w@0:24=%d | " % (e, nb) + nf % (2, "2,257"))
            mut.append("%s w@0:24=%d | " % (e, nb) + nf % (5, "-"))
            mut.append("%s w@0:20=%d | H 0203 0102 000102030405060708090a0b ; AN 1 01020304 06070809 100 102,200,355 -3 ; PD" % (e, nb))
            mut.append("%s w@0:28=%d | H 0203 0102 000102030405060708090a0b ; GP 01020304 06070809 7 100 100,355" % (e, nb))
        for base in (2**32 - 1, 2**32 - 2, 2**32 - 256, 2**32 - 257, 2**32 - 100):
            mut.append("%s w@0:20=%d | " % (e, base) + nf % (2, "2,257"))
            mut.append("%s w@0:20=%d | " % (e, base) + nf % (2, "2,100"))
        for hi in (0x7fffffff, 0x80000000):
            for lo in (0xffffffff, 0xffffff00, 0xfffffeff, 0):
                off = (12, 16) if e == "LE" else (16, 12)   # LE stores high first too: high at 12, low at 16
                mut.append("%s w@0:12=%d,w@0:16=%d | H 0203 0102 000102030405060708090a0b ; AN 0 01020304 06070809 100 100,355 1" % (e, hi, lo))
        for nl in (0, 1, 2, 3, 4, 255, 65535, 2**32 - 1):
            mut.append("%s w@0:4=%d | H 0203 0102 000102030405060708090a0b ; IR 0 1:2:%s,2:3:%s - ; HB 10 01020304 06070809 1 2 3" % (e, nl, "03" * 16, "04" * 16))
        for sl in (0, 1, 4, 8, 12, 16, 19, 20, 21, 23, 24, 28, 32, 36, 40, 44, 48, 100, 65535):
            mut.append("%s h@0:2=%d | H 0203 0102 000102030405060708090a0b ; DA 1100 01020304 06070809 5 6:0a0b0c0d,7:141516 aabbccddee ; HB 10 01020304 06070809 1 2 3" % (e, sl))
            mut.append("%s h@0:2=%d | H 0203 0102 000102030405060708090a0b ; DF 100 01020304 06070809 5 1 2 3 4 6:0a0b0c0d aabbccddee ; PD" % (e, sl))
            mut.append("%s h@0:6=%d | H 0203 0102 000102030405060708090a0b ; DA 1100 01020304 06070809 5 6:0a0b0c0d,7:141516 aabbccddee" % (e, sl))
            mut.append("%s h@0:26=%d | H 0203 0102 000102030405060708090a0b ; DA 1100 01020304 06070809 5 6:0a0b0c0d,7:141516 aabbccddee" % (e, sl))
    # 3. truncation of a valid multi-submessage datagram at every offset
    full = ("H 0203 0102 000102030405060708090a0b ; IT 0 4 5 ; DA 1100 01020304 06070809 5 6:0a0b0c0d aabb ; "
            "AN 1 01020304 06070809 100 102,131 -3 ; NF 01020304 06070809 9 2 2,40 7 ; IR 0 1:2:%s - ; GP 01020304 06070809 5 7 7,9" % ("03" * 16))
    for t in range(0, 300, 1 if tier != "quick" else 3):
        mut.append("LE t@%d | %s" % (t, full))
    # 4. random messages with random structure-aware mutations
    nm = {"quick": 1300, "search": 5000, "thorough": 9000}[tier]
    for _ in range(nm):
        m = W.rmsg(r)
        mut.append("%s %s | %s" % (r.choice(["LE", "LE", "BE"]), mutation_ops(r, m) if r.random() < 0.9 else "-", W.msg_text(m)))
    for bx in real_encodings(mut):
        out.append(W.bx_decode(bx))
    # 5. floods: the cheapest submessages repeated, to probe the memory / cost bounds
    sizes = [256, 1024] + ([2048, 8192, 65000] if tier != "quick" else [])
    for sz in sizes:
        k = sz // 4
        out.append(HDR + sub(0x01, 1, b"") * k)                                   # PAD flood
        out.append(HDR + sub(0x12, 1, b"") * k)                                   # NACK_FRAG headers, bodies overlap
        out.append(HDR + (sub(0x12, 1, b"") + sub(0x01, 0, b"") * 6) * (sz // 28))  # NACK_FRAG over big-endian PADs: numBits 1
        if sz <= 4096:
            out.append(HDR + sub(0x15, 3, b"") * k)                               # DATA, length 0, inline QoS never ends: rescanned
            out.append(HDR + sub(0x16, 3, b"") * k)
        out.append(HDR + sub(0x15, 7, b"\x00\x00\x00\x00" + bytes(16), sublen=20) * (sz // 24))
        out.append(HDR + sub(0x15, 3, b"\x00\x00\x10\x00" + bytes(16) + b"\x02\x00\x00\x00" * ((sz - 24) // 4) + b"\x01\x00\x00\x00"))
        out.append(HDR + sub(0x09, 1, bytes(8)) * (sz // 12))
        out.append(HDR + sub(0x0f, 1, b"\x00\x00\x00\x00") * (sz // 8))            # INFO_REPLY, 0 locators
    # INFO_REPLY whose locator count points far beyond the submessage (quadratic memory)
    for sz in ([512, 1024] if tier == "quick" else [512, 2048, 4096]):
        body = bytearray()
        nsub = sz // 8
        for i in range(nsub):
            rest = sz - 8 * (i + 1)
            body += sub(0x0f, 1, struct.pack("<I", rest // 24))
        out.append(HDR + bytes(body))
    # 6. random headers over random bodies
    while len(out) < n:
        k = r.random()
        b = bytearray(HDR if r.random() < 0.95 else rbody(r, 20))
        for _ in range(r.choice([1, 1, 2, 3, 5])):
            idb = r.choice(IDS) if r.random() < 0.9 else r.randrange(256)
            fl = r.randrange(256) if r.random() < 0.5 else r.choice([0, 1, 2, 3, 5, 7])
            bl = r.choice([0, 4, 8, 12, 16, 20, 24, 28, 32, 36, 48, 60, 64, 100])
            body = rbody(r, bl)
            if bl >= 28 and r.random() < 0.5:
                # plausible numeric fields: small counts / lengths at the usual offsets
                body = bytearray(body)
                for off in (0, 2, 16, 20, 24):
                    if off + 4 <= bl and r.random() < 0.6:
                        v = r.choice(U32)
                        body[off:off + 4] = struct.pack("<I" if fl & 1 else ">I", v)
                body = bytes(body)
            sl = r.choice([None, None, None, 0, bl + 4, max(0, bl - 4), 65535, r.choice(U16)])
            b += sub(idb, fl, body, sublen=sl, le=bool(fl & 1))
        out.append(bytes(b))
    seen, res = set(), []
    for b in out:
        if b not in seen:
            seen.add(b)
            res.append(b)
    return res


def corpus():
    # regression inputs of the three repaired defects
    nf288 = bytes.fromhex("525450530203090803030303030303030303030312013c0001020304060708090000000009000000"
                          "02000000200100000000008000000000000000000000000000000000000000000000000000000000"
                          "0100000007000000")                                     # 84 bytes, NACK_FRAG numBits = 288: now skipped
    reply_flood = bytearray()
    for i in range(256):
        reply_flood += sub(0x0f, 1, struct.pack("<I", (2048 - 8 * (i + 1)) // 24), sublen=4)   # INFO_REPLY over-read chain
    return [b"", b"RTPS", HDR, HDR + sub(0x01, 1, b""), nf288,
            HDR + sub(0x12, 1, bytes(16) + struct.pack("<II", 0xffffffff, 1) + struct.pack("<i", -2**31) + bytes(4)),
            HDR + sub(0x06, 1, bytes(8) + struct.pack("<iIIi", 0x7fffffff, 0xffffffff, 1, -2**31) + bytes(4)),
            HDR + sub(0x15, 3, b"", sublen=0) * 8,
            HDR + bytes(reply_flood),
            HDR + sub(0x15, 3, b"", sublen=0) * 512,                              # DATA length 0 flood: one scan
            HDR + sub(0x16, 3, b"", sublen=0) * 512,
            # ACKNACK base i64::MAX, numBits 1, bit 0: set() yields no member (6f37365)
            bytes.fromhex("5254505302030102000102030405060708090a0b06011c000000000000000000ffffff7fffffffff010000000000008000000000")]


def case_line(c):
    return W.bx_encode(c)


def parse_line(line):
    return W.bx_decode(line)


def case_term(c, out):
    if out.startswith("PANIC"):
        return "mkC07 %s (Panic 0) 0 0 0" % W.coq_bytes(c)
    if " | A " not in out:
        return None
    dec, mem = out.rsplit(" | A ", 1)
    a, _, p, _, k = mem.split()
    dec = dec[3:] if dec.startswith("OK ") else dec
    return "mkC07 %s %s %s %s %s" % (W.coq_bytes(c), W.coq_dec(dec), a, p, k)


def nontrivial(c, out):
    if len(c) >= 24 and c[:4] == b"RTPS":
        return c
    return None


def distribution(cases, outs):
    d = {}
    for c, o in zip(cases, outs):
        if o.startswith("PANIC"):
            k = "panic " + o.split("/")[-1]
        elif o.startswith("ERR"):
            k = "err"
        else:
            ns = o.count(" ; ")
            k = "ok/%s submessages" % ("0" if ns == 0 else "1" if ns == 1 else "2-9" if ns < 10 else "10+")
            if "ITERPANIC" in o:
                d["ok/accessor-panic"] = d.get("ok/accessor-panic", 0) + 1
        d[k] = d.get(k, 0) + 1
        if len(c) >= 4096:
            d["len>=4096"] = d.get("len>=4096", 0) + 1
    return d


MANIFEST = {
    "text": ("Machine-checked proof (Coq) over a byte-level model of RtpsMessageRead::try_from and all 12 submessage "
             "parsers, with a cost output (bytes copied, loop iterations, bytes allocated): for EVERY input the decoder "
             "returns a value or an error and never panics; the memory held by the result is at most 26 bytes per input "
             "byte and the copy/loop/allocation cost at most 400 per input byte (+64), unconditionally. Three defects "
             "found by this check (FragmentNumberSet numBits, INFO_REPLY reading past its submessage, rescanning after a "
             "failing DATA of length 0) were repaired in the code (221c5f8, 0cb9fa7); their inputs are regression cases. "
             "The model is tied to the code by running the real decoder under catch_unwind with a counting allocator on "
             "thousands of random, mutated and boundary inputs and comparing result and measured allocation with the "
             "model inside Coq. The discovery parameter-list decoders named by the property are covered by the theorems "
             "C13_decode_total_{generic,topic,publication,subscription,participant} of Props/C13.v (checked by "
             "./check C13); the XCDR user-payload decoder is covered by its own check."),
    "note": ("Trusted: Coq kernel + vm_compute; hand model WireModel.v (checked against the code by the correspondence "
             "run on every check); harness, counting allocator and comparator. Debug profile. No open findings; "
             "fixed: C07-fragset-numbits (221c5f8), C07-inforeply-overread and C07-data-rescan (0cb9fa7)."),
    "technique": "Coq proof (induction over the submessage loop, cost as second output) + differential correspondence under catch_unwind with a counting allocator",
}
