"""C04 — Durability: late TRANSIENT_LOCAL readers get history, VOLATILE readers do not."""
from props._rel import *  # noqa
from props import _rel

PID = "C04"
PROPS_FILE = "Props/C04.v"
PREFIX = "C04"
KNOWN = {}
RULE = ("a case is one scenario on the simulated real stack: a writer (RELIABLE or BEST_EFFORT, VOLATILE or "
        "TRANSIENT_LOCAL, KEEP_ALL / KEEP_LAST 1-3, 1-3 instances) writes 0-5 samples, then a reader of any compatible "
        "reliability/durability is created and matched (85 % late), more writes interleaved with faults on the "
        "catch-up and live traffic, wait_for_historical_data calls (answered or parked), healing rounds, poll, "
        "take; distinct = distinct scenario line; non-trivial = at least two writes, one fault event and a take "
        "that returned something")
gen = _rel.gen_for("C04")


def corpus():
    return [
        # the schedules that exposed C04-volatile-besteffort-history (repaired by 0faf897): a BEST_EFFORT VOLATILE late
        # joiner is not sent the old samples any more
        parse_line(PRE % (1344, 1, 0, 0) + " ; w 0 1 10 1 ; w 0 1 10 2 ; R 0 1 rel=0 dur=0 ; netm ; q ; pu ; t 0 0 ; q"),
        parse_line(PRE % (1344, 0, 0, 0) + " ; w 0 1 10 1 ; w 0 1 10 2 ; R 0 1 rel=0 dur=0 ; netm ; w 0 1 10 3 ; pu ; t 0 0 ; q"),
        # the schedule that exposed C04-gap-skip-history (repaired by 91937ff): history {1,3}, DATA(1) lost:
        # wait_for_historical_data completes only after 1 and 3 were delivered
        parse_line(PRE % (1344, 1, 1, 1) + " ; w 0 1 10 11 ; w 0 2 10 22 ; w 0 2 10 33 ; R 0 1 rel=1 dur=1 ; netm ; ha 0 ; q ; "
                   "dr 0 ; adv 250000000 ; pu ; adv 250000000 ; pu ; adv 250000000 ; pu ; hp ; ha 0 ; t 0 0 ; wa 0 ; q"),
        # boundary: written just before / just after the match of a RELIABLE VOLATILE reader, GAPs lost
        parse_line(PRE % (128, 1, 0, 0) + " ; w 0 1 4 1 ; w 0 1 0 2 ; R 0 1 rel=1 dur=0 ; netm ; w 0 1 0 3 ; q ; dr 0 ; dr 0 ; "
                   "adv 250000000 ; pu ; adv 250000000 ; pu ; ha 0 ; t 0 0 ; q"),
        # KEEP_LAST 2, one instance, late TRANSIENT_LOCAL reader, lossy catch-up
        parse_line(PRE % (1344, 1, 1, 2) + " ; w 0 1 10 1 ; w 0 1 10 2 ; w 0 1 10 3 ; R 0 1 rel=1 dur=1 ; netm ; ha 0 ; q ; dr 1 ; "
                   "adv 250000000 ; pu ; adv 250000000 ; pu ; hp ; ha 0 ; t 0 0 ; q"),
        # regression for C04-besteffort-hole-skips-sample (repaired by d974049): KEEP_LAST 1, keys 1,2,2 -> held {1,3};
        # a late BEST_EFFORT TRANSIENT_LOCAL reader is sent DATA(1), GAP(2) AND DATA(3)
        parse_line(PRE % (1344, 1, 1, 1) + " ; w 0 1 10 11 ; w 0 2 10 22 ; w 0 2 10 33 ; R 0 1 rel=0 dur=1 ; netm ; q ; pu ; "
                   "t 0 0 ; w 0 1 10 44 ; q ; pu ; t 0 0 ; q"),
    ]


MANIFEST = {
    "text": ("Machine-checked proofs (Coq) over the protocol model shared with C01 (add_matched_reader computing the "
             "proxy's first relevant sample from the reader's durability, the reliable and best-effort writer paths, "
             "KEEP_LAST retention, is_historical_data_received and the wait list of wait_for_historical_data). For "
             "EVERY schedule before and after the match (all faults, all history QoS): a VOLATILE reader - RELIABLE or BEST_EFFORT - never "
             "presents a sample written before it was matched (invariant: nothing at or below the writer's last "
             "sequence number at match time is ever in flight towards the reader, buffered or presented); the "
             "boundary theorem: the first relevant sample is 0 (TRANSIENT_LOCAL) or the highest held sequence number "
             "(VOLATILE), everything held at the match is at or below it, everything written later is above it. (The "
             "BEST_EFFORT half needs repair 0faf897 of the former finding C04-volatile-besteffort-history.) HISTORY is "
             "never skipped, unbounded, every history QoS: when the test of wait_for_historical_data succeeds for a "
             "reliable reader every retained relevant change up to the announced last sequence number has been presented "
             "(needs repair 91937ff of the former finding C04-gap-skip-history). HISTORY is eventually complete, proved "
             "part (ANY history QoS incl. KEEP_LAST histories with holes, unfragmented samples, "
             "no explicit removal, no deletion, at most 256 samples): after any such schedule with a lossy catch-up and healing "
             "rounds that drain the network a reliable TRANSIENT_LOCAL reader has been given every retained change. "
             "The model is tied to the code by differential "
             "correspondence on a deterministic whole-stack simulation; the oracle (a VOLATILE reader presents only "
             "samples written after its match; after healing a reliable TRANSIENT_LOCAL reader presented the retained "
             "history and wait_for_historical_data is answered) judges the real observations."),
    "note": ("Trusted: Coq kernel, hand model RelModel.v (correspondence-checked on every run), simulation harness, "
             "generator. Axioms: none. Former findings C04-volatile-besteffort-history, C04-gap-skip-history are repaired "
             "(0faf897, 91937ff); their schedules are in the corpus. "
             "Observation: wait_for_historical_data completes at once while no writer is matched (allowed by the "
             "statement). One writer/reader pair."),
    "technique": "Coq proof (invariants over all schedules, healing invariant) + differential correspondence on a deterministic whole-stack simulation",
}
