"""C23 — read_next_instance/take_next_instance walk instances in handle order."""
from props._reader import *  # noqa
from props import _reader

PID = "C23"
PROPS_FILE = "Props/C23.v"
PREFIX = "C23"
KNOWN = {}
RULE = ("a case is a reader QoS plus a sequence of 1-40 operations (add_reader_change over 1-4 instances, numbered from 1 "
        "or, in half of the cases, from 0 (handle = 16 zero bytes = HANDLE_NIL), from 1-3 "
        "writers, read_next_instance/take_next_instance with previous handle in {none, 0..4}, random sample/view/"
        "instance-state masks and max_samples in {-1, 0, 1, 2, 3, 10, i32::MAX}, interleaved with read/take that leave "
        "instances without matching samples, match/unmatch) run on a fresh real UserDefinedDataReader; the state "
        "before every call is observed on a replayed copy; distinct = distinct operation line; non-trivial = at least "
        "two adds, one read/take and one stored sample")
_base_gen = _reader.gen_for("next")


def _shift0(case):
    """renumber instances n -> n-1 so that instance 0 exists: its 16-byte handle is all zeros (= HANDLE_NIL),
    an ordinary key hash in dust-dds (key value 0, keyless topic)"""
    q, ops = case
    out = []
    for n, v in ops:
        v = list(v)
        if n == "A":
            v[1] -= 1
        elif n in ("R", "T"):
            if v[4] >= 1:
                v[4] -= 1
        elif n in ("RN", "TN"):
            if v[1] >= 1:
                v[1] -= 1
        out.append((n, v))
    return (q, out)


def gen(r, tier):
    cases = _base_gen(r, tier)
    return [_shift0(c) if r.random() < 0.5 else c for c in cases]


def corpus():
    return [
        # instance 0 (handle = 16 zero bytes = HANDLE_NIL) is an ordinary instance: a read walk with READ in the
        # mask and a take walk with max_samples 1 continue from it to instances 1 and 2 (seeded change C23b)
        parse_line("Q 0 0 -1 -1 -1 0 0 ; A 1 0 0 1 100 10 ; A 1 1 0 2 101 20 ; A 1 2 0 3 102 30 ; A 1 0 0 4 103 40 ; "
                   "RN -1 -1 3 3 7 ; RN -1 0 3 3 7 ; RN -1 1 3 3 7 ; RN -1 2 3 3 7 ; "
                   "TN 1 -1 3 3 7 ; TN 1 0 3 3 7 ; TN 1 1 3 3 7 ; TN 1 2 3 3 7"),
        # the fixed defect (66e7dc1): three instances, the middle one fully read, NOT_READ mask
        parse_line("Q 0 0 -1 -1 -1 0 0 ; A 1 1 0 1 100 10 ; A 1 2 0 2 101 20 ; A 1 3 0 3 102 30 ; A 1 2 0 4 103 40 ; "
                   "R -1 3 3 7 2 ; RN -1 1 2 3 7 ; RN -1 -1 2 3 7 ; RN -1 3 2 3 7"),
        # a complete take walk with max_samples 1, then NoData; max_samples 0
        parse_line("Q 0 0 -1 -1 -1 0 0 ; A 1 3 0 1 100 10 ; A 1 1 0 2 101 20 ; A 1 2 0 3 102 30 ; A 1 1 0 4 103 40 ; "
                   "TN 1 -1 3 3 7 ; TN 1 1 3 3 7 ; TN 1 2 3 3 7 ; TN 1 3 3 3 7 ; RN 0 -1 3 3 7 ; RN 10 -1 3 3 7"),
        # instances whose samples were all taken, disposed instance skipped by the instance-state mask
        parse_line("Q 0 0 -1 -1 -1 0 0 ; A 1 1 0 1 100 10 ; A 1 2 0 2 101 20 ; A 1 2 2 3 102 30 ; A 1 3 0 4 103 40 ; "
                   "T -1 3 3 7 1 ; RN -1 -1 3 3 1 ; RN -1 0 3 3 2 ; RN -1 2 3 3 7 ; RN -1 3 3 3 7"),
    ]


MANIFEST = {
    "text": ("Coq proofs over the model of next_instance and of the read/take_next_instance loop, for EVERY cache "
             "state (so for every QoS and history), all masks, max_samples and previous handles: next_instance is the "
             "least instance handle greater than the previous one; read/take_next_instance equals read/take of the "
             "least handle greater than the previous one that has at least one sample matching the masks (the loop "
             "bound is proved sufficient: a NoData attempt changes nothing and the visited handles strictly increase), "
             "and returns NoData iff no such instance exists (or max_samples = 0); the application walk (previous := "
             "handle just returned) visits, for read and for take, exactly the instances with matching samples, each "
             "once, in increasing handle order, returning for each what read/take of that instance returns. By "
             "induction over histories instance handles are pairwise distinct. The model is tied to the code by exact "
             "comparison on generated histories inside Coq; an independent oracle computes the expected instance and "
             "collection from the observed pre-state for every call of the real reader."),
    "note": ("Trusted: Coq kernel, hand model ReaderModel.v (correspondence-checked each run), harness, generator. "
             "Axioms: none. Defect fixed: next_instance ignored the masks, so an instance without matching samples "
             "ended the walk with NoData (fix commit 66e7dc1). The enabled check (NotEnabled) is outside the model: "
             "the harness always enables the reader."),
    "technique": "Coq proof (least-element characterisation, loop variant, walk by induction) + differential correspondence",
}
