"""C18 — KEEP_LAST history keeps the newest samples and never rejects for depth."""
from props._reader import *  # noqa
from props import _reader

PID = "C18"
PROPS_FILE = "Props/C18.v"
PREFIX = "C18s"
KNOWN = {1: "C18-notalive-not-bounded"}
RULE = ("a case is a reader QoS (KEEP_LAST depth 1-4 or KEEP_ALL, resource limits equal to / just above the depth, "
        "both destination orders) plus a sequence of 1-40 operations (add_reader_change of all change kinds from 1-3 "
        "writers over 1-4 instances, read/take/next_instance with random masks, match/unmatch) run on a fresh real "
        "UserDefinedDataReader; distinct = distinct operation line; non-trivial = at least two adds, one read/take "
        "and one stored sample")
gen = _reader.gen_for("keeplast")


def corpus():
    return [
        # depth = max_samples_per_instance = max_samples = 1: the second sample replaces the first (fix 4fdfc97)
        parse_line("Q 0 1 1 -1 1 0 0 ; A 1 1 0 1 100 10 ; A 1 1 0 2 101 20 ; R 10 3 3 7 -1"),
        # depth 2 = mspi, two instances, max_samples 4: newest two per instance, nothing rejected
        parse_line("Q 0 2 4 -1 2 0 0 ; A 1 1 0 1 101 10 ; A 1 1 0 2 102 20 ; A 1 2 0 3 103 30 ; R 10 3 3 7 -1 ; "
                   "A 1 1 0 4 104 40 ; A 2 2 0 5 105 50 ; A 1 1 0 6 106 60 ; A 1 2 0 7 107 70 ; A 1 1 0 8 108 80"),
        # a dispose marker is never displaced: depth 2 = mspi, third sample rejected for the per-instance limit
        parse_line("Q 0 2 -1 -1 2 0 0 ; A 1 1 0 1 101 10 ; A 1 1 2 2 102 20 ; A 1 1 0 3 103 30 ; R 10 3 3 7 -1"),
        # depth 1: a dispose displaces the last data sample of the instance
        parse_line("Q 0 1 -1 -1 -1 0 0 ; A 1 1 0 1 101 10 ; A 1 1 2 2 102 20 ; R 10 3 3 7 -1 ; A 1 1 0 3 103 30 ; "
                   "A 1 1 2 4 104 40 ; T 10 3 3 7 -1"),
        # KEEP_ALL, by source timestamp, read in between: nothing disappears
        parse_line("Q 1 0 -1 -1 -1 0 0 ; A 1 1 0 5 101 10 ; A 1 1 2 2 102 20 ; R 1 3 3 7 -1 ; A 2 2 0 3 103 30"),
        # KEEP_LAST with take in between
        parse_line("Q 0 2 -1 -1 -1 0 0 ; A 1 1 0 1 101 10 ; A 1 1 0 2 102 20 ; T 1 3 3 7 -1 ; A 1 1 0 3 103 30 ; "
                   "A 1 1 0 4 104 40 ; R 10 3 3 7 -1"),
    ]


MANIFEST = {
    "text": ("Coq proofs over the model of the reader cache (add_reader_change branch by branch, read/take, "
             "next_instance, match/unmatch), for every QoS and every operation history: (a) with KEEP_LAST d no "
             "instance ever holds more than d data (Alive) samples; (b) an accepted sample displaces exactly the "
             "oldest stored Alive sample of its instance when d are stored, and nothing otherwise; (c) with "
             "BY_RECEPTION order, Alive-only arrivals and no take, the stored payloads of an instance are exactly "
             "the last d accepted ones in order; (d) with depth <= max_samples_per_instance (equality included) an "
             "Alive-only history never gets RejectedBySamplesPerInstanceLimit, and in general that rejection "
             "requires a stored not-alive/filtered sample of the instance (exact iff characterisation proved); "
             "(e) KEEP_ALL: no add removes a sample, and without take every accepted payload is still stored. The "
             "model is tied to the code by exact comparison (every return value, state before every read/take, "
             "final cache, ownership table) on generated histories evaluated inside Coq; C18_oracle_ok judges the "
             "real reader's own outputs. Scope of 'at most depth samples': the code counts and displaces only "
             "ChangeKind::Alive samples; dispose/unregister markers and AliveFiltered samples are bounded by "
             "max_samples_per_instance only, and with depth d a not-alive change arriving when d Alive samples are "
             "stored displaces the oldest data sample (both behaviours are in the model and reported)."),
    "note": ("Trusted: Coq kernel, hand model ReaderModel.v (correspondence-checked each run), harness, generator. "
             "Axioms: none. Defect fixed earlier: the limit tests ran before the KEEP_LAST replacement, so "
             "depth == max_samples_per_instance rejected instead of replacing (fix commit 4fdfc97)."),
    "technique": "Coq proof (invariants by induction over operation histories with observation traces) + differential correspondence",
}
