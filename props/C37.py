"""C37 — QoS validation: inconsistent and immutable changes are rejected atomically."""
from props import _entity as E
from props._entity import case_line, parse_line, case_term  # noqa: F401  (used by vlib)

PID = "C37"
PROPS_FILE = "Props/C37.v"
CORR = "Entity.C37Corr"
CORR_MODULES = ["Entity.C37Corr"]
PREFIX = "C37"
CASE_TYPE = "ent_case"
HARNESS = "entity"
KNOWN = {3: "C37-group-qos-not-announced"}
RULE = ("one case = one scenario on the simulated stack: participants / publishers / subscribers / topics / writers / "
        "readers created with random QoS (entity_factory autoenable on or off at every level, so entities exist both "
        "enabled and not enabled), then 10-40 set_qos / get_qos / enable calls; a new QoS is the current one with one "
        "or two policies changed (every immutable and every mutable policy is hit), a fresh random one, or an "
        "inconsistent one (max_samples < max_samples_per_instance, depth > max_samples_per_instance, deadline < "
        "minimum_separation, two representations on a writer), with boundary values (0, 1, Unlimited, i32::MAX, "
        "negative lengths, infinite durations); every set_qos is followed sooner or later by a get_qos; distinct = "
        "distinct scenario line; non-trivial = at least one set_qos accepted, one rejected with InconsistentPolicy and "
        "one with ImmutablePolicy")
TRUSTED = ["theories/Entity/EntityModel.v is a hand transcription of qos.rs (is_consistent, check_immutability of "
           "every QoS type), qos_policy.rs (PartialOrd of Length / usize / DurationKind) and of set_*_qos / get_*_qos / "
           "create_* in topic_methods.rs, publisher_methods.rs, subscriber_methods.rs, writer_methods.rs, "
           "reader_methods.rs, participant_methods.rs",
           "the spec-side predicates of Entity/C37Corr.v (consistent, immutable policies) are written from DDS 1.4 "
           "2.2.3 and are the oracle",
           "QoS values are exchanged with the harness as 21 / 6 / 2 integers; byte-vector policies (user/topic/group "
           "data) and the partition are represented by one-element values"]
ASSUMPTIONS = ["'announced to remote participants' is covered by the ORACLE only (the model does not predict discovery): after "
               "the harness has let discovery settle, get_matched_publication_data / get_matched_subscription_data on "
               "the other side must show the last accepted QoS of the writer / reader (and of its publisher / "
               "subscriber: known finding C37-group-qos-not-announced); there is no Coq theorem about announcements, "
               "C13 covers the encoding of the announced QoS and C15 the matching rules",
               "set_default_*_qos is not exercised: QosKind::Default stands for the constant default QoS of the kind",
               "negative Length::Limited values are outside the specification: model and code are compared on them, "
               "the oracle is silent",
               "type_consistency, durability_service-like policies that the QoS structs do not have, and the second "
               "reader_data_lifecycle delay keep their defaults"]

LENS = ["u", "u", "u", 0, 1, 2, 3, 5, 10, 100, 2147483647, -1, -5]
HIST = [-1, -1, 0, 1, 1, 2, 3, 5, 10, 100, 4294967295]
DURS = [-1, -1, 0, 1, 1000, 999999999, 1000000000, 5000000000, 100000000]
IMM = ["dur", "lk", "ll", "rel", "mbt", "ord", "hist", "ms", "mi", "mspi", "own"]
MUT = ["dl", "lat", "tp", "ls", "str", "ud", "sep", "rep", "adu", "apn"]


def rnd_field(r, k):
    if k == "dur":
        return r.randint(0, 3)
    if k == "lk":
        return r.randint(0, 2)
    if k in ("rel", "ord", "own", "adu"):
        return r.randint(0, 1)
    if k in ("dl", "lat", "ll", "mbt", "ls", "sep", "apn"):
        return r.choice(DURS)
    if k == "hist":
        return r.choice(HIST)
    if k in ("ms", "mi", "mspi"):
        return r.choice(LENS)
    if k in ("tp", "str"):
        return r.choice([0, 1, -1, 7, 2147483647, -2147483648])
    if k == "ud":
        return r.choice([0, 0, 1, 7, 200])
    if k == "rep":
        return r.randint(0, 4)
    raise KeyError(k)


def consistent_fix(r, d, kind):
    """make d consistent (mostly): used for the 'valid' part of the generator"""
    d = dict(d)
    for k in ("ms", "mi", "mspi"):
        if d[k] != "u" and d[k] < 0:
            d[k] = "u"
    if d["mspi"] != "u":
        if d["ms"] != "u" and d["ms"] < d["mspi"]:
            d["ms"] = r.choice(["u", d["mspi"], min(d["mspi"] + 3, 2147483647)])
        if d["hist"] >= 0 and d["hist"] > d["mspi"]:
            d["hist"] = r.choice([-1, d["mspi"], max(d["mspi"] - 1, 0)])
    elif d["ms"] != "u":
        d["ms"] = "u"
    if d["hist"] == 0:
        d["hist"] = -1            # KEEP_LAST(0) is inconsistent
    if kind == "R":
        if d["sep"] < 0 and d["dl"] >= 0:
            d["sep"] = 0
        elif d["dl"] >= 0 and d["sep"] > d["dl"]:
            d["sep"] = r.choice([0, d["dl"]])
    if kind == "W" and d["rep"] > 2:
        d["rep"] = r.choice([0, 1, 2])
    return d


def make_inconsistent(r, d, kind):
    d = dict(d)
    ways = ["ms", "depth"]
    if kind == "R":
        ways.append("dl")
    if kind == "W":
        ways.append("rep")
    w = r.choice(ways)
    if w == "ms":
        d["mspi"] = r.choice([2, 5, "u"])
        d["ms"] = 1 if d["mspi"] != "u" else r.choice([1, 100])
    elif w == "depth":
        d["mspi"] = r.choice([1, 2, 5])
        d["ms"] = "u"
        d["hist"] = d["mspi"] + r.choice([1, 1, 10])
    elif w == "dl":
        d["dl"] = r.choice([0, 5, 1000])
        d["sep"] = r.choice([d["dl"] + 1, -1])
    else:
        d["rep"] = r.choice([3, 4])
    return d


def rnd_eqos(r, kind):
    d = E.eq_default(kind)
    for k in E.EQ_KEYS:
        if r.random() < 0.35:
            d[k] = rnd_field(r, k)
    return d


def eq_spec(d, kind):
    return E.kv_tokens(d, dict(E.eq_default(kind), dur=99))   # print every key: dur never equals 99


def rnd_gqos(r):
    d = E.gq_default()
    for k in d:
        if r.random() < 0.4:
            d[k] = r.choice([0, 1]) if k in ("sc", "coh", "oa", "auto") else r.choice([0, 1, 3, 9])
    return d


def g_spec(d):
    return E.kv_tokens(d, dict(E.gq_default(), sc=99))


class B:
    """scenario builder: which proxies exist and what QoS we think they have (for single-policy changes only)"""

    def __init__(self):
        self.ops = []
        self.ents = []     # (kindletter, index, cur dict)
        self.n = {"P": 0, "T": 0, "PUB": 0, "SUB": 0, "W": 0, "R": 0}

    def add(self, kind, cur):
        i = self.n[kind]
        self.n[kind] += 1
        self.ents.append([kind, i, cur])
        return i


def scenario(r):
    b = B()
    if r.random() < 0.35:
        b.ops.append("FQ %d" % r.randint(0, 1))
    # participants
    for _ in range(r.choice([1, 1, 2])):
        d = {"ud": r.choice([0, 5]), "auto": r.choice([1, 1, 0])}
        b.ops.append("P 0 ud=%d auto=%d" % (d["ud"], d["auto"]))
        b.add("P", d)
    np_ = b.n["P"]
    if r.random() < 0.3:
        b.ops.append("en P 0")
    # groups, topics
    for p in range(np_):
        for kind in ("PUB", "SUB"):
            for _ in range(r.choice([1, 1, 2])):
                if r.random() < 0.3:
                    b.ops.append("%s %d def" % (kind, p))
                    b.add(kind, E.gq_default())
                else:
                    d = rnd_gqos(r)
                    b.ops.append("%s %d %s" % (kind, p, g_spec(d)))
                    b.add(kind, d)
        for t in range(r.choice([1, 2])):
            name = b.n["T"] + 1
            k = r.random()
            if k < 0.25:
                b.ops.append("T %d %d def" % (p, name))
                b.add("T", E.eq_default("T"))
            else:
                d = consistent_fix(r, rnd_eqos(r, "T"), "T")
                if k > 0.96:
                    # refused since 3e9f0b1: no proxy; the same name is then created with a consistent QoS
                    b.ops.append("T %d %d %s" % (p, name, eq_spec(make_inconsistent(r, d, "T"), "T")))
                b.ops.append("T %d %d %s" % (p, name, eq_spec(d, "T")))
                b.add("T", d)
    # set the participant qos sometimes (changes autoenable for what follows)
    if r.random() < 0.3:
        d = {"ud": r.choice([0, 9]), "auto": r.randint(0, 1)}
        b.ops.append("sq P 0 ud=%d auto=%d" % (d["ud"], d["auto"]))
    # endpoints: proxies only exist for accepted creations, so create the inconsistent ones last per kind
    groups = [(e[0], e[1]) for e in b.ents if e[0] in ("PUB", "SUB")]
    topics_by_p = {}
    # topic proxy index -> participant: topics were created participant by participant in order
    ti = 0
    tp = []
    seen = set()
    for op in b.ops:
        if op.startswith("T ") and tuple(op.split()[1:3]) not in seen:
            seen.add(tuple(op.split()[1:3]))
            tp.append(int(op.split()[1]))
    gp = {}
    gi = {"PUB": 0, "SUB": 0}
    for op in b.ops:
        t = op.split()
        if t[0] in ("PUB", "SUB"):
            gp[(t[0], gi[t[0]])] = int(t[1])
            gi[t[0]] += 1
    for (gk, g) in groups:
        ek = "W" if gk == "PUB" else "R"
        cands = [i for i, p in enumerate(tp) if p == gp[(gk, g)]]
        if not cands:
            continue
        for _ in range(r.choice([1, 1, 2])):
            t = r.choice(cands)
            k = r.random()
            if k < 0.2:
                b.ops.append("%s %d %d def" % (ek, g, t))
                b.add(ek, E.eq_default(ek))
            elif k < 0.85:
                d = consistent_fix(r, rnd_eqos(r, ek), ek)
                b.ops.append("%s %d %d %s" % (ek, g, t, eq_spec(d, ek)))
                b.add(ek, d)
            else:
                d = make_inconsistent(r, consistent_fix(r, rnd_eqos(r, ek), ek), ek)
                b.ops.append("%s %d %d %s" % (ek, g, t, eq_spec(d, ek)))   # refused: no proxy
    # the set/get phase
    for _ in range(r.randint(10, 40)):
        kind, i, cur = r.choice(b.ents)
        e = next(x for x in b.ents if x[0] == kind and x[1] == i)
        k = r.random()
        if k < 0.25:
            b.ops.append("gq %s %d" % (kind, i))
        elif k < 0.33 and kind in ("P", "T", "W", "R"):
            b.ops.append("en %s %d" % (kind, i))
        elif kind == "P":
            d = {"ud": r.choice([0, 3, 9]), "auto": r.randint(0, 1)}
            b.ops.append("sq P %d %s" % (i, "def" if r.random() < 0.15 else "ud=%d auto=%d" % (d["ud"], d["auto"])))
            b.ops.append("gq P %d" % i)
        elif kind in ("PUB", "SUB"):
            d = dict(cur)
            if r.random() < 0.15:
                b.ops.append("sq %s %d def" % (kind, i))
                d = E.gq_default()
            else:
                f = r.choice(["sc", "coh", "oa", "part", "gd", "auto", "part", "gd"])
                d[f] = (1 - d[f]) if f in ("sc", "coh", "oa", "auto") else r.choice([0, 1, 3, 9])
                b.ops.append("sq %s %d %s" % (kind, i, g_spec(d)))
            e[2] = d
            if r.random() < 0.7:
                b.ops.append("gq %s %d" % (kind, i))
        else:
            m = r.random()
            if m < 0.08:
                b.ops.append("sq %s %d def" % (kind, i))
                d = E.eq_default(kind)
            else:
                d = dict(cur)
                if m < 0.40:
                    f = r.choice(IMM)
                    d[f] = rnd_field(r, f)
                elif m < 0.65:
                    f = r.choice(MUT)
                    d[f] = rnd_field(r, f)
                elif m < 0.80:
                    d = make_inconsistent(r, d, kind)
                elif m < 0.90:
                    d = rnd_eqos(r, kind)
                else:
                    d = consistent_fix(r, rnd_eqos(r, kind), kind)
                b.ops.append("sq %s %d %s" % (kind, i, eq_spec(d, kind)))
            if r.random() < 0.6:
                e[2] = d          # our guess of the current value; precision does not matter
            if r.random() < 0.75:
                b.ops.append("gq %s %d" % (kind, i))
    for kind, i, _ in b.ents:
        if r.random() < 0.5:
            b.ops.append("gq %s %d" % (kind, i))
    return b.ops


ALT = {"dur": 1, "lk": 1, "ll": 1000, "rel": None, "mbt": 1000, "ord": 1, "hist": 7, "ms": 50, "mi": 9, "mspi": 20,
       "own": 1, "dl": 5000, "lat": 1000, "tp": 7, "ls": 1000000000, "str": 3, "ud": 9, "sep": 1000, "rep": 2,
       "adu": 0, "apn": 1000}


def systematic():
    """every policy on its own, on an enabled and on a not-enabled topic / writer / reader (plus the groups)"""
    out = []
    for enabled in (True, False):
        for kind in ("T", "W", "R"):
            ops = ([] if enabled else ["FQ 0"]) + ["P 0", "T 0 1", "PUB 0", "SUB 0"]
            base = E.eq_default(kind)
            if kind == "W":
                ops.append("W 0 0 %s" % eq_spec(base, kind))
            elif kind == "R":
                ops.append("R 0 0 %s" % eq_spec(base, kind))
            cur = dict(base)
            for f in IMM + MUT:
                d = dict(cur)
                d[f] = (1 - base["rel"]) if f == "rel" else ALT[f]
                ops.append("sq %s 0 %s" % (kind, eq_spec(d, kind)))
                ops.append("gq %s 0" % kind)
                if not enabled or f in MUT:
                    cur = d           # accepted (when the slot exists on the kind)
            ops.append("en %s 0" % kind)
            d = dict(cur)
            d["hist"] = 3
            ops += ["sq %s 0 %s" % (kind, eq_spec(d, kind)), "gq %s 0" % kind]
            out.append(ops)
        for kind in ("PUB", "SUB"):
            ops = ([] if enabled else ["FQ 0"]) + ["P 0", "%s 0" % kind]
            cur = E.gq_default()
            for f in ("sc", "coh", "oa", "part", "gd", "auto"):
                d = dict(cur)
                d[f] = 3 if f in ("part", "gd") else 1 - d[f]
                ops += ["sq %s 0 %s" % (kind, g_spec(d)), "gq %s 0" % kind]
                if not enabled or f in ("part", "gd", "auto"):
                    cur = d
            out.append(ops)
    # every consistency rule on creation and on set_qos, at the boundary
    for kind, cr in (("W", "W 0 0"), ("R", "R 0 0"), ("T", "T 0 9")):
        ops = ["P 0", "T 0 1", "PUB 0", "SUB 0"]
        specs = ["ms=5 mspi=5", "ms=4 mspi=5", "ms=5 mspi=u", "ms=u mspi=5", "hist=5 mspi=5", "hist=6 mspi=5", "hist=0 mspi=0",
                 "hist=1 mspi=0", "hist=-1 mspi=0 ms=0", "hist=4294967295 mspi=2147483647 ms=2147483647",
                 "hist=2147483648 mspi=2147483647 ms=2147483647", "hist=3 mspi=-1", "ms=-5 mspi=-3", "ms=-3 mspi=-5",
                 "dl=5 sep=5", "dl=5 sep=6", "dl=-1 sep=-1", "dl=7 sep=-1", "dl=-1 sep=7", "rep=1", "rep=3", "rep=4", "rep=0"]
        for i, sp in enumerate(specs):
            ops.append("%s %s" % (cr if kind != "T" else "T 0 %d" % (10 + i), sp))
        ops.append("%s def" % (cr if kind != "T" else "T 0 99"))
        last = {"W": "W", "R": "R", "T": "T"}[kind]
        for sp in specs:
            ops += ["sq %s 0 %s" % (last, sp), "gq %s 0" % last]
        out.append(ops)
    return out


def announce(r):
    """two participants (or one), a writer and a reader on the same topic, compatible by construction; accepted
    set_qos of mutable policies on the writer / reader / publisher / subscriber, the harness lets discovery settle,
    then the OTHER side reads the discovered QoS of the endpoint"""
    two = r.random() < 0.7
    ops = ["keepnet", "P 0"] + (["P 0"] if two else []) + ["T 0 1"] + (["T 1 1"] if two else [])
    ops += ["PUB 0 %s" % g_spec(dict(E.gq_default(), gd=r.choice([0, 2]))), "SUB %d def" % (1 if two else 0)]
    w = dict(E.eq_default("W"), ud=r.choice([0, 5]), dl=r.choice([-1, 1000000000]), ls=r.choice([-1, 5000000000]),
             str=r.choice([0, 3]))
    rd = dict(E.eq_default("R"), ud=r.choice([0, 7]))
    ops += ["W 0 0 %s" % eq_spec(w, "W"), "R 0 %d %s" % (1 if two else 0, eq_spec(rd, "R")), "settle", "mpd 0 0", "msd 0 0"]
    for _ in range(r.randint(3, 8)):
        k = r.random()
        if k < 0.45:
            f = r.choice(["ud", "dl", "ls", "str", "tp", "adu"])
            w[f] = {"ud": r.choice([0, 1, 9, 200]), "dl": r.choice([-1, 1000000000, 5000000000]),
                    "ls": r.choice([-1, 1000, 5000000000]), "str": r.choice([0, 1, -4, 2147483647]),
                    "tp": r.choice([0, 5]), "adu": r.randint(0, 1)}[f]
            ops.append("sq W 0 %s" % eq_spec(w, "W"))
        elif k < 0.75:
            f = r.choice(["ud", "sep", "apn", "lat"])
            rd[f] = {"ud": r.choice([0, 2, 8]), "sep": r.choice([0, 5, 1000]), "apn": r.choice([-1, 1000]),
                     "lat": r.choice([0, 9, 1000000000])}[f]
            ops.append("sq R 0 %s" % eq_spec(rd, "R"))
        elif k < 0.90:
            # (the partition is left alone: changing it un-matches the endpoints, which is C15's business)
            ops.append("sq PUB 0 %s" % g_spec(dict(E.gq_default(), gd=r.choice([0, 3, 9]))))
        else:
            ops.append("sq SUB 0 %s" % g_spec(dict(E.gq_default(), gd=r.choice([0, 3]))))
        ops += ["settle", "mpd 0 0", "msd 0 0"]
        if r.random() < 0.3:
            ops += ["gq W 0", "gq R 0"]
    return ops


def gen(r, tier):
    n = {"quick": 220, "search": 800, "thorough": 3500}[tier]
    cases = systematic()
    for _ in range({"quick": 24, "search": 60, "thorough": 300}[tier]):
        cases.append(announce(r))
    while len(cases) < n:
        cases.append(scenario(r))
    return cases


def corpus():
    return [
        # regression of C37-publisher-presentation-mutable (D28, fixed by 5256dfd): ImmutablePolicy on both
        parse_line("P 0 ; PUB 0 ; sq PUB 0 sc=1 coh=1 ; gq PUB 0 ; SUB 0 ; sq SUB 0 sc=1 ; gq SUB 0 ; sq SUB 0 part=3 ; gq SUB 0"),
        # regression of C37-topic-create-inconsistent (fixed by 3e9f0b1): refused, the name stays free
        parse_line("P 0 ; T 0 1 hist=5 mspi=3 ; T 0 1 hist=5 mspi=5 ; gq T 0 ; T 0 2 ms=1 mspi=5 ; sq T 0 hist=5 mspi=3 ; gq T 0"),
        # discovered QoS follows the accepted QoS of the endpoint; the publisher's does not (known finding)
        parse_line("keepnet ; P 0 ; P 0 ; T 0 1 ; T 1 1 ; PUB 0 ; SUB 1 ; W 0 0 ud=5 ; R 0 1 ud=7 ; settle ; mpd 0 0 ; msd 0 0 ; "
                   "sq W 0 ud=9 dl=1000000000 str=4 ; settle ; mpd 0 0 ; sq R 0 ud=3 sep=5 ; settle ; msd 0 0 ; "
                   "sq PUB 0 gd=3 part=4 ; settle ; mpd 0 0"),
        # before / after enable
        parse_line("FQ 0 ; P 0 ; PUB 0 ; T 0 1 ; W 0 0 ; sq W 0 hist=7 ; gq W 0 ; en W 0 ; sq W 0 hist=8 ; gq W 0 ; "
                   "sq W 0 hist=7 dl=5 ; gq W 0 ; sq T 0 hist=3 ; en P 0 ; sq T 0 hist=4 ; gq T 0"),
        parse_line("P 0 ; T 0 1 ; SUB 0 ; R 0 0 dl=5 sep=6 ; R 0 0 dl=6 sep=6 ; sq R 0 dl=5 sep=6 ; gq R 0 ; "
                   "sq R 0 dl=7 sep=-1 ; sq R 0 dl=-1 sep=-1 ; gq R 0 ; PUB 0 ; W 0 0 rep=3 ; W 0 0 rep=1 ; sq W 0 rep=4 ; gq W 0"),
    ]


def nontrivial(c, out):
    if "s 0" in out and "s E8" in out and "s E7" in out:
        return case_line(c)
    return None


def distribution(cases, outs):
    d = {"ops": 0, "set_accepted": 0, "set_inconsistent": 0, "set_immutable": 0, "create_inconsistent": 0,
         "get_qos": 0, "enable": 0}
    for c, o in zip(cases, outs):
        d["ops"] += len(c)
        d["set_accepted"] += o.count("s 0")
        d["set_inconsistent"] += o.count("s E8")
        d["set_immutable"] += o.count("s E7")
        d["create_inconsistent"] += o.count("W E8") + o.count("R E8") + o.count("T E8")
        d["get_qos"] += sum(1 for x in c if x.startswith("gq"))
        d["enable"] += sum(1 for x in c if x.startswith("en"))
    return d


MANIFEST = {
    "text": ("Machine-checked proof (Coq) over a model of is_consistent / check_immutability of every QoS type (with "
             "the Length, usize-vs-Length and DurationKind orders of the code) and of every create / set_qos / get_qos "
             "path. For ANY state in which the entity exists: set_qos with an inconsistent QoS returns "
             "InconsistentPolicy, a change of an immutable policy of an enabled writer / reader / topic / publisher / "
             "subscriber returns ImmutablePolicy, in both cases the state is literally unchanged and get_qos returns the previous "
             "value; otherwise (consistent, and not enabled or no immutable policy changed) the QoS is accepted and "
             "get_qos returns exactly it; a writer / reader / topic creation with an inconsistent QoS is refused and "
             "adds nothing; the code's consistency and immutability tests equal the rules of the DDS specification for all "
             "in-range values. One recorded finding concerns the announcement: set_qos of a publisher / subscriber "
             "is not announced for its existing writers / readers (partition, group_data), checked by the oracle on "
             "the data discovered by a second participant; a writer's / reader's own accepted QoS is announced. The model is tied to the code by "
             "scenarios of create / set_qos / get_qos / enable with boundary-biased QoS values on the real stack in the "
             "simulator, compared inside Coq; a tracker of the last accepted QoS and of the certainly-enabled state is "
             "the oracle on the implementation's results."),
    "note": ("Trusted: Coq kernel + vm_compute; hand model EntityModel.v (checked by the correspondence run); simulator "
             "harness; the spec predicates of C37Corr.v. Axioms: none. NOT covered: 'announced to remote participants' "
             "is checked by the oracle on the implementation's discovered data only, not proved on the model; set_default_*_qos. Known "
             "finding C37-group-qos-not-announced (patch in proposed_fixes/); the former findings "
             "C37-publisher-presentation-mutable and C37-topic-create-inconsistent were repaired by 5256dfd and 3e9f0b1 "
             "and are kept as regression scenarios."),
    "technique": "Coq proof (state-independent theorems about every set_qos / create path + equivalence of the code's "
                 "checks with the specification's rules) + differential correspondence on the simulated stack with a "
                 "last-accepted-QoS tracker oracle evaluated in Coq",
}
