"""C03, scenarios with several endpoints: W RELIABLE KEEP_ALL writers of one publisher (participant 0) and R
RELIABLE readers, each in a participant of its own, run through the simulated real stack (harness bin `proto`);
Coq terms of type Multi_case (Proto/MultiCorr.v)."""
from vlib.core import cz, cbool, clist
from props._rel import ser_len, checksum, sub_term, ch, zl, code

# case = ("M", frag, wtl, nw, nr, ops)


def pre(frag, wtl, nw, nr):
    t = ["cfg frag=%d" % frag] + ["P 0"] * (nr + 1) + ["T %d t" % p for p in range(nr + 1)] + ["PUB 0"]
    t += ["SUB %d" % (j + 1) for j in range(nr)] + ["netm"]
    t += ["W 0 0 rel=1 dur=%d hist=0 mbt=0" % wtl] * nw + ["netm"]
    return t


def op_text(o):
    k = o[0]
    if k == "w":
        return "w %d %d %d %d" % (o[1], o[2], o[3], o[4])
    if k == "tk":
        return "adv %d" % (o[1] * 50000000)
    if k in ("dl", "dr"):
        return "%s %d" % (k, o[1])
    if k == "pu":
        return "pu"
    if k == "t":
        return "t %d 0" % o[1]
    if k == "R":
        return "R %d %d rel=1 dur=%d ; netm" % (o[1], o[1] + 1, o[2])
    if k == "heal":
        return " ; ".join(["adv 250000000 ; pu"] * o[1])
    if k == "wa":
        return "wa %d" % o[1]
    if k in ("wp", "q"):
        return k
    raise ValueError(o)


def case_line(c):
    _, frag, wtl, nw, nr, ops = c
    return " ; ".join(pre(frag, wtl, nw, nr) + [op_text(o) for o in ops])


def is_multi_line(line):
    t = [x.strip() for x in line.split(";")]
    return sum(1 for x in t if x == "P 0") > 2 or sum(1 for x in t if x.startswith("W ")) > 1


def parse_line(line):
    t = [x.strip() for x in line.split(";")]
    frag = int(t[0].split("frag=")[1])
    nr = sum(1 for x in t if x == "P 0") - 1
    ws = [x for x in t if x.startswith("W ")]
    nw = len(ws)
    wtl = int(dict(x.split("=") for x in ws[0].split()[3:])["dur"])
    i = len(pre(frag, wtl, nw, nr))
    ops = []
    while i < len(t):
        p = t[i].split()
        i += 1
        if not p:
            continue
        if p[0] == "w":
            ops.append(("w", int(p[1]), int(p[2]), int(p[3]), int(p[4])))
        elif p[0] == "adv":
            n = int(p[1]) // 50000000
            if n == 5 and i < len(t) and t[i] == "pu":
                i += 1
                if ops and ops[-1][0] == "heal":
                    ops[-1] = ("heal", ops[-1][1] + 1)
                else:
                    ops.append(("heal", 1))
            else:
                ops.append(("tk", n))
        elif p[0] in ("dl", "dr"):
            ops.append((p[0], int(p[1])))
        elif p[0] == "pu":
            ops.append(("pu",))
        elif p[0] == "t":
            ops.append(("t", int(p[1])))
        elif p[0] == "R":
            q = dict(x.split("=") for x in p[3:])
            ops.append(("R", int(p[1]), int(q.get("dur", 0))))
            i += 1  # netm
        elif p[0] == "wa":
            ops.append(("wa", int(p[1])))
        elif p[0] in ("wp", "q"):
            ops.append((p[0],))
        else:
            raise ValueError(line)
    return ("M", frag, wtl, nw, nr, ops)


def q_term(tok):
    ds = []
    for d in tok:
        hdr, subs = d.split("/")
        a, b = hdr.split(">")
        a, b = int(a), int(b)
        if a == 0 and b >= 1:
            tag, to_reader = b - 1, True
        elif b == 0 and a >= 1:
            tag, to_reader = a - 1, False
        else:
            return None
        ss = [sub_term(s) for s in subs.split(",")] if subs else []
        if any(s is None for s in ss):
            return None
        ds.append("(%s, mkDg %s %s)" % (cz(tag), cbool(to_reader), clist(ss)))
    return "MOQuery " + clist(ds)


def pairs(c, out):
    """[(action term, out term)] or None if the output cannot be represented."""
    _, frag, wtl, nw, nr, ops = c
    toks = [x.strip() for x in out.split("|")]
    hdr = ["c"] + ["P 0"] * (nr + 1) + ["T 0"] * (nr + 1) + ["PUB 0"] + ["SUB 0"] * nr
    n0 = len(hdr)
    if toks[:n0] != hdr or len(toks) < n0 + 2 + nw:
        return None
    if not toks[n0].startswith("netm") or toks[n0 + 1:n0 + 1 + nw] != ["W 0"] * nw or not toks[n0 + 1 + nw].startswith("netm"):
        return None
    i = n0 + 2 + nw
    res = []
    nread = 0

    def nxt():
        nonlocal i
        if i >= len(toks):
            raise IndexError
        i += 1
        return toks[i - 1].split()
    try:
        for o in ops:
            k = o[0]
            if k == "w":
                p = nxt()
                if p[1] != "0":
                    return None
                res.append(("MWrite %d %s %s %s" % (o[1], cz(o[2]), cz(ser_len(o[3])), cz(checksum(o[3], o[4]))), "MOCode 0"))
            elif k == "tk":
                nxt()
                res += [("MTick", "MONone")] * o[1]
            elif k in ("dl", "dr"):
                p = nxt()
                a = {"dl": "MDeliver", "dr": "MDrop"}[p[0]]
                idx = int(p[1])
                if idx < 0:
                    res.append(("%s %d" % (a, o[1]), "MOCode (-1)"))
                else:
                    res.append(("%s %d" % (a, idx), "MOCode %d" % idx))
            elif k == "pu":
                p = nxt()
                res.append(("MPump", "MOCount %s" % p[1]))
            elif k == "t":
                p = nxt()
                if p[1] == "E11":
                    res.append(("MTake %d" % o[1], "MOTake []"))
                elif p[1].startswith("E"):
                    return None
                else:
                    n = int(p[1])
                    v = [int(x) for x in p[2:]]
                    if len(v) != 5 * n:
                        return None
                    items = []
                    for j in range(n):
                        key, ln, sm, ist, ts = v[5 * j:5 * j + 5]
                        if key < 0:
                            return None
                        items.append(ch(0, key, ser_len(ln), sm))
                    res.append(("MTake %d" % o[1], "MOTake " + clist(items)))
            elif k == "R":
                p = nxt()
                if p[1] != "0" or o[1] != nread:
                    return None
                nread += 1
                nxt()
                res.append(("MMatch %d %s" % (o[1], cbool(o[2])), "MONone"))
            elif k == "heal":
                for _ in range(o[1]):
                    nxt()
                    res += [("MTick", "MONone")] * 5
                    p = nxt()
                    res.append(("MPump", "MOCount %s" % p[1]))
            elif k == "wa":
                p = nxt()
                res.append(("MWfa %d" % o[1], "MOCode %s" % cz(code(p[1]))))
            elif k == "wp":
                p = nxt()
                m = {"0": 0, "P": 1, "-": 2}
                if any(x not in m for x in p[1:]):
                    return None
                res.append(("MWfaPoll", "MOPoll " + zl([m[x] for x in p[1:]])))
            elif k == "q":
                p = nxt()
                qt = q_term(p[1:])
                if qt is None:
                    return None
                res.append(("MQuery", qt))
        if i != len(toks):
            return None
    except (IndexError, ValueError):
        return None
    return res


def case_term(c, out):
    if out is None or out.startswith(("ABORT", "HANG", "PANIC")):
        return None
    pr = pairs(c, out)
    if pr is None:
        return None
    _, frag, wtl, nw, nr, ops = c
    return "C3M (mkMCase (mkCfg %d true %s 0) %d %d %s)" % (
        frag, cbool(wtl), nw, nr, clist(["(%s, %s)" % (a, o) for a, o in pr]))


def nontrivial(c, out):
    ops = c[5]
    nw = sum(1 for o in ops if o[0] == "w")
    nf = sum(1 for o in ops if o[0] in ("dr", "dl"))
    if nw >= 2 and nf >= 1 and " t " in (" " + out + " ") and any(x.isdigit() for x in out):
        return case_line(c)
    return None


def dist_key(c):
    _, frag, wtl, nw, nr, ops = c
    k = "multi/w%d%s/r%d" % (nw, "T" if wtl else "V", nr)
    if any(ser_len(x[3]) > frag for x in ops if x[0] == "w"):
        k += "/frag"
    return k


# ------------------------------------------------------------------ generator
def takes(nr_created):
    return [("t", j) for j in range(nr_created)]


def gen_case(r):
    """1 writer x 2-3 readers (85 %) or 2 writers x 1-2 readers: per-reader loss / hold of the traffic,
    wait_for_acknowledgments issued while the last sample is unacknowledged, the ACKNACK of one reader delivered
    while another reader lags; every call and poll is followed by a take on every reader."""
    two_w = r.random() < 0.15
    nw = 2 if two_w else 1
    nr = r.choice([1, 2]) if two_w else r.choice([2, 2, 3])
    frag = r.choice([64, 1344, 1344]) if two_w else r.choice([128, 1344, 1344])
    wtl = r.choice([0, 0, 1])
    allow_frag = two_w and r.random() < 0.6
    ops = []
    created = 0
    late = r.random() < 0.25
    nsn = [0] * nw

    def write(w):
        if allow_frag and r.random() < 0.4:
            ln = r.choice([frag - 11, 2 * frag - 12, 117 if frag == 64 else 3 * frag - 11])
        else:
            ln = r.choice([0, 4, 10, frag - 12])
        ops.append(("w", w, r.randint(1, 2), max(0, ln), r.randint(1, 99)))
        nsn[w] += 1

    def match(j):
        ops.append(("R", j, r.choice([0, 1]) if wtl else 0))

    if late:
        for _ in range(r.randint(1, 2)):
            write(r.randrange(nw))
    first = nr if not late or r.random() < 0.5 else r.randint(1, nr)
    for j in range(first):
        match(j)
    created = first
    nrounds = r.randint(1, 3)
    for _ in range(nrounds):
        for _ in range(r.randint(1, 2)):
            write(r.randrange(nw))
        if created < nr and r.random() < 0.5:
            match(created)
            created += 1
        # the lagging reader: drop or hold back its datagrams, deliver the others and their ACKNACKs
        ops.append(("q",))
        for _ in range(r.randint(1, 4)):
            x = r.random()
            if x < 0.35:
                ops.append(("dr", r.choice([0, 0, 1, 2])))
            elif x < 0.85:
                ops.append(("dl", r.choice([0, 0, 1, 1, 2, 3])))
            else:
                ops.append(("tk", r.choice([1, 4, 5])))
        w = r.randrange(nw)
        ops.append(("wa", w))
        ops += takes(created)
        for _ in range(r.randint(2, 6)):
            x = r.random()
            if x < 0.2:
                ops.append(("dr", r.choice([0, 1])))
            elif x < 0.9:
                ops.append(("dl", r.choice([0, 0, 0, 1, 2])))
            else:
                ops.append(("tk", 5))
        ops.append(("wp",))
        ops += takes(created)
        if r.random() < 0.4:
            ops.append(("q",))
    while created < nr:
        match(created)
        created += 1
    nfw = sum(1 for o in ops if o[0] == "w" and ser_len(o[3]) > frag)
    ops.append(("heal", min(14, 3 + 2 * nfw)))
    ops.append(("wp",))
    ops += takes(created)
    for w in range(nw):
        ops.append(("wa", w))
    ops += takes(created)
    ops.append(("q",))
    return ("M", frag, wtl, nw, nr, ops)
