"""C15 — endpoints match exactly when topic, type, partition and RxO QoS are compatible."""
import itertools
import sys

from vlib.core import cz

PID = "C15"
PROPS_FILE = "Props/C15.v"
CORR = "Qos.MatchCorr"
CORR_MODULES = ["Qos.MatchCorr"]
PREFIX = "C15"
CASE_TYPE = "C15_case"
HARNESS = "c15"
# classes 1 (C15-liveliness-lexicographic) and 2 (C15-presentation-neq) were fixed in /repo by
# f03d4da / 908a0e8; their numbers are not reused
KNOWN = {
    3: "C15-partition-plus",
    4: "C15-partition-default",
    5: "C15-partition-two-wildcards",
}
# class 6 (C15-partition-newline) was fixed in /repo by d70d0d9; the number is not reused
RULE = ("one case = one (writer+publisher QoS, reader+subscriber QoS, topic/type equal flags, two partition name "
        "lists); the real process_discovered_readers and process_discovered_writers are run on it (the discovered "
        "endpoint decoded from PL_CDR bytes by Discovered{Reader,Writer}Data::from_bytes) and both observations are "
        "compared with the model and judged by the oracle inside Coq; distinct = distinct input line; non-trivial = "
        "topic and type equal, the configuration is not the all-default one and the observation is matched or "
        "incompatible on at least one side")
TRUSTED = [
    "theories/Qos/CompatModel.v, PartitionModel.v, MatchModel.v: hand transcription of qos_policy.rs (PartialOrd "
    "tables and derives), time.rs (DurationKind order), discovery_methods.rs (the two incompatibility functions, "
    "fnmatch_to_regex, the partition test and the matched/incompatible decision of the two call sites)",
    "the `regex` crate is described (regex_parse/reps_match), not verified; the description is compared with the real "
    "crate on every run",
    "dds_rxo / dds_partition_match / fnmatch are a reading of DDS 1.4 2.2.3, DDS-XTypes 7.6.3.1.1 and POSIX fnmatch",
]
ASSUMPTIONS = [
    "Duration values are normalized (0 <= nanosec < 10^9), as produced by Duration::new; on un-normalized values "
    "the derived (sec, nanosec) order is not the order of the lengths (lemma duration_pcmp_ns_needs_normalization)",
    "type compatibility is observed in the branch without TypeInformation (type names compared); the "
    "TypeObject assignability branch is not part of this model",
    "partition theorems cover names whose bracket expressions are lists of plain characters and ranges, every `[` "
    "closed, no trailing backslash (fn_supported); other names are exercised for crashes and model agreement only",
    "the three functions are private: they are driven through process_discovered_readers / process_discovered_writers",
]

I32MAX = 2**31 - 1
NS = 10**9
INF = None
# boundary durations: zero, 1 ns, just below / at / above one second, large, maximal finite, infinite
DURS = [(0, 0), (0, 1), (0, NS - 1), (1, 0), (1, 1), (10, 0), (I32MAX, NS - 1), INF]
DURS5 = [(0, 0), (0, 1), (1, 0), (I32MAX, NS - 1), INF]
REPS = [[], [0], [2], [0, 2], [2, 0], [1], [2, 1], [0, 0], [7, 2, 0]]

# endpoint QoS tuple: (dur, scope, coh, ord, deadline, latency, lkind, lease, rel, dord, own, rep)
DEF_W = (0, 0, 0, 0, INF, (0, 0), 0, INF, 1, 0, 0, [])
DEF_R = (0, 0, 0, 0, INF, (0, 0), 0, INF, 0, 0, 0, [])
FIELD = {"dur": 0, "scope": 1, "coh": 2, "ord": 3, "deadline": 4, "latency": 5, "lkind": 6, "lease": 7,
         "rel": 8, "dord": 9, "own": 10, "rep": 11}


def setq(q, **kw):
    q = list(q)
    for k, v in kw.items():
        q[FIELD[k]] = v
    return tuple(q)


def mk(off=DEF_W, req=DEF_R, te=1, ty=1, pp=(), sp=(), tag="x"):
    return (te, ty, off, req, list(pp), list(sp), tag)


# ------------------------------------------------------------------ generators
def per_policy_cases():
    cs = []
    for a in range(4):
        for b in range(4):
            cs.append(mk(setq(DEF_W, dur=a), setq(DEF_R, dur=b), tag="durability"))
    for s1, c1, o1, s2, c2, o2 in itertools.product(range(2), repeat=6):
        cs.append(mk(setq(DEF_W, scope=s1, coh=c1, ord=o1), setq(DEF_R, scope=s2, coh=c2, ord=o2), tag="presentation"))
    for a in DURS:
        for b in DURS:
            cs.append(mk(setq(DEF_W, deadline=a), setq(DEF_R, deadline=b), tag="deadline"))
            cs.append(mk(setq(DEF_W, latency=a), setq(DEF_R, latency=b), tag="latency"))
    for k1 in range(3):
        for k2 in range(3):
            for a in DURS:
                for b in DURS:
                    cs.append(mk(setq(DEF_W, lkind=k1, lease=a), setq(DEF_R, lkind=k2, lease=b), tag="liveliness"))
    for a in range(2):
        for b in range(2):
            cs.append(mk(setq(DEF_W, rel=a), setq(DEF_R, rel=b), tag="reliability"))
            cs.append(mk(setq(DEF_W, dord=a), setq(DEF_R, dord=b), tag="destination_order"))
            cs.append(mk(setq(DEF_W, own=a), setq(DEF_R, own=b), tag="ownership"))
    for a in REPS:
        for b in REPS:
            cs.append(mk(setq(DEF_W, rep=a), setq(DEF_R, rep=b), tag="representation"))
    return cs


def rdur(r):
    k = r.random()
    if k < 0.55:
        return r.choice(DURS)
    if k < 0.75:
        return (r.randint(0, 5), r.choice([0, 1, NS - 1, r.randint(0, NS - 1)]))
    return (r.randint(0, I32MAX), r.randint(0, NS - 1))


def rq(r):
    return (r.randint(0, 3), r.randint(0, 1), r.randint(0, 1), r.randint(0, 1), rdur(r), rdur(r),
            r.randint(0, 2), rdur(r), r.randint(0, 1), r.randint(0, 1), r.randint(0, 1), list(r.choice(REPS)))


def near(r, q):
    """a QoS close to q: most fields copied, a few re-drawn (so that whole pairs are often compatible)"""
    q2 = list(q)
    fresh = rq(r)
    for i in range(len(q2)):
        if r.random() < 0.25:
            q2[i] = fresh[i]
    return tuple(q2)


def random_rxo(r, n):
    cs = []
    for _ in range(n):
        off = rq(r)
        req = near(r, off) if r.random() < 0.7 else rq(r)
        cs.append(mk(off, req, tag="rxo-random"))
    return cs


N_KINDS = 4 * 4 * 2 ** 6 * 3 * 3 * 2 ** 6   # 589 824


def kind_case(n):
    """the n-th combination of the kind-valued fields of both sides (mixed radix, most
    significant first: d1:4 d2:4 s1 c1 o1 s2 c2 o2 :2 k1:3 k2:3 r1 r2 x1 x2 w1 w2 :2); the duration
    fields rotate through the five boundary durations.  Same function as `enum_cfg` in MatchCorr.v"""
    i = n + 1
    a, b = DURS5[i % 5], DURS5[(i // 5) % 5]
    c, d = DURS5[(i // 25) % 5], DURS5[(i // 125) % 5]
    m = n
    w2 = m % 2; m //= 2
    w1 = m % 2; m //= 2
    x2 = m % 2; m //= 2
    x1 = m % 2; m //= 2
    r2 = m % 2; m //= 2
    r1 = m % 2; m //= 2
    k2 = m % 3; m //= 3
    k1 = m % 3; m //= 3
    o2 = m % 2; m //= 2
    c2 = m % 2; m //= 2
    s2 = m % 2; m //= 2
    o1 = m % 2; m //= 2
    c1 = m % 2; m //= 2
    s1 = m % 2; m //= 2
    d2 = m % 4
    d1 = (m // 4) % 4
    off = (d1, s1, c1, o1, a, b, k1, c, r1, x1, w1, [])
    req = (d2, s2, c2, o2, b, a, k2, d, r2, x2, w2, [])
    return (1, 1, off, req, [], [], "all-kinds", n)


def all_kinds(lo=0, hi=N_KINDS):
    return [kind_case(n) for n in range(lo, hi)]


# ---- partitions
BASES = ["a", "ab", "abc", "sensor", "A.B", "x y", "café", "漢字", "a-b", "rt/ns/t1", "{z}", "a|b", "(p)",
         "a.b", "$x", "^k", "a#b", "", "aa", "aab", "abcabc"]
ALPHA = "abcxyz09AZ .-_/é漢"


def pattern_for(r, base, exact):
    """an fnmatch pattern derived from `base`: if `exact` it matches base, else it is a near miss (usually)"""
    out = []
    i = 0
    s = base
    while i < len(s):
        ch = s[i]
        k = r.random()
        if k < 0.25:
            out.append("?")
            i += 1
        elif k < 0.40:
            j = r.randint(i, len(s))
            out.append("*")
            i = j
        elif k < 0.60 and ch not in "[]\\^-&~!":
            kind = r.random()
            if kind < 0.4:
                others = "".join(r.sample("pqrs", r.randint(0, 2)))
                body = "".join(r.sample(others + ch, len(others) + 1))
                out.append("[" + body + "]")
            elif kind < 0.7 and ord(ch) > 1:
                lo = chr(max(ord(ch) - r.randint(0, 2), 32 if ord(ch) >= 32 else ord(ch)))
                hi = chr(ord(ch) + r.randint(0, 2))
                if lo in "[]\\^-&~!" or hi in "[]\\^-&~!":
                    out.append(ch if ch not in "*?[\\+" else "\\" + ch)
                else:
                    out.append("[" + lo + "-" + hi + "]")
            else:
                out.append("[" + r.choice("!^") + r.choice("pqr") + "]")
            i += 1
        elif k < 0.68:
            out.append("\\" + ch)
            i += 1
        else:
            out.append("\\" + ch if ch in "*?[\\+" else ch)
            i += 1
    if r.random() < 0.2:
        out.append("*")
    p = "".join(out)
    if not exact:
        m = r.random()
        if m < 0.3:
            p = p + r.choice(["x", "?", "[q]"])
        elif m < 0.6 and p:
            k = r.randrange(len(p))
            p = p[:k] + r.choice(["z", "[!%s]" % (base[0] if base and base[0] not in "[]\\^-&~!" else "a")]) + p[k + 1:]
        elif m < 0.8:
            p = "q" + p
        else:
            p = p.replace("*", "", 1) if "*" in p else p + "\\"
    return p


def rname(r):
    return "".join(r.choice(ALPHA) for _ in range(r.randint(0, 5)))


def garbage(r):
    alpha = "ab*?[]!^-+\\.\n&~ c"
    return "".join(r.choice(alpha) for _ in range(r.randint(0, 6)))


SPECIAL_PARTITIONS = [
    ([], []), ([""], [""]), ([], [""]), ([""], []), (["*"], []), ([], ["*"]), (["*"], [""]), (["a"], []),
    (["a+"], ["aa"]), (["a+"], ["a+"]), (["a+"], ["a"]), (["+"], [""]), (["+a"], ["a"]), (["a++"], ["aaa"]),
    (["*+"], ["xyz"]), (["?+"], ["xyz"]), (["?+"], [""]), (["[ab]+"], ["abba"]), (["a\\+"], ["a+"]), (["[+]"], ["+"]),
    (["c++"], ["c++"]), (["c++"], ["cc"]),
    (["a*"], ["a*"]), (["a*"], ["ab*"]), (["a*"], ["b*"]), (["a?"], ["a[b]"]), (["*"], ["*"]), (["a\\b"], ["a\\b"]),
    (["a\\b"], ["ab"]), (["a*", "x"], ["a*", "x"]), (["a*", "x"], ["a*", "y"]),
    (["a?b"], ["a\nb"]), (["a*b"], ["a\nb"]), (["[!a]"], ["\n"]), (["a\nb"], ["a\nb"]), (["*"], ["\n"]),
    (["[a"], ["[a"]), (["[!a"], ["[!a"]), (["[!a"], ["[^a"]), (["[a*"], ["[abc"]), (["a\\"], ["a\\"]), (["[]"], ["[]"]),
    (["[z-a]"], ["z"]), (["[a-]"], ["-"]), (["[[:alpha:]]"], ["x"]), (["[a\\]]"], ["]"]), (["[a]b]"], ["ab]"]),
    (["[a-c]"], ["b"]), (["[^a-c]"], ["b"]), (["[^a-c]"], ["d"]), (["[!a-c]"], ["d"]), (["[a-cx-z]"], ["y"]),
    (["a.b"], ["axb"]), (["a.b"], ["a.b"]), (["a|b"], ["a"]), (["(a)"], ["a"]), (["a{2}"], ["aa"]), (["$"], ["$"]),
    (["é?"], ["éé"]), (["[é]"], ["é"]), (["x", "a*"], ["ab"]), (["x", "y"], ["y", "x"]), (["x", "y"], ["z", "w"]),
    (["x"], ["x", "x"]), (["x", "y"], ["x", "y"]), (["x", "y"], ["y"]), (["**"], ["abc"]), (["*a*"], ["bab"]), (["*a*"], ["bbb"]),
    (["?"], [""]), (["?"], ["ab"]), (["a*c"], ["abcabc"]), (["a*c*"], ["abcab"]), (["*ab"], ["aab"]), (["*ab"], ["aba"]),
]


def partition_cases(r, n):
    cs = []
    for pp, sp in SPECIAL_PARTITIONS:
        cs.append(mk(pp=pp, sp=sp, tag="partition-special"))
        cs.append(mk(pp=sp, sp=pp, tag="partition-special"))
    while len(cs) < n:
        k = r.random()
        if k < 0.55:
            base = r.choice(BASES) if r.random() < 0.7 else rname(r)
            pat = pattern_for(r, base, r.random() < 0.6)
            a, b = [pat], [base]
            tag = "partition-pattern"
        elif k < 0.70:
            a = [r.choice(BASES) for _ in range(r.randint(0, 3))]
            b = [r.choice(BASES) for _ in range(r.randint(0, 3))]
            tag = "partition-plain"
        elif k < 0.80:
            base = r.choice(BASES)
            a = [pattern_for(r, base, True)]
            b = [pattern_for(r, base, True)]
            tag = "partition-two-patterns"
        elif k < 0.90:
            a = [garbage(r) for _ in range(r.randint(0, 2))]
            b = [garbage(r) for _ in range(r.randint(0, 2))]
            tag = "partition-garbage"
        else:
            base = r.choice(BASES)
            a = [rname(r), pattern_for(r, base, r.random() < 0.5)]
            b = [base, rname(r)]
            r.shuffle(a)
            r.shuffle(b)
            tag = "partition-lists"
        if r.random() < 0.5:
            a, b = b, a
        cs.append(mk(pp=a, sp=b, tag=tag))
    return cs


def gating_cases(r, n):
    """topic / type / partition gate in front of the QoS test"""
    cs = []
    for te in (0, 1):
        for ty in (0, 1):
            for pp, sp in (([], []), (["a"], ["b"]), (["a*"], ["ab"])):
                for off, req in ((DEF_W, DEF_R), (setq(DEF_W, rel=0), setq(DEF_R, rel=1)),
                                 (setq(DEF_W, dur=0, own=1), setq(DEF_R, dur=3, dord=1))):
                    cs.append(mk(off, req, te, ty, pp, sp, tag="gating"))
    while len(cs) < n:
        off = rq(r)
        req = near(r, off)
        base = r.choice(BASES)
        cs.append(mk(off, req, int(r.random() < 0.85), int(r.random() < 0.85),
                     [pattern_for(r, base, r.random() < 0.7)] if r.random() < 0.6 else [],
                     [base] if r.random() < 0.6 else [], tag="gating"))
    return cs


def gen(r, tier):
    cases = per_policy_cases()
    if tier == "quick":
        cases += random_rxo(r, 1500) + partition_cases(r, 1800) + gating_cases(r, 500)
    elif tier == "search":
        cases += random_rxo(r, 12000) + partition_cases(r, 12000) + gating_cases(r, 3000)
    else:
        # the exhaustive product of all kinds (589 824 pairs) runs in batches, see `extra`
        cases += random_rxo(r, 9000) + partition_cases(r, 8000) + gating_cases(r, 2500)
    return cases


def extra(ctx, binary):
    """thorough tier: every combination of the kind-valued fields of both sides (589 824
    configurations), each written as ONE number for Coq (`EZ`, see MatchCorr.v)"""
    if ctx.tier != "thorough":
        return
    import os
    from vlib import core
    step = 150000
    total_bad = 0
    # one number per case: large files are cheap (about 1 GB of coqc memory for 15 000 cases), and the
    # start-up of coqc would otherwise dominate (738 files of 800 cases)
    saved = os.environ.get("VERIF_CASES_PER_FILE")
    os.environ["VERIF_CASES_PER_FILE"] = os.environ.get("VERIF_C15_KINDS_PER_FILE", "15000")
    try:
        total_bad = _all_kinds_batches(ctx, binary, core, step)
    finally:
        if saved is None:
            os.environ.pop("VERIF_CASES_PER_FILE", None)
        else:
            os.environ["VERIF_CASES_PER_FILE"] = saved
    ctx.cov["evaluations"] = ctx.cov.get("evaluations", 0) + N_KINDS
    ctx.cov["exhaustive_kind_combinations"] = N_KINDS
    ctx.cov["model_disagreements"] = ctx.cov.get("model_disagreements", 0) + total_bad


def _all_kinds_batches(ctx, binary, core, step):
    total_bad = 0
    for lo in range(0, N_KINDS, step):
        chunk = all_kinds(lo, min(lo + step, N_KINDS))
        res, lines, outs = core.correspond(ctx, sys.modules[__name__], binary, chunk,
                                           label="kinds%d" % (lo // step))
        for i in res["oracle_bad"][:3]:
            ctx.violations.append(("oracle", "property oracle rejects implementation behaviour on case: %s -> %s"
                                   % (lines[i], outs[i]), {"case": lines[i], "harness": HARNESS, "impl_output": outs[i]}))
        if res["model_bad"]:
            i0 = res["model_bad"][0]
            total_bad += len(res["model_bad"])
            ctx.broken.append("correspondence C15 (all kinds): implementation differs from model on %d case(s), e.g. %s -> %s"
                              % (len(res["model_bad"]), lines[i0], outs[i0]))
    return total_bad


def corpus():
    lw = lambda k, s: setq(DEF_W, lkind=k, lease=(s, 0))
    lr = lambda k, s: setq(DEF_R, lkind=k, lease=(s, 0))
    return [
        mk(tag="corpus"),
        # regression cases of the two fixed defects (f03d4da liveliness, 908a0e8 presentation)
        mk(lw(0, 10), lr(0, 20), tag="corpus"),      # was reported incompatible LIVELINESS; compatible
        mk(lw(0, 20), lr(0, 10), tag="corpus"),      # was matched; incompatible (offered lease longer)
        mk(lw(2, 20), lr(0, 10), tag="corpus"),      # was matched; stronger kind but longer lease
        mk(lw(2, 5), lr(0, 10), tag="corpus"),       # compatible
        mk(setq(DEF_W, coh=1), DEF_R, tag="corpus"),  # was reported incompatible PRESENTATION; compatible
        mk(setq(DEF_W, ord=1), DEF_R, tag="corpus"),  # idem, ordered_access
        mk(DEF_W, setq(DEF_R, coh=1), tag="corpus"),  # genuinely incompatible
        mk(pp=["a+"], sp=["aa"], tag="corpus"),      # class 3
        mk(pp=[], sp=[""], tag="corpus"),            # class 4
        mk(pp=["a*"], sp=["ab*"], tag="corpus"),     # class 5
        # regression cases of d70d0d9 (`.` under (?s) matches a line feed): were N, must be M
        mk(pp=["a?b"], sp=["a\nb"], tag="corpus"),
        mk(pp=["a\nb"], sp=["a*b"], tag="corpus"),
        mk(pp=["*"], sp=["\n"], tag="corpus"),
    ]


# ------------------------------------------------------------------ text forms
def dk_ints(d):
    return [1, 0, 0] if d is None else [0, d[0], d[1]]


def q_ints(q):
    v = [q[0], q[1], q[2], q[3]] + dk_ints(q[4]) + dk_ints(q[5]) + [q[6]] + dk_ints(q[7]) + [q[8], q[9], q[10]]
    return v + [len(q[11])] + list(q[11])


def hx(s):
    b = s.encode("utf-8")
    return b.hex() if b else "-"


def case_line(c):
    te, ty, off, req, pp, sp = c[:6]
    t = [te, ty] + q_ints(off) + q_ints(req)
    return " ".join(str(x) for x in t) + " %d %s %d %s" % (
        len(pp), " ".join(hx(x) for x in pp), len(sp), " ".join(hx(x) for x in sp))


def parse_line(line):
    t = line.split()
    pos = [0]

    def nxt():
        pos[0] += 1
        return t[pos[0] - 1]

    def dk():
        inf, s, n = int(nxt()), int(nxt()), int(nxt())
        return None if inf else (s, n)

    def q():
        a = [int(nxt()) for _ in range(4)]
        dl, lb = dk(), dk()
        lk = int(nxt())
        ll = dk()
        b = [int(nxt()) for _ in range(3)]
        n = int(nxt())
        rep = [int(nxt()) for _ in range(n)]
        return (a[0], a[1], a[2], a[3], dl, lb, lk, ll, b[0], b[1], b[2], rep)

    def names():
        n = int(nxt())
        out = []
        for _ in range(n):
            h = nxt()
            out.append("" if h == "-" else bytes.fromhex(h).decode("utf-8"))
        return out

    te, ty = int(nxt()), int(nxt())
    off, req = q(), q()
    pp, sp = names(), names()
    return (te, ty, off, req, pp, sp, "replay")


def cdk(d):
    if d is None:
        return "Inf"
    assert 0 <= d[1] < NS, "generator must emit normalized durations"
    return "(F %s %s)" % (cz(d[0]), cz(d[1]))


def cq(q):
    return "(Q %d %d %d %d %s %s %d %s %d %d %d [%s])" % (
        q[0], q[1], q[2], q[3], cdk(q[4]), cdk(q[5]), q[6], cdk(q[7]), q[8], q[9], q[10],
        ";".join(str(x) for x in q[11]))


def cnames(l):
    return "[" + ";".join("[" + ";".join(str(ord(ch)) for ch in s) + "]" for s in l) + "]"


def cverdict(v):
    p = v.split()
    if p == ["M"]:
        return "M"
    if p == ["N"]:
        return "N0"
    if p == ["T"]:
        return "T"
    if p and p[0] == "I" and len(p) >= 3:
        return "(In_ %s [%s])" % (cz(int(p[1])), ";".join(cz(int(x)) for x in p[2:]))
    if p and p[0].startswith("X"):
        return "ObsOther"
    return None


def split_out(out):
    if not out.startswith("W ") or " R " not in out:
        return None
    w, r = out[2:].split(" R ", 1)
    return w.strip(), r.strip()


W_ORDER = [2, 3, 4, 5, 8, 11, 12, 6, 23]   # push order of the reader-side function (writer's participant)
R_ORDER = [3, 2, 4, 5, 8, 11, 12, 6, 23]   # push order of the writer-side function (reader's participant)


def obs_code(v, order):
    """one observation as a 12-bit number (decoded by obs_of_code in MatchCorr.v); None if the
    observation is not of the canonical shape (then the explicit `K` term is used)"""
    p = v.split()
    if p == ["M"]:
        return 0
    if p == ["N"]:
        return 1
    if p == ["T"]:
        return 2
    if p and p[0].startswith("X"):
        return 3
    if p and p[0] == "I" and len(p) >= 3:
        try:
            ids = [int(x) for x in p[2:]]
            last = int(p[1])
        except ValueError:
            return None
        if last != ids[0] or ids != [x for x in order if x in ids]:
            return None
        mask = sum(1 << order.index(x) for x in ids)
        return 4 + 8 * mask
    return None


def case_term(c, out):
    wr = split_out(out)
    if wr is None:
        return None  # PANIC / ABORT / HANG: the real code crashed
    if len(c) > 7 and c[6] == "all-kinds":
        cw, cr = obs_code(wr[0], W_ORDER), obs_code(wr[1], R_ORDER)
        if cw is not None and cr is not None:
            return "EZ 0x%x" % (c[7] + (1 << 20) * (cw + (1 << 12) * cr))
    w, r = cverdict(wr[0]), cverdict(wr[1])
    if w is None or r is None:
        return None
    te, ty, off, req, pp, sp = c[:6]
    return "K %d %d %s %s %s %s %s %s" % (te, ty, cq(off), cq(req), cnames(pp), cnames(sp), w, r)


def nontrivial(c, out):
    te, ty, off, req, pp, sp = c[:6]
    wr = split_out(out)
    if wr is None or not (te and ty):
        return None
    if off == DEF_W and req == DEF_R and not pp and not sp:
        return None
    if wr[0][0] in "MI" or wr[1][0] in "MI":
        return case_line(c)
    return None


def distribution(cases, outs):
    d = {}
    for c, o in zip(cases, outs):
        wr = split_out(o)
        k = c[6] + "/" + ((wr[0][0] + wr[1][0]) if wr else "crash")
        d[k] = d.get(k, 0) + 1
    return d


MANIFEST = {
    "text": ("Machine-checked proof (Coq) over a hand model of the two QoS-incompatibility functions (after the fixes "
             "f03d4da / 908a0e8: liveliness kind and lease compared separately, presentation flags as implications), of "
             "fnmatch_to_regex and of the matched/incompatible decision of process_discovered_readers/writers. Proved for "
             "ALL QoS values with normalized durations, without exception: each function returns the empty list exactly "
             "when the DDS 1.4 request/offered table (transcribed independently) says compatible, the reported policy ids "
             "are exactly the failing policies, each once, and the writer-side and reader-side functions always agree "
             "(unconditionally, as a permutation of the same ids). Partition: the translator plus a description of the "
             "regex crate is proved equal to POSIX fnmatch / the DDS partition rule on the supported pattern fragment "
             "outside three recorded deviation classes (`+`, empty list vs \"\", two wildcard names), each with "
             "a proved witness. End to end: matched iff topic, type, partition and RxO fit; an incompatible pair is "
             "reported on both sides with exactly the offending policies. The model is tied to /repo by running the real "
             "call sites on every kind combination per policy (thorough: all 589 824 combinations of all kinds), boundary "
             "durations, random whole configurations and thousands of partition patterns, and comparing inside Coq; the "
             "oracle judges the implementation's own observations."),
    "note": ("Trusted: Coq kernel + vm_compute; the hand models (checked against the code on every run); the reading of "
             "the standards in dds_rxo / dds_partition_match / fnmatch; the regex crate (described, compared "
             "differentially, not verified); harness and comparator. Not covered: TypeObject assignability branch of "
             "type matching; un-normalized wire durations; bracket expressions beyond plain characters and ranges. "
             "Axioms: none."),
    "technique": "Coq proof (case analysis on finite kinds, lia on durations, induction on patterns) + differential "
                 "correspondence with the oracle evaluated in Coq",
}
