"""C29 — expired samples (lifespan) are never delivered."""
from vlib.core import cz, clist

PID = "C29"
PROPS_FILE = "Props/C29.v"
CORR = "Sched.LifespanCorr"
CORR_MODULES = ["Sched.LifespanCorr"]
PREFIX = "C29"
CASE_TYPE = "C29_case"
HARNESS = "timing"
KNOWN = {1: "C29-no-reader-side-expiry"}
RULE = ("one case = one whole-stack simulation scenario drawn from one PRNG: a writer with a finite lifespan "
        "(best-effort / reliable / transient-local with a late-joining reader), writes with current, old and future "
        "source timestamps, datagrams delivered, held back and released, clock advances around the lifespan, "
        "read/take; distinct = distinct scenario line; non-trivial = at least one sample was returned by a read/take")
TRUSTED = ["theories/Sched/LifespanModel.v is a hand model of the expired-at-write check (data_writer_entity.rs:159), "
           "remove_stale_writer_samples (discovery_methods.rs:465), (re)transmission from the writer history and a "
           "reader without lifespan check",
           "harness/src/bin/timing.rs and the in-memory network of harness/src/sim.rs (hold / release of datagrams)"]
ASSUMPTIONS = ["'never presented' is claimed only outside the recorded class C29-no-reader-side-expiry (a sample is "
               "read/taken before the timestamp it was written with + lifespan); inside the class the real reader "
               "returns expired samples",
               "the scenario family keeps datagrams in order (held datagrams are released before newer ones are "
               "delivered), so the reliable-protocol state machine is not part of this model; holes in the sequence "
               "numbers (samples expired at write, or expired behind live ones) are part of the family"]

MS = 1000000
NS = 1000000000
T0 = NS
LS = [100 * MS, 200 * MS, 55 * MS, NS, 120 * MS]


def gen_case(r, big):
    L = r.choice(LS)
    late_joiner = r.random() < 0.35
    rel = 1 if late_joiner else r.choice([0, 1])
    ops = []
    now = T0 + 100 * MS
    joined = not late_joiner
    flight = 0
    held = 0
    sn = 0
    n = r.randint(4, 14 if big else 10)
    alive = {}  # sn -> expiry of the changes the writer history holds (expiry is per change:
    #             source timestamp + lifespan, NOT by position in the history)

    for i in range(n):
        k = r.random()
        if k < 0.38 and sn < 200:
            sn += 1
            q = r.random()
            ts = None
            if q < 0.35:
                # an OLDER source timestamp than the clock (and usually than the previous sample):
                # still alive, exactly expired, or expired at write (leaves a hole in the
                # sequence numbers)
                ts = max(0, now - r.choice([1, L - 1, L - 1, L, L + 1, L // 2, L // 2, L // 3, 10 * MS, 3 * L // 4]))
            elif q < 0.45:
                ts = now + r.choice([1, 10 * MS, L])
            ops.append(("w", sn, ts))
            tsv = now if ts is None else ts
            if tsv + L > now:
                alive[sn] = tsv + L
                if joined:
                    flight += 1
        elif k < 0.62:
            dt = max(1, r.choice([L, L // 2, L - 1, L + 1, 2 * L, 10 * MS, 50 * MS, 1]) + r.choice([0, 0, 1, -1, 1000]))
            live = sorted(e for e in alive.values() if e > now)
            q = r.random()
            if live and q < 0.3:
                # exactly to (or 1 ns around) the expiry of the first change to expire
                dt = max(1, live[0] - now + r.choice([0, 0, -1, 1]))
            elif len(live) > 1 and live[0] < live[-1] and q < 0.55:
                # between the first and the last expiry (some changes expired, others alive)
                dt = max(1, r.randint(live[0], live[-1]) - now)
            ops.append(("adv", dt))
            now += dt
        elif k < 0.82:
            if not joined:
                if r.random() < 0.5:
                    ops.append(("join",))
                    joined = True
                continue
            if held:
                ops.append(("rel",))
                flight += held
                held = 0
            if flight and r.random() < 0.4:
                ops.append(("hold", 0))
                held = flight
                flight = 0
            else:
                ops.append(("net",))
                flight = 0
        else:
            if joined:
                ops.append((r.choice(["t", "t", "r"]),))
    if not joined:
        ops.append(("join",))
        joined = True
    if held:
        ops.append(("rel",))
    ops.append(("net",))
    ops.append(("t",))
    return (L, rel, late_joiner, tuple(ops))


def gen(r, tier):
    n = {"quick": 170, "search": 900, "thorough": 2500}[tier]
    return [gen_case(r, tier != "quick") for _ in range(n)]


def corpus():
    L = 200 * MS
    return [
        # D29: the DATA datagram is held for 300 ms (> lifespan) and then delivered: the reader presents it
        (L, 0, False, (("w", 1, None), ("hold", 0), ("t",), ("adv", 300 * MS), ("rel",), ("net",), ("t",))),
        (L, 1, False, (("w", 1, None), ("hold", 0), ("adv", 300 * MS), ("rel",), ("net",), ("t",))),
        # delivered in time but taken after the expiry
        (L, 1, False, (("w", 1, None), ("net",), ("adv", L), ("r",), ("adv", 1), ("t",))),
        # late joiner: the expired part of the history is not sent, the rest is
        (L, 1, True, (("w", 1, None), ("adv", 120 * MS), ("w", 2, None), ("adv", 100 * MS), ("join",), ("t",))),
        # out-of-order expiry (seeded change C29): A (ts = now) then B written with an older timestamp
        # (L/4 left at write); the reader joins after B's expiry and before A's: only A is sent
        (L, 1, True, (("w", 1, None), ("w", 2, T0 + 100 * MS - 3 * L // 4), ("adv", L // 2), ("join",), ("t",))),
        (L, 1, True, (("w", 1, None), ("w", 2, T0 + 100 * MS - 3 * L // 4), ("w", 3, None), ("adv", L // 4), ("join",), ("r",),
                      ("w", 4, None), ("net",), ("t",))),
        # a hole (sample 2 expired at write) followed by further writes, best-effort and reliable
        (L, 0, False, (("w", 1, None), ("w", 2, T0 + 100 * MS - L), ("w", 3, None), ("net",), ("t",))),
        (L, 1, False, (("w", 1, None), ("w", 2, T0 + 100 * MS - L), ("w", 3, None), ("net",), ("w", 4, None), ("net",), ("t",))),
        # late joiner whose history has a hole in the middle and an expired change at the end
        (L, 1, True, (("w", 1, None), ("w", 2, T0 + 100 * MS - L), ("w", 3, None), ("w", 4, T0 + 100 * MS - L + 10 * MS),
                      ("adv", 20 * MS), ("join",), ("t",))),
        # late joiner exactly at the expiry of sample 1 (1 ns before the expiry of sample 2)
        (L, 1, True, (("w", 1, None), ("w", 2, T0 + 100 * MS + 1), ("adv", L), ("join",), ("t",))),
        # expired at write / exactly at the boundary
        (L, 0, False, (("w", 1, T0 + 100 * MS - L + 1), ("w", 2, T0 + 100 * MS - L), ("net",), ("t",))),
    ]


def case_line(c):
    L, rel, late, ops = c
    parts = ["cfg trace=0", "P 0", "P 0", "T 0 t", "T 1 t", "PUB 0", "SUB 1",
             "W 0 0 rel=%d dur=%d ls=%d" % (rel, 1 if late else 0, L)]
    if not late:
        parts.append("R 0 1 rel=%d" % rel)
    parts += ["net", "adv 100000000", "net"]
    for o in ops:
        if o[0] == "w":
            parts.append("w 0 1 %d 1%s" % (o[1], "" if o[2] is None else " %d" % o[2]))
        elif o[0] == "adv":
            parts.append("adv %d" % o[1])
        elif o[0] == "net":
            parts.append("net")
        elif o[0] == "hold":
            parts.append("fault hold ANY -1 -1 -1")
            parts.append("net")
            parts.append("fault clear")
        elif o[0] == "rel":
            parts.append("rel")
        elif o[0] == "join":
            parts.append("R 0 1 rel=1 dur=1")
            parts.append("net")
        elif o[0] in ("t", "r"):
            parts.append("%s 0 0" % o[0])
            parts.append("now")
    return " ; ".join(parts)


def parse_line(line):
    ops = [o.strip() for o in line.split(";")]
    kv = dict(x.split("=") for x in ops[7].split()[3:])
    L, rel, late = int(kv["ls"]), int(kv["rel"]), kv["dur"] == "1"
    rest = ops[8:] if late else ops[9:]
    rest = rest[3:]
    out = []
    i = 0
    while i < len(rest):
        t = rest[i].split()
        if t[0] == "w":
            out.append(("w", int(t[3]), int(t[5]) if len(t) > 5 else None))
        elif t[0] == "adv":
            out.append(("adv", int(t[1])))
        elif t[0] == "net":
            out.append(("net",))
        elif t[0] == "fault":
            out.append(("hold", 0))
            i += 2
        elif t[0] == "rel":
            out.append(("rel",))
        elif t[0] == "R":
            out.append(("join",))
            i += 1
        elif t[0] in ("t", "r"):
            out.append((t[0],))
            i += 1
        i += 1
    return (L, rel, late, tuple(out))


def case_term(c, out):
    if out.startswith(("PANIC", "ABORT", "HANG")):
        return None
    L, rel, late, ops = c
    res = [x.strip() for x in out.split(" | ")]
    pos = 8 + (0 if late else 1) + 3
    now = T0 + 100 * MS
    terms = ["(LTick 100000000, %d, [])" % now]
    joined = not late

    def item(lop, got=()):
        return "(%s, %d, %s)" % (lop, now, clist("(%d, %d)" % g for g in got))

    for o in ops:
        if pos >= len(res):
            return None
        if o[0] == "w":
            if res[pos] != "w 0":
                return None
            ts = now if o[2] is None else o[2]
            terms.append(item("LWrite %s %s" % (cz(ts), "true" if joined else "false")))
            pos += 1
        elif o[0] == "adv":
            now += o[1]
            terms.append(item("LTick %d" % o[1]))
            pos += 1
        elif o[0] == "net":
            terms.append(item("LDeliverAll"))
            pos += 1
        elif o[0] == "hold":
            terms.append(item("LHoldAll"))
            pos += 3
        elif o[0] == "rel":
            terms.append(item("LRelease"))
            pos += 1
        elif o[0] == "join":
            if res[pos] != "R 0":
                return None
            joined = True
            terms.append(item("LSendAll"))
            terms.append(item("LDeliverAll"))
            pos += 2
        else:
            p = res[pos].split()
            q = res[pos + 1].split()
            if q[0] != "now" or int(q[1]) != now:
                return None
            got = []
            if p[1] == "E11":
                pass
            elif p[1].isdigit():
                v = p[2:]
                if len(v) != 5 * int(p[1]):
                    return None
                for j in range(int(p[1])):
                    got.append((int(v[5 * j + 1]), int(v[5 * j + 4])))
            else:
                return None
            got.sort()
            terms.append(item("LTake" if o[0] == "t" else "LRead", got))
            pos += 2
    return "mkC29 %d %s" % (L, clist(terms))


def nontrivial(c, out):
    for part in out.split(" | "):
        p = part.split()
        if len(p) >= 2 and p[0] in ("t", "r") and p[1].isdigit() and int(p[1]) > 0:
            return case_line(c)
    return None


def distribution(cases, outs):
    d = {}
    for c, o in zip(cases, outs):
        L, rel, late, ops = c
        k = ("late-joiner" if late else ("reliable" if rel else "best-effort"))
        if any(x[0] == "hold" for x in ops):
            k += "/hold"
        d[k] = d.get(k, 0) + 1
    return d


MANIFEST = {
    "text": ("Machine-checked proof (Coq) over a model of the writer's lifespan handling composed with an adversarial "
             "network and the (check-free) reader, for all sequences of writes, worker iterations, retransmissions, "
             "deliveries, holds, reads and takes: a sample already expired at write time is never stored or sent; right "
             "after every worker iteration the history, and therefore every repair or late-joiner transmission made "
             "then, contains only unexpired changes; everything in flight, cached or presented carries the timestamp it "
             "was written with; hence no expired sample is presented on any schedule outside the recorded class (read or "
             "taken before written timestamp + lifespan). Two witnesses show the unrestricted claim is false: a datagram "
             "delivered after the lifespan is presented, and a repair between two worker iterations resends an expired "
             "change (finding C29-no-reader-side-expiry). Tied to the code by whole-stack simulation with held/released "
             "datagrams; every read/take result of the real reader is compared with the model in Coq and checked against "
             "the lifespan."),
    "note": ("Trusted: Coq kernel + vm_compute; hand model LifespanModel.v (checked by the correspondence run); harness "
             "timing.rs and the simulated network. Axioms: none. Known finding C29-no-reader-side-expiry: the reader has no "
             "lifespan check, so a sample delivered or read after source_timestamp + lifespan is presented."),
    "technique": "Coq proof (invariants over operation sequences) + whole-stack deterministic simulation compared in Coq",
}
