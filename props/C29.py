"""C29 — expired samples (lifespan) are never delivered."""
from vlib.core import cz, clist

PID = "C29"
PROPS_FILE = "Props/C29.v"
CORR = "Sched.LifespanCorr"
CORR_MODULES = ["Sched.LifespanCorr"]
PREFIX = "C29"
CASE_TYPE = "C29_case"
HARNESS = "timing"
KNOWN = {1: "C29-no-reader-side-expiry"}
RULE = ("one case = one whole-stack simulation scenario drawn from one PRNG: a writer with a finite lifespan "
        "(best-effort / reliable / transient-local with a late-joining reader), writes with current, old and future "
        "source timestamps, datagrams delivered, held back and released, clock advances around the lifespan, "
        "read/take; distinct = distinct scenario line; non-trivial = at least one sample was returned by a read/take")
TRUSTED = ["theories/Sched/LifespanModel.v is a hand model of the expired-at-write check (data_writer_entity.rs:159), "
           "remove_stale_writer_samples (discovery_methods.rs:465), (re)transmission from the writer history and a "
           "reader without lifespan check",
           "harness/src/bin/timing.rs and the in-memory network of harness/src/sim.rs (hold / release of datagrams)"]
ASSUMPTIONS = ["'never presented' is claimed only outside the recorded class C29-no-reader-side-expiry (a sample is "
               "read/taken before the timestamp it was written with + lifespan); inside the class the real reader "
               "returns expired samples",
               "the scenario family keeps datagrams in order (held datagrams are released before newer ones are "
               "delivered), so the reliable-protocol state machine is not part of this model"]

MS = 1000000
NS = 1000000000
T0 = NS
LS = [100 * MS, 200 * MS, 55 * MS, NS, 120 * MS]


def gen_case(r, big):
    L = r.choice(LS)
    late_joiner = r.random() < 0.3
    rel = 1 if late_joiner else r.choice([0, 1])
    ops = []  # (harness text, lop term or None, kind)
    now = T0 + 100 * MS
    joined = not late_joiner
    flight = 0
    held = 0
    sn = 0
    n = r.randint(4, 14 if big else 10)
    hole = False
    alive = {}  # sn -> expiry of the changes the writer history holds

    def can_join():
        live = sorted(k for k, e in alive.items() if e > now)
        return sn == 0 or (live and live == list(range(live[0], sn + 1)))

    for i in range(n):
        k = r.random()
        if k < 0.35 and sn < 200 and not hole:
            sn += 1
            q = r.random()
            ts = None
            if q < 0.2:
                ts = max(0, now - r.choice([1, L - 1, L, L + 1, L // 2, 10 * MS]))
            elif q < 0.3:
                ts = now + r.choice([1, 10 * MS, L])
            ops.append(("w", sn, ts))
            tsv = now if ts is None else ts
            if joined and tsv + L > now:
                flight += 1
            alive[sn] = tsv + L
            if tsv + L <= now:
                del alive[sn]
            if tsv + L <= now:
                # a sample dropped at write leaves a hole in the sequence numbers; what the RTPS
                # writer does with the NEXT change after a hole (GAP handling) belongs to other
                # properties: no further writes in this scenario
                hole = True
        elif k < 0.6:
            dt = max(1, r.choice([L, L // 2, L - 1, L + 1, 2 * L, 10 * MS, 50 * MS, 1]) + r.choice([0, 0, 1, -1, 1000]))
            live = [e for e in alive.values() if e > now]
            if live and r.random() < 0.3:
                # exactly to (or 1 ns around) the expiry of the oldest live change
                dt = max(1, min(live) - now + r.choice([0, 0, -1, 1]))
            ops.append(("adv", dt))
            now += dt
        elif k < 0.8:
            if not joined:
                # the late joiner must find a history without holes (what the RTPS writer sends
                # for a history with holes is the subject of other properties)
                if r.random() < 0.5 and can_join():
                    ops.append(("join",))
                    joined = True
                continue
            if held:
                ops.append(("rel",))
                flight += held
                held = 0
            if flight and r.random() < 0.4:
                ops.append(("hold", 0))
                held = flight
                flight = 0
            else:
                ops.append(("net",))
                flight = 0
        else:
            if joined:
                ops.append((r.choice(["t", "t", "r"]),))
    if not joined and can_join():
        ops.append(("join",))
        joined = True
    if not joined:
        return gen_case(r, big)
    if held:
        ops.append(("rel",))
    ops.append(("net",))
    ops.append(("t",))
    return (L, rel, late_joiner, tuple(ops))


def gen(r, tier):
    n = {"quick": 170, "search": 900, "thorough": 2500}[tier]
    return [gen_case(r, tier != "quick") for _ in range(n)]


def corpus():
    L = 200 * MS
    return [
        # D29: the DATA datagram is held for 300 ms (> lifespan) and then delivered: the reader presents it
        (L, 0, False, (("w", 1, None), ("hold", 0), ("t",), ("adv", 300 * MS), ("rel",), ("net",), ("t",))),
        (L, 1, False, (("w", 1, None), ("hold", 0), ("adv", 300 * MS), ("rel",), ("net",), ("t",))),
        # delivered in time but taken after the expiry
        (L, 1, False, (("w", 1, None), ("net",), ("adv", L), ("r",), ("adv", 1), ("t",))),
        # late joiner: the expired part of the history is not sent, the rest is
        (L, 1, True, (("w", 1, None), ("adv", 120 * MS), ("w", 2, None), ("adv", 100 * MS), ("join",), ("t",))),
        # late joiner exactly at the expiry of sample 1 (1 ns before the expiry of sample 2)
        (L, 1, True, (("w", 1, None), ("w", 2, T0 + 100 * MS + 1), ("adv", L), ("join",), ("t",))),
        # expired at write / exactly at the boundary
        (L, 0, False, (("w", 1, T0 + 100 * MS - L + 1), ("w", 2, T0 + 100 * MS - L), ("net",), ("t",))),
    ]


def case_line(c):
    L, rel, late, ops = c
    parts = ["cfg trace=0", "P 0", "P 0", "T 0 t", "T 1 t", "PUB 0", "SUB 1",
             "W 0 0 rel=%d dur=%d ls=%d" % (rel, 1 if late else 0, L)]
    if not late:
        parts.append("R 0 1 rel=%d" % rel)
    parts += ["net", "adv 100000000", "net"]
    for o in ops:
        if o[0] == "w":
            parts.append("w 0 1 %d 1%s" % (o[1], "" if o[2] is None else " %d" % o[2]))
        elif o[0] == "adv":
            parts.append("adv %d" % o[1])
        elif o[0] == "net":
            parts.append("net")
        elif o[0] == "hold":
            parts.append("fault hold ANY -1 -1 -1")
            parts.append("net")
            parts.append("fault clear")
        elif o[0] == "rel":
            parts.append("rel")
        elif o[0] == "join":
            parts.append("R 0 1 rel=1 dur=1")
            parts.append("net")
        elif o[0] in ("t", "r"):
            parts.append("%s 0 0" % o[0])
            parts.append("now")
    return " ; ".join(parts)


def parse_line(line):
    ops = [o.strip() for o in line.split(";")]
    kv = dict(x.split("=") for x in ops[7].split()[3:])
    L, rel, late = int(kv["ls"]), int(kv["rel"]), kv["dur"] == "1"
    rest = ops[8:] if late else ops[9:]
    rest = rest[3:]
    out = []
    i = 0
    while i < len(rest):
        t = rest[i].split()
        if t[0] == "w":
            out.append(("w", int(t[3]), int(t[5]) if len(t) > 5 else None))
        elif t[0] == "adv":
            out.append(("adv", int(t[1])))
        elif t[0] == "net":
            out.append(("net",))
        elif t[0] == "fault":
            out.append(("hold", 0))
            i += 2
        elif t[0] == "rel":
            out.append(("rel",))
        elif t[0] == "R":
            out.append(("join",))
            i += 1
        elif t[0] in ("t", "r"):
            out.append((t[0],))
            i += 1
        i += 1
    return (L, rel, late, tuple(out))


def case_term(c, out):
    if out.startswith(("PANIC", "ABORT", "HANG")):
        return None
    L, rel, late, ops = c
    res = [x.strip() for x in out.split(" | ")]
    pos = 8 + (0 if late else 1) + 3
    now = T0 + 100 * MS
    terms = ["(LTick 100000000, %d, [])" % now]
    joined = not late

    def item(lop, got=()):
        return "(%s, %d, %s)" % (lop, now, clist("(%d, %d)" % g for g in got))

    for o in ops:
        if pos >= len(res):
            return None
        if o[0] == "w":
            if res[pos] != "w 0":
                return None
            ts = now if o[2] is None else o[2]
            terms.append(item("LWrite %s %s" % (cz(ts), "true" if joined else "false")))
            pos += 1
        elif o[0] == "adv":
            now += o[1]
            terms.append(item("LTick %d" % o[1]))
            pos += 1
        elif o[0] == "net":
            terms.append(item("LDeliverAll"))
            pos += 1
        elif o[0] == "hold":
            terms.append(item("LHoldAll"))
            pos += 3
        elif o[0] == "rel":
            terms.append(item("LRelease"))
            pos += 1
        elif o[0] == "join":
            if res[pos] != "R 0":
                return None
            joined = True
            terms.append(item("LSendAll"))
            terms.append(item("LDeliverAll"))
            pos += 2
        else:
            p = res[pos].split()
            q = res[pos + 1].split()
            if q[0] != "now" or int(q[1]) != now:
                return None
            got = []
            if p[1] == "E11":
                pass
            elif p[1].isdigit():
                v = p[2:]
                if len(v) != 5 * int(p[1]):
                    return None
                for j in range(int(p[1])):
                    got.append((int(v[5 * j + 1]), int(v[5 * j + 4])))
            else:
                return None
            got.sort()
            terms.append(item("LTake" if o[0] == "t" else "LRead", got))
            pos += 2
    return "mkC29 %d %s" % (L, clist(terms))


def nontrivial(c, out):
    for part in out.split(" | "):
        p = part.split()
        if len(p) >= 2 and p[0] in ("t", "r") and p[1].isdigit() and int(p[1]) > 0:
            return case_line(c)
    return None


def distribution(cases, outs):
    d = {}
    for c, o in zip(cases, outs):
        L, rel, late, ops = c
        k = ("late-joiner" if late else ("reliable" if rel else "best-effort"))
        if any(x[0] == "hold" for x in ops):
            k += "/hold"
        d[k] = d.get(k, 0) + 1
    return d


MANIFEST = {
    "text": ("Machine-checked proof (Coq) over a model of the writer's lifespan handling composed with an adversarial "
             "network and the (check-free) reader, for all sequences of writes, worker iterations, retransmissions, "
             "deliveries, holds, reads and takes: a sample already expired at write time is never stored or sent; right "
             "after every worker iteration the history, and therefore every repair or late-joiner transmission made "
             "then, contains only unexpired changes; everything in flight, cached or presented carries the timestamp it "
             "was written with; hence no expired sample is presented on any schedule outside the recorded class (read or "
             "taken before written timestamp + lifespan). Two witnesses show the unrestricted claim is false: a datagram "
             "delivered after the lifespan is presented, and a repair between two worker iterations resends an expired "
             "change (finding C29-no-reader-side-expiry). Tied to the code by whole-stack simulation with held/released "
             "datagrams; every read/take result of the real reader is compared with the model in Coq and checked against "
             "the lifespan."),
    "note": ("Trusted: Coq kernel + vm_compute; hand model LifespanModel.v (checked by the correspondence run); harness "
             "timing.rs and the simulated network. Axioms: none. Known finding C29-no-reader-side-expiry: the reader has no "
             "lifespan check, so a sample delivered or read after source_timestamp + lifespan is presented."),
    "technique": "Coq proof (invariants over operation sequences) + whole-stack deterministic simulation compared in Coq",
}
