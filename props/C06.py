"""C06 — no datagram can crash, hang or exhaust a running participant.

A case = one simulated scenario (healthy peer H, victim V, discovered participant S whose
identity may be claimed; one reliable writer/reader pair each on one topic) + a list of raw
datagrams handed to V's transport receiver + the liveness probe.  The real participant's
reaction to every datagram (panic site / hang / allocation / user datagrams sent) is compared
inside Coq with the handler model (Wire/RecvModel.v) started from the measured RTPS state of
V's user-defined endpoints, and the property oracle is applied to the observations."""
import os
import random
import struct
import subprocess

from vlib import core
from vlib.core import cz
from props import c06_wire as W
from props.c06_wire import (PFX_H, PFX_V, PFX_S, PFX_U, EID_W, EID_R, EID_UNKNOWN, I64MIN, I64MAX, U32MAX)

PID = "C06"
PROPS_FILE = "Props/C06.v"
CORR = "Wire.RecvCorr"
CORR_MODULES = ["Wire.RecvCorr"]
PREFIX = "C06"
CASE_TYPE = "C06_case"
HARNESS = "c06"
KNOWN = {}   # the ten findings of this check are repaired (known_findings.json, status fixed)
RULE = ("a case is a scenario (3 simulated participants, knobs: fragment size, samples written before the injection, "
        "reliable / best-effort victim reader) plus 1..60 datagrams injected into the victim, each observed separately "
        "(PANIC file:line through a panic hook, HANG through a per-datagram watchdog, bytes requested from a counting "
        "global allocator, user datagrams the victim sends), plus the liveness probe (write/take in both directions "
        "between the healthy peer and the victim, two API calls on the victim, the worker still requests timer "
        "wake-ups); streams: uniformly random bytes, random bodies behind valid headers, structure-aware mutation of "
        "datagrams captured from the simulation (bit flips, length edits, boundary values in every numeric field, "
        "prefix and entity-id substitution), real discovery / user DATA of a discovered participant re-sent with the "
        "next sequence number and a mutated payload (reaches deserialization and matching), boundary-value datagrams "
        "of every repaired defect, and the regression corpus (every former witness + values just inside the valid "
        "range); distinct = distinct injected datagram; non-trivial = the datagram decodes to at "
        "least one submessage that addresses an existing endpoint or proxy of the victim")
TRUSTED = ["theories/Wire/RecvModel.v is a hand transcription of message_receiver.rs, the handle_data dispatch of "
           "communication_methods.rs, stateful_reader.rs, writer_proxy.rs, stateful_writer.rs, reader_proxy.rs "
           "(checked against the code on every run through the user datagrams the victim sends and the panic sites)",
           "the initial model state of a case is MEASURED from the user traffic of the set-up phase (last HEARTBEAT / "
           "ACKNACK per endpoint pair, samples delivered) by props/C06.py",
           "memory of the real code is what its global allocator is asked for (counting allocator in the harness: total, "
           "peak of live bytes and the largest single request while one datagram is handled); "
           "HANG is a 5 s (quick) / 20 s (thorough) wall-clock watchdog per datagram"]
ASSUMPTIONS = ["debug profile (overflow checks on)",
               "the theorems cover the RTPS message receiver and the stateful reader / writer handlers; DCPS processing of accepted "
               "samples (deserialization of user and discovery data, type lookup, QoS matching, listeners) is covered by the "
               "differential run only",
               "the invariant bounds the bytes of buffered fragments per writer proxy by 2^31 (nothing in the code bounds the "
               "fragment buffer of a matched writer)"]

# the harness binary the driver built (a scratch copy of the repository is built apart, see vlib.core.cargo_build)
BIN = os.path.join(core.CACHE, "target" if os.path.realpath(core.REPO) == "/repo" else "target_alt", "debug", "c06")
LIM_MS = {"quick": 5000, "search": 5000, "thorough": 20000}

# ------------------------------------------------------------------------------- decoding
def u16(b, o, be):
    return struct.unpack_from((">" if be else "<") + "H", b, o)[0]


def u32(b, o, be):
    return struct.unpack_from((">" if be else "<") + "I", b, o)[0]


def i32(b, o, be):
    return struct.unpack_from((">" if be else "<") + "i", b, o)[0]


def sn64(b, o, be):
    hi = i32(b, o, be)
    lo = u32(b, o + 4, be)
    return hi * 2**32 + lo


def bits_of(b, o, be):
    """(base-independent) numBits and the offsets set, of a number set starting at o (after the base)"""
    nb = u32(b, o, be)
    m = min(8, (nb + 31) // 32)
    if o + 4 + 4 * m > len(b):
        return None
    words = [u32(b, o + 4 + 4 * i, be) for i in range(m)] + [0] * (8 - m)
    sets = [i for i in range(min(nb, 256)) if words[i // 32] >> (31 - i % 32) & 1]
    return nb, sets, o + 4 + 4 * m


def payload_len(body, o2q, be, has_qos):
    """length of the serialized payload of a DATA / DATA_FRAG body (after the inline QoS)"""
    p = o2q
    if has_qos:
        while True:
            if p + 4 > len(body):
                return None
            pid, n = u16(body, p, be), u16(body, p + 2, be)
            p += 4
            if pid == 1:
                break
            if n % 4 != 0 or p + n > len(body):
                return None
            p += n
    return max(0, len(body) - p)


def decode(d):
    """best-effort decoding used by the generator and to measure the initial state:
    [(kind, dict)] for the submessages it understands (the Coq model has its own decoder)"""
    out = []
    src = d[8:20]
    for (_off, kind, fl, n, body) in W.split(d):
        be = not (fl & 1)
        if kind in (0x06, 0x07, 0x08, 0x12, 0x13, 0x0c):
            # these parsers are handed the whole rest of the datagram, not their own bytes only
            body = d[_off + 4:]
        try:
            if kind == 0x06:
                r = bits_of(body, 16, be)
                if r is None:
                    continue
                nb, sets, end = r
                out.append(("AN", dict(rid=body[0:4], wid=body[4:8], base=sn64(body, 8, be), nbits=nb, sets=sets,
                                       count=i32(body, end, be), src=src)))
            elif kind == 0x07:
                out.append(("HB", dict(rid=body[0:4], wid=body[4:8], first=sn64(body, 8, be), last=sn64(body, 16, be),
                                       count=i32(body, 24, be), final=bool(fl & 2), live=bool(fl & 4), src=src)))
            elif kind == 0x08:
                r = bits_of(body, 24, be)
                if r is None:
                    continue
                nb, sets, end = r
                out.append(("GP", dict(rid=body[0:4], wid=body[4:8], start=sn64(body, 8, be), base=sn64(body, 16, be),
                                       nbits=nb, sets=sets, src=src)))
            elif kind == 0x12:
                r = bits_of(body, 20, be)
                if r is None:
                    continue
                nb, sets, end = r
                out.append(("NF", dict(rid=body[0:4], wid=body[4:8], sn=sn64(body, 8, be), base=u32(body, 16, be),
                                       nbits=nb, sets=sets, count=i32(body, end, be), src=src)))
            elif kind == 0x15:
                o2q = u16(body, 2, be) + 4
                pl = payload_len(body, o2q, be, bool(fl & 2))
                if pl is None:
                    continue
                out.append(("DA", dict(rid=body[4:8], wid=body[8:12], sn=sn64(body, 12, be), plen=pl if fl & 12 else 0,
                                       qos=bool(fl & 2), src=src)))
            elif kind == 0x16:
                o2q = u16(body, 2, be) + 4
                pl = payload_len(body, o2q, be, bool(fl & 2))
                if pl is None or len(body) < 32:
                    continue
                out.append(("DF", dict(rid=body[4:8], wid=body[8:12], sn=sn64(body, 12, be), fstart=u32(body, 20, be),
                                       fcount=u16(body, 24, be), fsize=u16(body, 26, be), dsize=u32(body, 28, be),
                                       plen=pl, qos=bool(fl & 2), src=src)))
            elif kind == 0x0c:
                src = body[8:20]
                out.append(("IS", dict(prefix=src)))
            elif kind == 0x0f:
                out.append(("IR", {}))
            elif kind == 0x13:
                out.append(("HF", dict(rid=body[0:4], wid=body[4:8], count=i32(body, 20, be), src=src)))
        except struct.error:
            continue
    return out


GAP_LIMIT = 65536


# ------------------------------------------------------------------ measured initial state
def measure(log, knobs):
    """model state of V's user reader and writer from the user traffic of the set-up phase.
    log: [(from, to, bytes)]"""
    frag = knobs.get("frag", 1344)
    prefixes = [PFX_H, PFX_V, PFX_S]
    wps = []
    for x, pfx in enumerate(prefixes):
        first, last, high, hb, an = 1, 0, 0, 0, 0
        for (fr, to, b) in log:
            subs = decode(b)
            if fr == x and to == 1:
                for k, f in subs:
                    if k == "HB" and f["wid"] == EID_W and f["count"] > hb:
                        hb, first, last = f["count"], f["first"], f["last"]
                    if k in ("DA", "DF") and f["wid"] == EID_W:
                        high = max(high, f["sn"])   # the set-up phase delivers every sample completely
            if fr == 1 and to == x:
                for k, f in subs:
                    if k == "AN" and f["wid"] == EID_W and f["rid"] == EID_R:
                        an = max(an, f["count"])
        wps.append(dict(guid=pfx + EID_W, first=first, last=last, high=high, hb=hb, an=an, nf=an))
    changes = {}
    rps = []
    for x, pfx in enumerate(prefixes):
        acked, an = 0, 0
        for (fr, to, b) in log:
            subs = decode(b)
            if fr == 1:
                for k, f in subs:
                    if k == "DA" and f["wid"] == EID_W:
                        changes[f["sn"]] = f["plen"]
                    if k == "DF" and f["wid"] == EID_W:
                        changes[f["sn"]] = f["dsize"]
            if fr == x and to == 1:
                for k, f in subs:
                    if k == "AN" and f["wid"] == EID_W and f["rid"] == EID_R and f["count"] > an:
                        an = f["count"]
                        acked = max(acked, f["base"] - 1)
        rps.append(dict(guid=pfx + EID_R, sent=max(changes) if changes else 0, acked=acked, an=an,
                        rel=(knobs.get("rel", 1) == 1) if x == 1 else True))
    return dict(wps=wps, rps=rps, changes=sorted(changes.items()), frag=frag, rel=knobs.get("rel", 1))


def cl(b):
    return "[" + ";".join(str(x) for x in b) + "]"


def state_term(m):
    wps = "; ".join("mk_wp %s %s %s %s false %s 0 %s %s []" % (cl(p["guid"]), cz(p["first"]), cz(p["last"]), cz(p["high"]),
                                                                cz(p["hb"]), cz(p["an"]), cz(p["nf"])) for p in m["wps"])
    rps = "; ".join("mk_rp %s %s %s %s %s 0 0" % (cl(p["guid"]), "true" if p["rel"] else "false", cz(p["sent"]), cz(p["acked"]), cz(p["an"]))
                    for p in m["rps"])
    chs = "; ".join("mk_ch %d %d true" % (s, n) for s, n in m["changes"])
    return "(mk_ps [mk_sr %s %s true [%s]] [mk_sw %s [%s] %d [%s]])" % (
        cl(EID_R), "true" if m["rel"] == 1 else "false", wps, cl(EID_W), chs, m["frag"], rps)


# -------------------------------------------------------------------------------- harness I/O
SITE_FILES = {"rtps/message_receiver.rs": 1, "dcps/dcps_domain_participant/communication_methods.rs": 2,
              "rtps/stateful_reader.rs": 3, "rtps/writer_proxy.rs": 4, "rtps/stateful_writer.rs": 5,
              "rtps_messages/submessage_elements.rs": 6, "xtypes/deserializer.rs": 7}


def site_code(s):
    # /repo/dds/src/<file>:<line>
    path, _, line = s.rpartition(":")
    rel = path.split("/dds/src/")[-1]
    f = SITE_FILES.get(rel)
    if f is None or not line.isdigit():
        return 0
    return f * 10000 + int(line)


def parse_out(out):
    """-> (log, obs list, probe) or None"""
    parts = [p.strip() for p in out.split(" | ")]
    if not parts or not parts[0].startswith("LOG"):
        return None
    log = []
    for t in parts[0].split()[1:]:
        h, hx = t.split(":")
        fr, to = h.split(">")
        if to.endswith("m"):
            continue
        log.append((int(fr), int(to), bytes.fromhex(hx) if hx != "-" else b""))
    obs = []
    probe = 2
    for p in parts[1:]:
        t = p.split()
        if not t:
            continue
        if t[0].startswith("D") and t[0][1:].isdigit():
            if len(t) >= 7 and t[1] == "OK":
                sent = [] if t[6] == "-" else [bytes.fromhex(x) for x in t[6].split(",")]
                # ("ok", peak, sent, total, micros, largest single request)
                obs.append(("ok", int(t[3]), sent, int(t[2]), int(t[5]), int(t[4])))
                rest = t[7:]
            else:
                rest = t[1:]
            if rest:
                if rest[0] == "PANIC":
                    obs.append(("panic", site_code(rest[1] if len(rest) > 1 else ""), rest[1] if len(rest) > 1 else ""))
                elif rest[0] == "HANG":
                    obs.append(("hang",))
                elif rest[0] == "OOM":
                    obs.append(("oom", int(rest[1]) if len(rest) > 1 and rest[1].isdigit() else 0))
                else:
                    return None
        elif t[0] == "PROBE":
            if "PANIC" in t or "HANG" in t or "OOM" in t or "ABORT" in t:
                probe = 0
            else:
                kv = dict(x.split("=") for x in t[1:] if "=" in x)
                probe = 1 if all(kv.get(k) == "1" for k in ("hv", "vh", "api", "wake")) else 0
        elif t[0] == "END":
            pass
        else:
            return None
    return log, obs, probe


def chunks(b):
    # long list literals overflow Coq's stack: pieces of at most 1500 bytes
    return "[" + "; ".join("L %s" % cl(b[i:i + 1500]) for i in range(0, len(b), 1500)) + "]"


def case_line(c):
    knobs, dgrams = c[0], c[1]
    return " ".join("%s=%d" % kv for kv in sorted(knobs.items())) + " | " + " ".join(d.hex() if d else "00" for d in dgrams)


def parse_line(line):
    k, _, d = line.partition("|")
    knobs = {}
    for t in k.split():
        a, b = t.split("=")
        knobs[a] = int(b)
    return (knobs, [bytes.fromhex(x) for x in d.split()], "replay")


def case_term(c, out):
    knobs, dgrams = c[0], c[1]
    r = parse_out(out)
    if r is None:
        return None
    log, obs, probe = r
    if len(obs) > len(dgrams):
        return None
    init = state_term(measure(log, knobs))
    ot = []
    for o in obs:
        if o[0] == "ok":
            ot.append("OOk %d %d [%s]" % (o[1], o[5], "; ".join(cl(x) for x in o[2])))
        elif o[0] == "panic":
            ot.append("OPanic %d" % o[1])
        elif o[0] == "hang":
            ot.append("OHang")
        else:
            ot.append("OOom %d" % o[1])
    return "mkC06 %s [%s] [%s] %d" % (init, "; ".join(chunks(d if d else b"\0") for d in dgrams), "; ".join(ot), probe)


# ------------------------------------------------------------------------------- generators
def capture(knobs):
    """real datagrams of a set-up phase (user traffic and metatraffic)"""
    line = " ".join("%s=%d" % kv for kv in sorted(dict(knobs, cap=1).items())) + " |"
    try:
        o = subprocess.run([BIN], input=line + "\n", capture_output=True, text=True, timeout=120).stdout
    except (OSError, subprocess.TimeoutExpired):
        return []
    res = []
    for t in o.split():
        if ">" in t and ":" in t:
            h, hx = t.split(":")
            if hx != "-":
                res.append((h, bytes.fromhex(hx)))
    return res


def rsn(r):
    k = r.random()
    if k < 0.45:
        return r.choice([0, 1, 2, 3, 4, 5, 7, 100, 255, 256, 257, 65535, 65536, 65537])
    if k < 0.75:
        return r.choice([-1, -2, I64MIN + 1, I64MIN + 2, I64MAX - 1, I64MAX - 2, I64MAX - 255, I64MAX - 256, I64MAX - 257,
                         2**31 - 1, 2**31, 2**32 - 1, 2**32, 2**32 + 1, 2**62, -2**62, 1 << 40])
    return r.randint(I64MIN + 1, I64MAX - 1)


def rcount(r):
    return r.choice([0, 1, 2, 5, 100, 2**31 - 1, -1, -2**31]) if r.random() < 0.7 else r.randint(-2**31, 2**31 - 1)


def rbits(r):
    k = r.random()
    if k < 0.3:
        return []
    if k < 0.6:
        return sorted(r.sample(range(256), r.randint(1, 6)))
    if k < 0.8:
        return list(range(r.choice([1, 31, 32, 33, 255, 256])))
    return [r.choice([0, 31, 32, 255])]


def rprefix(r):
    return r.choice([PFX_S, PFX_S, PFX_S, PFX_V, PFX_U])


def reid(r, default):
    k = r.random()
    if k < 0.75:
        return default
    if k < 0.85:
        return EID_UNKNOWN
    if k < 0.93:
        return r.choice([W.EID_SPDP_W, W.EID_SPDP_R, W.EID_PUB_W, W.EID_PUB_R, W.EID_SUB_W, W.EID_SUB_R, W.EID_TOP_W, W.EID_TOP_R,
                         bytes([0, 3, 0, 0xc3]), bytes([0, 3, 0, 0xc4]), bytes([0, 3, 1, 0xc3]), bytes([0, 3, 1, 0xc4])])
    return bytes([r.randint(0, 255) for _ in range(4)])


def clean_sub(r, be=False):
    """one well-formed submessage with adversarial field values (mostly inside the ranges RTPS
    declares valid; hostile_dgram() produces the others)"""
    k = r.random()
    rid_r, wid_w = reid(r, EID_R), reid(r, EID_W)
    if k < 0.16:
        first = rsn(r)
        return W.heartbeat(rid_r, wid_w, first, rsn(r), rcount(r), final=r.random() < 0.5, live=r.random() < 0.3, be=be)
    if k < 0.30:
        base = rsn(r)
        start = base - r.choice([0, 1, 2, 10, 255, 1000, GAP_LIMIT, -1, -5, -2**40]) if r.random() < 0.9 else rsn(r)
        if start < I64MIN or start > I64MAX:
            start = base
        bits = [b for b in rbits(r) if base + b < I64MAX]
        return W.gap(rid_r, wid_w, start, base, bits, nbits=r.choice([None, 256, 0, len(bits)]) if not bits else None, be=be)
    if k < 0.46:
        base = rsn(r)
        bits = [b for b in rbits(r) if base + b < I64MAX]
        return W.acknack(rid_r, wid_w, base, bits, rcount(r), final=r.random() < 0.5, be=be)
    if k < 0.60:
        s = rsn(r)
        pl = W.keyed_payload(r.randint(0, 255), bytes(r.randint(0, 255) for _ in range(r.choice([0, 1, 3, 8, 40]))),
                             rep=r.choice([(0, 1), (0, 0), (0, 7), (0, 3), (0, 9), (0, 11), (1, 2), (255, 255)]))
        if r.random() < 0.3:
            pl = pl[:r.randint(0, len(pl))]
        qos = None
        if r.random() < 0.4:
            qos = [(r.choice([0x70, 0x71, 0x15, 0x02, 0x7fff, 0x8000]), bytes(r.randint(0, 255) for _ in range(r.choice([0, 4, 16, 20]))))
                   for _ in range(r.randint(0, 3))]
        return W.data(rid_r, wid_w, s, pl, qos=qos, key=r.random() < 0.15, be=be)
    if k < 0.74:
        s = rsn(r)
        plen = r.choice([0, 1, 4, 8, 16, 64])
        fsize = r.choice([0, 1, 2, 4, 8, 16, 64, 65535])
        fcount = r.randint(0, plen + 1)
        dsize = r.choice([0, 1, plen, 2 * plen, 3 * plen + 1, 65535, U32MAX, 2**31])
        return W.data_frag(rid_r, wid_w, s, r.choice([0, 1, 2, 3, 255, U32MAX]), fcount, fsize, dsize,
                           bytes(r.randint(0, 255) for _ in range(plen)), qos=[(0x70, bytes(16))] if r.random() < 0.3 else None, be=be)
    if k < 0.84:
        base = r.choice([0, 1, 2, 3, 100, U32MAX - 256, 2**31])
        bits = [b for b in rbits(r) if base + b <= U32MAX]
        return W.nack_frag(rid_r, wid_w, rsn(r), base, bits, rcount(r), be=be)
    if k < 0.89:
        return W.heartbeat_frag(rid_r, wid_w, rsn(r), r.choice([0, 1, U32MAX]), rcount(r), be=be)
    if k < 0.93:
        return W.info_ts(r.choice([0, 1, U32MAX, 2**31]), r.choice([0, 1, U32MAX]), invalidate=r.random() < 0.3, be=be)
    if k < 0.96:
        return W.info_src(rprefix(r), be=be)
    if k < 0.98:
        return W.info_dst(rprefix(r), be=be)
    return W.pad()


def clean_dgram(r):
    subs = [clean_sub(r, be=r.random() < 0.15) for _ in range(r.choice([1, 1, 1, 2, 3, 6]))]
    return W.msg(rprefix(r), *subs)


def hostile_dgram(r):
    """boundary values of the repaired defects in one datagram (claiming S, V or nobody)"""
    pfx = rprefix(r)
    k = r.randrange(10)
    c = rcount(r)
    if k == 0:
        sub = W.info_reply([W.locator()] * r.choice([0, 1, 3]), multicast=[W.locator()] if r.random() < 0.5 else None)
    elif k == 1:
        base = r.choice([2**62, I64MAX, 1 << 40, I64MAX - 1])
        sub = W.gap(EID_R, EID_W, r.choice([I64MIN, 0, 1, -5]), base, [b for b in rbits(r)])
    elif k == 2:
        sub = W.gap(EID_R, EID_W, I64MAX - 300, I64MAX - r.choice([0, 1, 3, 255, 256]), rbits(r) or [0])
    elif k == 3:
        sub = W.acknack(EID_R, EID_W, I64MAX - r.choice([0, 1, 10, 255]), rbits(r) or [0, 255], c)
    elif k == 4:
        sub = W.acknack(EID_R, EID_W, r.choice([I64MIN, I64MIN + 1, 0, -1]), rbits(r), c)
    elif k == 5:
        sub = W.heartbeat(EID_R, EID_W, r.choice([I64MIN, 0, -1, I64MAX, 1]), r.choice([I64MAX, I64MIN, 0, 5]), c,
                          final=r.random() < 0.5, live=r.random() < 0.3)
    elif k == 6:
        sub = W.data(EID_R, EID_W, r.choice([I64MAX, I64MAX - 1]), W.keyed_payload(1, b"abc"))
    elif k == 7:
        sub = W.nack_frag(EID_R, EID_W, r.choice([I64MAX, I64MAX - 1, 1]), r.choice([1, U32MAX - 255, 0]), rbits(r) or [0], c)
    elif k == 8:
        n = r.choice([1, 5, 30])
        return W.msg(pfx, *[W.data_frag(EID_R, EID_W, 1, i + 1, r.choice([65535, 2, 3]), 1, 65535 * n, b"x") for i in range(n)])
    else:
        sub = W.data_frag(EID_R, EID_W, r.choice([I64MAX, 1, 2]), 1, r.choice([0, 1, 2, 65535]), r.choice([0, 1, 8]), r.choice([0, 8, U32MAX]), bytes(8))
    return W.msg(pfx, sub)


def forged_frags(r, sn, pfx=None, nsub=None):
    """the consistent-forged-DATA_FRAG family: 1..3 DATA_FRAGs of one sample whose counts pass the
    completeness test (sum of fragmentsInSubmessage == ceil(dataSize / fragmentSize), fragment 1
    present, fragmentsInSubmessage <= payload bytes + 1) while fragmentSize / dataSize announce far
    more than is carried; returns one datagram"""
    pfx = pfx or PFX_S
    nsub = nsub or r.choice([1, 1, 2, 3])
    counts = [r.choice([1, 2, 7, 100, 1000, 4000]) for _ in range(nsub)]
    if sum(len(W.keyed_payload(0, b"")) + c for c in counts) > 60000:
        counts = [min(c, 1000) for c in counts]
    total = sum(counts)
    fsize = r.choice([65535, 65535, 65534, 32768, 4096, 9, 8, 1])
    dsize = min(U32MAX, total * fsize - r.choice([0, 0, 1, fsize - 1]))
    if dsize <= (total - 1) * fsize:
        dsize = total * fsize
    subs = []
    start = 1
    for c in counts:
        n = r.choice([c, c, c - 1]) if c > 1 else c      # payload bytes: fragmentsInSubmessage <= n + 1
        subs.append(W.data_frag(EID_R, EID_W, sn, start, c, fsize, dsize, bytes(r.getrandbits(8) for _ in range(max(0, n))),
                                qos=[(0x70, bytes(16))] if r.random() < 0.3 else None))
        start += c
    if r.random() < 0.3:
        r.shuffle(subs)
    return W.msg(pfx, *subs)


def guided(lim=6000):
    """model-guided datagrams: one list per Panic / cost branch the handler model had BEFORE the
    repairs (former class, datagram list): regression cases, every one must now be harmless.
    (They claim S or V, never the healthy peer: a GAP or DATA in the peer's name legitimately
    changes what the victim expects from it.)"""
    S, V, H = PFX_S, PFX_V, PFX_S
    g = []
    kp = W.keyed_payload(1, b"abc")
    for pfx in (PFX_U, S, V):
        g.append((1, [W.msg(pfx, W.info_reply([W.locator()]))]))
    g.append((1, [W.msg(S, W.heartbeat(EID_R, EID_W, 1, 0, 3), W.info_reply([], multicast=[]))]))
    g.append((2, [W.msg(S, W.gap(EID_R, EID_W, 1, 2**62))]))
    g.append((2, [W.msg(V, W.gap(EID_R, EID_W, I64MIN, I64MAX))]))
    g.append((3, [W.msg(S, W.gap(EID_R, EID_W, I64MAX - 3, I64MAX - 3, bits=[10]))]))
    g.append((3, [W.msg(S, W.acknack(EID_R, EID_W, I64MAX - 1, bits=[5], count=9))]))
    g.append((3, [W.msg(S, W.acknack(EID_R, EID_W, I64MAX - 10, bits=[10], count=9))]))
    g.append((3, [W.msg(S, W.gap(EID_R, EID_W, I64MAX, I64MAX, bits=[0])), W.msg(S, W.data(EID_R, EID_W, 5, kp))]))
    g.append((3, [W.msg(V, W.gap(EID_R, EID_W, I64MAX - 255, I64MAX - 255, bits=[255])), W.msg(PFX_U, W.heartbeat(EID_R, EID_W, 1, 1, 1))]))
    g.append((4, [W.msg(S, W.acknack(EID_R, EID_W, I64MIN, count=9))]))
    g.append((4, [W.msg(V, W.acknack(EID_R, EID_W, I64MIN, bits=[0], count=9))]))
    g.append((5, [W.msg(S, W.heartbeat(EID_R, EID_W, I64MIN, 5, 7))]))
    g.append((5, [W.msg(S, W.heartbeat(EID_R, EID_W, I64MIN, 0, 7, final=True)), W.msg(S, W.data(EID_R, EID_W, 1, kp))]))
    g.append((5, [W.msg(H, W.heartbeat(EID_R, EID_W, I64MIN, 0, 2**31 - 1, final=True, live=True)),
                  W.msg(H, W.data(EID_R, EID_W, 2, kp))]))
    g.append((6, [W.msg(S, W.heartbeat(EID_R, EID_W, I64MAX, I64MAX, 7, final=True)), W.msg(S, W.data(EID_R, EID_W, I64MAX, kp)),
                  W.msg(S, W.data(EID_R, EID_W, 3, kp))]))
    g.append((6, [W.msg(S, W.nack_frag(EID_R, EID_W, I64MAX, 1, bits=[0], count=3))]))
    g.append((6, [W.msg(S, W.heartbeat(EID_R, EID_W, I64MAX, I64MAX, 7, final=True)),
                  W.msg(S, W.data_frag(EID_R, EID_W, I64MAX, 1, 1, 8, 8, bytes(8))), W.msg(S, W.heartbeat(EID_R, EID_W, 1, 1, 9))]))
    # a captured SEDP topic DATA of S, next sequence number, dependent type-id count = 0x02000000..:
    # Vec::with_capacity(1.6 GB) in the XTypes deserializer (class 9)
    g.append((9, [bytes.fromhex(
        "52545053020401140506070801020304020000000e010c000506070801020304010000000901080001000000000000001507c80000001000000002c7000002"
        "c20000000002000000700010000506070801020304020000000000000a01000000000300005a0010000506070801020304020000000000000a0500080002"
        "00000074000000070010000a0000004b657965644461746100000075005c0058000000011000502400000014000000f120745494de5bc8cf80fffdee7b14"
        "0041000000000000000400000000000000021000502400000014000000f2e81d3ca72c46508965a1e6896d97006400000000000000040000000000000201"
        "00000007011c00000002c7000002c20000000001000000000000000100000001000000")]))
    # the same datagram with a harmless length, EMHEADER length code 6 and NEXTINT 0x40000001: 4 * NEXTINT
    d9 = g[-1][1][0].hex().replace("040000000000000201", "040000000000000001")
    g.append((10, [bytes.fromhex(d9.replace("0110005024000000", "0110006001000040", 1))]))
    n = 600 if lim <= 6000 else 1300
    g.append((7, [W.msg(S, *[W.data_frag(EID_R, EID_W, 1, i + 1, 65535, 1, 65535 * n, b"x") for i in range(n)])]))
    return g


def neighbours():
    """just OUTSIDE every class: must be handled without any failure"""
    S = PFX_S
    kp = W.keyed_payload(1, b"abc")
    return [
        W.msg(S, W.gap(EID_R, EID_W, 1, 1 + GAP_LIMIT)),
        W.msg(S, W.gap(EID_R, EID_W, I64MAX - 300, I64MAX - 256, bits=[254])),
        W.msg(S, W.acknack(EID_R, EID_W, I64MIN + 1, count=50)),
        W.msg(S, W.acknack(EID_R, EID_W, I64MAX - 256, bits=[0, 254], count=51)),
        W.msg(S, W.heartbeat(EID_R, EID_W, I64MIN + 1, I64MAX, 60)),
        W.msg(S, W.heartbeat(EID_R, EID_W, I64MAX, I64MAX, 61)),
        W.msg(S, W.heartbeat(EID_R, EID_W, 1, I64MAX, 62, final=True)),
        W.msg(S, W.data(EID_R, EID_W, I64MAX - 1, kp)),
        W.msg(S, W.nack_frag(EID_R, EID_W, I64MAX - 1, 1, bits=[0], count=70)),
        W.msg(S, W.nack_frag(EID_R, EID_W, 1, U32MAX - 255, bits=[255], count=71)),
        W.msg(S, W.data_frag(EID_R, EID_W, 1, 1, 9, 1, 8, bytes(8))),
        W.msg(S, W.data_frag(EID_R, EID_W, 1, 1, 0, 0, 8, bytes(8))),
        W.msg(S, W.heartbeat_frag(EID_R, EID_W, 1, U32MAX, 2**31 - 1)),
        W.msg(S, W.info_ts(U32MAX, U32MAX), W.info_src(PFX_V), W.info_dst(PFX_U), W.pad(), W.heartbeat(EID_R, EID_W, 1, 0, 80)),
    ]


def mutate(r, d):
    """structure-aware mutation of a real datagram (datagrams of the healthy peer are first
    re-labelled as coming from S: claiming the identity of the peer used by the liveness probe
    can legitimately disturb that session, e.g. a GAP makes the reader skip samples)"""
    if d[8:20] == PFX_H:
        d = d[:8] + PFX_S + d[20:]
    subs = W.split(d)
    k = r.random()
    if subs and k < 0.55:
        off, kind, fl, n, body = r.choice(subs)
        fields = W.FIELDS.get(kind)
        if fields:
            f = r.choice(fields)
            vals = W.BOUNDARY[f[1]]
            return W.set_field(d, off, f, r.choice(vals) if r.random() < 0.8 else r.getrandbits(8 * f[1]))
    if subs and k < 0.65:
        off, kind, fl, n, body = r.choice(subs)   # length field edit
        v = r.choice([0, 1, 4, 8, n - 1, n + 1, n + 4, 0xffff, max(0, n - 4)]) & 0xffff
        be = not (fl & 1)
        return d[:off + 2] + struct.pack((">" if be else "<") + "H", v) + d[off + 4:]
    if k < 0.75 and len(d) > 20:   # prefix substitution
        return d[:8] + rprefix(r) + d[20:]
    if k < 0.85 and len(d) > 24:   # bit flips
        b = bytearray(d)
        for _ in range(r.choice([1, 1, 2, 4])):
            i = r.randrange(20, len(b))
            b[i] ^= 1 << r.randrange(8)
        return bytes(b)
    if k < 0.92 and len(d) > 24:   # truncate
        return d[:r.randint(20, len(d))]
    if subs:                       # duplicate / drop / swap a submessage
        i = r.randrange(len(subs))
        off = subs[i][0]
        end = subs[i + 1][0] if i + 1 < len(subs) else len(d)
        return d[:end] + d[off:end] + d[end:] if r.random() < 0.5 else d[:off] + d[end:]
    return d


def random_dgram(r):
    k = r.random()
    if k < 0.35:
        return bytes(r.getrandbits(8) for _ in range(r.choice([0, 1, 19, 20, 24, 64, 200])))
    if k < 0.75:   # valid header, random submessage headers over random bodies
        b = W.header(rprefix(r))
        for _ in range(r.randint(1, 6)):
            n = r.choice([0, 4, 8, 12, 24, 28, 32, 60])
            kind = r.choice([0x01, 0x06, 0x07, 0x08, 0x09, 0x0c, 0x0e, 0x12, 0x13, 0x15, 0x16, r.randrange(256)])
            if kind == 0x0f:
                kind = 0x0e
            if kind in (0x15, 0x16) and n == 0:
                n = 24
            b += bytes([kind, r.randrange(256)]) + struct.pack("<H", n) + bytes(r.getrandbits(8) for _ in range(n))
        return b
    return W.header(rprefix(r)) + bytes(r.getrandbits(8) for _ in range(r.choice([4, 8, 40, 300])))


def payload_span(d, off, fl, body):
    """(start, end) in d of the serialized payload of the DATA submessage at off"""
    be = not (fl & 1)
    o2q = u16(body, 2, be) + 4
    pl = payload_len(body, o2q, be, bool(fl & 2))
    if pl is None:
        return None
    end = off + 4 + len(body)
    return end - pl, end


def deep_dgram(r, real_meta, real_user, seq):
    """a REAL discovery / user DATA datagram of S re-sent with the next expected sequence number and
    a mutated payload: reaches the DCPS code behind the readers (deserialization, matching)"""
    src = r.choice(real_meta if (real_meta and r.random() < 0.7) else (real_user or real_meta))
    d = src
    if d[8:20] == PFX_H:
        d = d[:8] + PFX_S + d[20:]
    subs = [x for x in W.split(d) if x[1] == 0x15]
    if not subs:
        return None
    off, kind, fl, n, body = subs[0]
    be = not (fl & 1)
    wid = bytes(body[8:12])
    span = payload_span(d, off, fl, body)
    if span is None or span[1] - span[0] < 4:
        return None
    # sequence number: the next one this writer proxy expects (SPDP is stateless: any)
    k = seq.get(wid, 1) + 1
    seq[wid] = k
    d = W.set_field(d, off, (12, 8, "sn"), k)
    b = bytearray(d)
    a, e = span
    # PID_TYPE_INFORMATION (0x75) is decoded by the XTypes deserializer, whose with_capacity(wire
    # length) is a recorded finding: most mutations stay out of it so that the rest is explored too
    avoid = []
    if d[a:a + 2] in (b"\x00\x03", b"\x00\x02"):
        q = a + 4
        while q + 4 <= e:
            pid, n = struct.unpack_from("<HH", d, q)
            if pid == 1:
                break
            if pid == 0x75:
                avoid.append((q, q + 4 + n))
            q += 4 + n
    tinfo = r.random() < 0.12
    for _ in range(r.choice([0, 1, 1, 2, 3, 6])):
        m = r.random()
        i = r.randrange(a, e)
        if not tinfo and any(x <= i < y or x <= i + 3 < y for x, y in avoid):
            continue
        if m < 0.35:
            b[i] ^= 1 << r.randrange(8)
        elif m < 0.6:
            v = r.choice([0, 1, 0xff, 0x7f, 0x80])
            b[i] = v
        elif m < 0.85 and i + 4 <= e:
            i -= (i - a) % 4
            b[i:i + 4] = struct.pack("<I", r.choice([0, 1, 2, 0xffffffff, 0x7fffffff, 0x80000000, 0xffff, 0x10000, 256, e - i, e - i - 4, e - i + 1]))
        elif i + 2 <= e:
            i -= (i - a) % 2
            b[i:i + 2] = struct.pack("<H", r.choice([0, 1, 4, 0xffff, 0x7fff, 0x8000, 0x3f01, 0x3f02, 0x0075, 0x0072]))
    if r.random() < 0.1:
        b = b[:r.randint(a, e)]
    # announcing the GUID of the healthy peer (or of the victim) with other locators redirects that
    # peer's traffic: identity spoofing through discovery data is a matter of DDS-Security, not of
    # robustness, and would make the liveness probe fail for a reason outside this property
    if PFX_H in bytes(b[a:]) or PFX_V in bytes(b[a:]):
        return None
    return bytes(b)


_CAPTURE = {}


def captured(knobs):
    key = tuple(sorted(knobs.items()))
    if key not in _CAPTURE:
        _CAPTURE[key] = capture(knobs)
    return _CAPTURE[key]


def rknobs(r):
    return dict(frag=r.choice([1344, 1344, 64, 16]), a=r.choice([1, 2, 3]), m=r.choice([0, 1, 2, 3]), j=r.choice([0, 0, 1, 2]),
                rel=1 if r.random() < 0.8 else 0)


def gen(r, tier):
    ncases, per = {"quick": (48, 40), "search": (160, 40), "thorough": (800, 60)}[tier]
    lim = LIM_MS[tier]
    cases = []
    cap = captured(dict(frag=64, a=2, m=2, j=1, rel=1))
    real = [b for (h, b) in cap if len(b) >= 20]
    real_user = [b for (h, b) in cap if not h.endswith("m")]
    real_meta_s = [b for (h, b) in cap if h == "2>1m" and any(x[1] == 0x15 for x in W.split(b))]
    real_user_s = [b for (h, b) in cap if h == "2>1" and any(x[1] == 0x15 for x in W.split(b))]
    for i in range(ncases):
        knobs = rknobs(r)
        knobs["lim"] = lim
        knobs["probe"] = 1
        ds = []
        deep = (i % 4 == 3)           # every fourth case: mostly datagrams that reach the DCPS code
        seq = {EID_W: knobs["j"]}
        while len(ds) < per:
            k = r.random()
            if deep and k < 0.8:
                d = deep_dgram(r, real_meta_s, real_user_s, seq)
                if d is None:
                    continue
            elif k < 0.36:
                d = clean_dgram(r)
            elif k < 0.44:
                d = hostile_dgram(r)
            elif k < 0.50:
                # expected sequence number for a reliable reader (S wrote j samples, each forged sample
                # that completes moves it on); anything at or above it for a best-effort reader
                d = forged_frags(r, seq[EID_W] + 1 if knobs["rel"] == 1 or r.random() < 0.5 else seq[EID_W] + r.choice([2, 5, 1000]),
                                 pfx=r.choice([PFX_S, PFX_S, PFX_V]))
                if d[8:20] == PFX_S:
                    seq[EID_W] += 1
            elif k < 0.78 and real:
                d = mutate(r, r.choice(real_user if (real_user and r.random() < 0.6) else real))
                if r.random() < 0.3:
                    d = mutate(r, d)
            else:
                d = random_dgram(r)
            if len(d) == 0:
                continue
            ds.append(d)
        cases.append((knobs, ds, "gen"))
    return cases


def corpus():
    base = dict(frag=1344, a=1, m=1, j=0, rel=1, lim=5000)
    S = PFX_S
    nack1 = [W.msg(S, W.data_frag(EID_R, EID_W, 1, 1, 1, 0, 8, bytes(8))),        # fragment size 0: ignored
             W.msg(S, W.data_frag(EID_R, EID_W, 1, 1, 2, 8, 8, bytes(8))),        # every fragment number buffered, count sum 2 <> 1
             W.msg(S, W.heartbeat(EID_R, EID_W, 1, 1, 5)),                         # -> ACKNACK + NACK_FRAG(base 1, {})
             W.msg(S, W.data_frag(EID_R, EID_W, 1, 2, 1, 8, 8, bytes(1))),
             W.msg(S, W.heartbeat(EID_R, EID_W, 1, 2, 6, final=True)),
             W.msg(S, W.data(EID_R, EID_W, 1, W.keyed_payload(3, b"xyz"))),     # the sample arrives unfragmented: buffer cleared
             W.msg(S, W.heartbeat(EID_R, EID_W, 1, 300, 7))]                       # -> ACKNACK base 2 with 256 members
    nack2 = [W.msg(S, W.data_frag(EID_R, EID_W, 1, 300, 1, 1, 70000, b"z")),      # 70000 fragments expected, number 300 buffered
             W.msg(S, W.heartbeat(EID_R, EID_W, 1, 1, 5)),                         # -> NACK_FRAG(base 1, 1..256)
             W.msg(S, W.data_frag(EID_R, EID_W, 1, 1, 1, 1, 70000, b"a")),
             W.msg(S, W.data_frag(EID_R, EID_W, 1, 2, 1, 1, 70000, b"b")),
             W.msg(S, W.heartbeat(EID_R, EID_W, 1, 1, 6)),                         # -> NACK_FRAG(base 3, 3..258)
             W.msg(S, W.nack_frag(EID_R, EID_W, 1, 1, bits=[0, 1, 5], count=4)),   # to V's writer: fragment requests
             W.msg(S, W.acknack(EID_R, EID_W, 1, bits=[0, 1, 2], count=40)),       # -> DATA 1 resent, GAP for 2 and 3
             W.msg(S, W.acknack(EID_R, EID_W, 1, bits=[0, 1, 2], count=40)),       # duplicate count: ignored
             W.msg(S, W.nack_frag(EID_R, EID_W, 1, 1, bits=[0], count=4))]         # duplicate count: ignored
    cs = [(dict(base, probe=1), neighbours(), "neighbours"),
          (dict(base, probe=1, rel=0, j=1), neighbours(), "neighbours-be"),
          (dict(base, probe=1), nack1, "nack-frag-1"),
          (dict(base, probe=1, frag=16), nack2, "nack-frag-2")]
    # consistent forged fragments: little payload, extreme fragment_size / data_size (the reassembly
    # buffer must be sized by what was received, not by what is announced)
    rr = random.Random("C06-forged")
    forged = [W.msg(S, W.data_frag(EID_R, EID_W, 1, 1, 1000, 65535, 65535000, bytes(1000))),
              W.msg(S, W.data_frag(EID_R, EID_W, 2, 1, 1, 65535, 65535, b"a")),
              W.msg(S, W.data_frag(EID_R, EID_W, 3, 1, 2, 65535, 131070, b"ab"), W.data_frag(EID_R, EID_W, 3, 3, 3, 65535, 327675, b"cde")),
              W.msg(S, W.data_frag(EID_R, EID_W, 3, 3, 3, 65535, 327675, b"cde"), W.data_frag(EID_R, EID_W, 3, 1, 2, 65535, 327675, b"ab")),
              W.msg(S, W.data_frag(EID_R, EID_W, 4, 1, 60000, 65535, 3932100000, bytes(59999)))]
    cs.append((dict(base, probe=1), forged + [forged_frags(rr, 5 + i) for i in range(12)], "forged-frags-reliable"))
    cs.append((dict(base, probe=1, rel=0, frag=64),
               [W.msg(S, W.data_frag(EID_R, EID_W, 7, 1, 1000, 65535, 65535000, bytes(1000))),
                W.msg(S, W.data_frag(EID_R, EID_W, 1000, 1, 4000, 65535, 262140000, bytes(3999)))] +
               [forged_frags(rr, 2000 + 3 * i) for i in range(12)], "forged-frags-best-effort"))
    # the datagrams that panicked / hung / exhausted the participant before the repairs
    for c, ds in guided(base["lim"]):
        cs.append((dict(base, probe=1), ds, "former-class-%d" % c))
    return cs


def nontrivial(c, out):
    r = parse_out(out)
    if r is None:
        return None
    keys = []
    for d in c[1]:
        for k, f in decode(d):
            if k in ("HB", "GP", "DA", "DF", "HF") and f["wid"] == EID_W and f["src"] in (PFX_S, PFX_V, PFX_H):
                keys.append(d)
                break
            if k in ("AN", "NF") and f["rid"] == EID_R and f["src"] in (PFX_S, PFX_V, PFX_H):
                keys.append(d)
                break
    return tuple(keys) if keys else None


def distribution(cases, outs):
    d = {"datagrams": 0}
    for c, o in zip(cases, outs):
        r = parse_out(o)
        d["datagrams"] += len(c[1])
        if r is None:
            d["unparsed"] = d.get("unparsed", 0) + 1
            continue
        log, obs, probe = r
        d["handled"] = d.get("handled", 0) + len(obs)
        for ob in obs:
            if ob[0] != "ok":
                k = ob[0] + (":" + ob[2].split("/dds/src/")[-1] if ob[0] == "panic" else "")
                d[k] = d.get(k, 0) + 1
            elif ob[2]:
                d["answered"] = d.get("answered", 0) + 1
        d["probe=%d" % probe] = d.get("probe=%d" % probe, 0) + 1
    return d


MANIFEST = {
    "text": ("Machine-checked proof (Coq) over a model of the receive path after decoding — MessageReceiver, the handle_data "
             "dispatch, the stateful reader / writer-proxy and stateful writer / reader-proxy handlers — composed with the "
             "RTPS decoder model of C07/C08 (code after the repairs): for EVERY participant state satisfying the invariant and "
             "EVERY byte string the handlers return (no panic), keep the invariant (all histories of datagrams by induction), "
             "add at most 26 bytes per datagram byte to any fragment buffer, touch only the proxies of the participants the "
             "datagram speaks for, and the sender-chosen loop count is bounded (quadratically in the buffered fragments: "
             "partial w.r.t. 'linear'). The model is tied to the code by injecting thousands of random, mutated, "
             "discovery-payload and boundary-value datagrams into a simulated running participant and comparing panic sites, "
             "hangs and every reply datagram with the model inside Coq; the oracle (no panic, no hang, allocation <= 64 x "
             "length + 256 KiB, liveness probe between healthy peer and victim) is applied to the real observations. Ten "
             "defects found by this check (INFO_REPLY todo!(), GAP range loop, five sequence-number overflow families, "
             "fragment reassembly cost, with_capacity(wire length) and EMHEADER overflow in the XTypes deserializer reached "
             "through discovery data) are repaired; their witnesses are regression cases."),
    "note": ("PARTIAL: the theorems cover the RTPS receiver and reader/writer handlers (plus the decoder through C07); DCPS "
             "processing of accepted samples (XCDR / discovery-data deserialization, type lookup, QoS matching, regex of "
             "partitions), the OS/socket layer and the allocator are covered by the differential run only. Debug profile "
             "(release builds wrap instead of panicking). Out of scope: identity spoofing through discovery data (a DATA "
             "announcing another participant's GUID with other locators redirects that participant's traffic) is a matter "
             "of DDS-Security, the generator avoids it. Axioms: none."),
    "technique": "Coq proof (invariant + induction over submessages and datagrams) + whole-stack simulation differential run with oracle evaluated in Coq",
}
