"""C09 — XCDR serialization round-trips every value of every supported type.
Also the shared type/value generator and Coq printers used by C10."""
from vlib.core import cz

PID = "C09"
PROPS_FILE = "Props/C09.v"
CORR = "Xcdr.XcdrCorr"
CORR_MODULES = ["Xcdr.XcdrCorr"]
PREFIX = "C09"
CASE_TYPE = "C09_case"
HARNESS = "c09"
# classes 1 (C09-char8-utf8), 2 (C09-float128-xcdr1-align), 3 (C09-xcdr1-optional-rewind), 6
# (C09-xcdr1-pid-overflow) and the collection part of 5 (C09-zero-size-values) were repaired in /repo
# (c6ffb24, 0b5427b, addc370, 2cf9289, 8422ab4)
KNOWN = {4: "C09-stage3-mutable-union", 5: "C09-xcdr1-empty-optional"}
RULE = ("one case = a run-time built DynamicType + DynamicData serialized by the real serializer "
        "(XCDR1/XCDR2 x LE/BE) and the produced bytes deserialized by the real deserializer; bytes and decoded "
        "value are compared with the Coq encoder/decoder, the round-trip oracle is applied to the implementation's "
        "output; distinct = distinct input line; non-trivial = serialization succeeded and the value has >= 2 "
        "storage nodes")
TRUSTED = ["theories/Xcdr/XcdrModel.v is a hand transcription of xtypes/serializer.rs and deserializer.rs "
           "(rule by rule) over DynamicType/DynamicData of dynamic_type.rs and data_storage.rs",
           "serializer.rs/deserializer.rs are pub(crate): the harness compiles the two unchanged source files of "
           "/repo into the harness binary via #[path] against the public dust_dds::xtypes API"]
ASSUMPTIONS = ["floats are compared as raw bits (DataStorage's PartialEq makes NaN != NaN)",
               "a char8 value is one octet 0..255 (ISO 8859-1): DataStorage::Char8 holds a Rust char, the serializer "
               "truncates a char above U+00FF to its low byte; such values are outside `wt` (generated as ill-typed cases)",
               "collections and strings are shorter than 2^32 (the u32 length fields)",
               "member ids are distinct within a type; union case ids are > 0 (id 0 is the discriminator)",
               "types are limited to what the code implements: BITMASK, BITSET, MAP, CHAR16, ALIAS, ANNOTATION and "
               "collections of collections are todo!() in serializer.rs/deserializer.rs and outside `wf_ty`",
               "round trip is claimed outside the known-finding classes only (see known_findings.json)"]

PRIMS = ["b", "y", "u8", "i8", "u16", "i16", "u32", "i32", "u64", "i64", "f32", "f64", "f128", "c8"]
PRIM_COQ = {"b": "PBool", "y": "PByte", "u8": "PU8", "i8": "PI8", "u16": "PU16", "i16": "PI16", "u32": "PU32",
            "i32": "PI32", "u64": "PU64", "i64": "PI64", "f32": "PF32", "f64": "PF64", "f128": "PF128", "c8": "PChar8"}
# storage kind of a primitive type
PRIM_SK = {"b": "b", "y": "u8", "u8": "u8", "i8": "i8", "u16": "u16", "i16": "i16", "u32": "u32", "i32": "i32",
           "u64": "u64", "i64": "i64", "f32": "f32", "f64": "f64", "f128": "f128", "c8": "c8"}
SK_COQ = {"u8": "KU8", "i8": "KI8", "u16": "KU16", "i16": "KI16", "i32": "KI32", "u32": "KU32", "i64": "KI64",
          "u64": "KU64", "f32": "KF32", "f64": "KF64", "f128": "KF128", "c8": "KChar8", "b": "KBool"}
RANGE = {"u8": (0, 255), "i8": (-128, 127), "u16": (0, 65535), "i16": (-32768, 32767), "u32": (0, 2**32 - 1),
         "i32": (-2**31, 2**31 - 1), "u64": (0, 2**64 - 1), "i64": (-2**63, 2**63 - 1), "f32": (0, 2**32 - 1),
         "f64": (0, 2**64 - 1), "f128": (-2**127, 2**127 - 1), "b": (0, 1)}
EXT_COQ = {"F": "Final", "A": "Appendable", "M": "Mutable"}

# ----------------------------------------------------------------------------- generation

def rprim(r, sk, ascii_only=False):
    if sk == "c8":
        if ascii_only or r.random() < 0.93:
            return r.choice([0, 1, 65, 97, 126, 127]) if r.random() < 0.5 else r.randint(0, 127)
        # 128..255 are char8 values; above U+00FF the value is ill-typed (truncated by the serializer)
        return r.choice([128, 233, 255, 200, 254, 256, 0x20AC, 0x1F600])
    lo, hi = RANGE[sk]
    k = r.random()
    if k < 0.35:
        return r.choice([lo, hi, 0, 1, hi - 1, lo + 1, (lo + hi) // 2, 0x01020304 & hi, 0x0102030405060708 & hi])
    if k < 0.55:
        return max(lo, min(hi, r.randint(-300, 300)))
    return r.randint(lo, hi)


SCALARS = [0, 65, 97, 122, 127, 128, 0xE9, 0x7FF, 0x800, 0x20AC, 0xD7FF, 0xE000, 0xFFFF, 0x10000, 0x1F600, 0x10FFFF]


def rstr(r):
    k = r.random()
    n = 0 if k < 0.15 else r.choice([1, 2, 3, 4, 5, 7, 8, 17]) if k < 0.95 else r.choice([63, 300])
    if r.random() < 0.6:
        return [r.randint(32, 126) for _ in range(n)]
    return [r.choice(SCALARS) if r.random() < 0.5 else r.randint(0, 0xD7FF) for _ in range(n)]


def rlen(r):
    k = r.random()
    return 0 if k < 0.15 else r.choice([1, 2, 3]) if k < 0.8 else r.choice([4, 5, 8, 17]) if k < 0.985 else 300


def gen_enum(r):
    h = r.choice(["i8", "i16", "i32", "i32"])
    lo, hi = RANGE[h]
    n = r.randint(1, 4)
    labels = []
    while len(labels) < n:
        x = r.choice([0, 1, 2, 3, 5, 10, lo, hi, -1]) if r.random() < 0.8 else r.randint(lo, hi)
        if x not in labels:
            labels.append(x)
    return ("E", h, labels)


def gen_ids(r, n, lo=0):
    k = r.random()
    if k < 0.6:
        return list(range(lo, lo + n))
    if k < 0.8:
        base = r.choice([lo, 1, 10, 100, 16383, 65535, 2**28 - 1 - n])
        return [max(lo, base) + i for i in range(n)]
    out = []
    while len(out) < n:
        x = r.choice([0, 1, 2, 3, 7, 20, 255, 256, 16384, 65536, 2**28 - 1]) if r.random() < 0.7 else r.randint(0, 2**28 - 1)
        if x >= lo and x not in out:
            out.append(x)
    return out


def gen_elem(r, depth, stage):
    k = r.random()
    if k < 0.55 or depth <= 0:
        return ("p", r.choice(PRIMS))
    if k < 0.68:
        return ("s",) if r.random() < 0.6 else ("w",)
    if k < 0.75:
        return gen_enum(r)
    if k < 0.93 or stage < 3:
        return gen_struct(r, depth - 1, stage)
    return gen_union(r, depth - 1, stage)


def gen_member_type(r, depth, stage):
    k = r.random()
    if k < 0.42:
        return ("p", r.choice(PRIMS))
    if k < 0.52:
        return ("s",) if r.random() < 0.65 else ("w",)
    if k < 0.57:
        return gen_enum(r)
    if k < 0.72:
        return ("Q", gen_elem(r, depth, stage))
    if k < 0.82:
        return ("A", rlen(r), gen_elem(r, depth, stage))
    if depth <= 0:
        return ("p", r.choice(PRIMS))
    if k < 0.95 or stage < 3:
        return gen_struct(r, depth - 1, stage)
    return gen_union(r, depth - 1, stage)


def gen_ext(r, stage):
    if stage == 1:
        return "F"
    if stage == 2:
        return r.choice(["F", "A", "A"])
    return r.choice(["F", "A", "M", "M"])


def gen_struct(r, depth, stage, ext=None):
    n = r.choice([0, 1, 1, 2, 2, 3, 3, 4, 5, 6])
    ids = gen_ids(r, n)
    ms = []
    for i in range(n):
        flags = 0
        if stage >= 2 and r.random() < 0.25:
            flags |= 1
        if r.random() < 0.15:
            flags |= 2
        if r.random() < 0.15:
            flags |= 4
        ms.append((ids[i], flags, gen_member_type(r, depth, stage)))
    return ("S", ext or gen_ext(r, stage), ms)


def gen_union(r, depth, stage):
    disc = ("p", r.choice(["y", "u8", "i8", "u16", "i16", "i32", "i32", "u32"]))
    lo, hi = RANGE[PRIM_SK[disc[1]]]
    hi = min(hi, 2**31 - 1)
    n = r.randint(1, 4)
    ids = gen_ids(r, n, lo=1)
    used = []
    cs = []
    has_default = False
    for i in range(n):
        labels = []
        for _ in range(r.choice([1, 1, 1, 2, 0])):
            x = r.choice([0, 1, 2, 3, 10, hi, lo]) if r.random() < 0.8 else r.randint(lo, hi)
            if x not in used:
                used.append(x)
                labels.append(x)
        dflt = (not has_default) and (not labels or r.random() < 0.2)
        has_default = has_default or dflt
        cs.append((ids[i], 4 if r.random() < 0.1 else 0, 1 if dflt else 0, labels, gen_member_type(r, depth, stage)))
    return ("U", gen_ext(r, stage), disc, cs)


def gen_value(r, t):
    k = t[0]
    if k == "p":
        sk = PRIM_SK[t[1]]
        return ("p", sk, rprim(r, sk))
    if k in ("s", "w"):
        return ("s", rstr(r))
    if k == "E":
        return ("d", [(0, ("p", t[1], r.choice(t[2])))])
    if k in ("Q", "A"):
        n = rlen(r) if k == "Q" else t[1]
        e = t[-1]
        if e[0] == "p":
            sk = PRIM_SK[e[1]]
            ascii_only = r.random() < 0.8
            return ("q", sk, [rprim(r, sk, ascii_only) for _ in range(n)])
        if e[0] in ("s", "w"):
            return ("qs", [rstr(r) for _ in range(n)])
        return ("qd", [gen_value(r, e)[1] for _ in range(n)])
    if k == "S":
        d = []
        for (mid, flags, mt) in t[2]:
            if flags & 1 and r.random() < 0.45:
                continue
            d.append((mid, gen_value(r, mt)))
        return ("d", sorted(d, key=lambda x: x[0]))
    if k == "U":
        disc, cs = t[2], t[3]
        # choose a case, then a discriminator value selecting it
        order = list(range(len(cs)))
        r.shuffle(order)
        for i in order:
            (cid, flags, dflt, labels, ct) = cs[i]
            if labels:
                dv = r.choice(labels)
            elif dflt:
                lo, hi = RANGE[PRIM_SK[disc[1]]]
                all_labels = [x for c in cs for x in c[3]]
                cand = [x for x in [0, 1, 2, 3, 4, 5, 77, hi, lo] if x not in all_labels and lo <= x <= hi]
                if not cand:
                    continue
                dv = r.choice(cand)
            else:
                continue
            return ("d", [(0, ("p", PRIM_SK[disc[1]], dv)), (cid, gen_value(r, ct))])
        return ("d", [(0, ("p", PRIM_SK[disc[1]], 0))])
    raise ValueError(t)


def count_nodes(v):
    k = v[0]
    if k == "d":
        return 1 + sum(count_nodes(x) for _, x in v[1])
    if k == "qd":
        return 1 + sum(count_nodes(("d", d)) for d in v[1])
    if k in ("q", "qs"):
        return 1 + len(v[-1])
    return 1


def mutate_value(r, v):
    """an ill-typed variant: drop a member or change a scalar's storage kind (top level only)"""
    d = list(v[1])
    if not d:
        return ("d", [(0, ("p", "u8", 1))])
    i = r.randrange(len(d))
    if r.random() < 0.5:
        del d[i]
    else:
        mid, x = d[i]
        if x[0] == "p":
            nk = r.choice([k for k in ["u8", "i32", "u64", "b"] if k != x[1]])
            lo, hi = RANGE[nk]
            d[i] = (mid, ("p", nk, max(lo, min(hi, x[2]))))
        else:
            d[i] = (mid, ("p", "u8", 7))
    return ("d", d)


def mutate_enum(r, t, v):
    """an enumeration member holding a value that is no literal of the type (the reader must reject it)"""
    d = list(v[1])
    for i, (mid, x) in enumerate(d):
        mt = [m[2] for m in t[2] if m[0] == mid]
        if mt and mt[0][0] == "E" and x[0] == "d" and x[1]:
            lo, hi = RANGE[mt[0][1]]
            cand = [c for c in [7, 4, 11, hi - 1, lo + 2] if c not in mt[0][2] and lo <= c <= hi]
            if cand:
                d[i] = (mid, ("d", [(0, ("p", mt[0][1], r.choice(cand)))]))
                return ("d", d)
    return None


def has_nested_nonfinal(t, top=True):
    k = t[0]
    if k in ("Q", "A"):
        return has_nested_nonfinal(t[-1], False)
    if k == "S":
        return (t[1] != "F" and not top) or any(has_nested_nonfinal(m[2], False) for m in t[2])
    if k == "U":
        return True
    return False


def est_size(v):
    k = v[0]
    if k == "p":
        return 16 if v[1] == "f128" else 8
    if k == "s":
        return 8 + 4 * len(v[1])
    if k == "d":
        return 8 + sum(est_size(x) for _, x in v[1])
    if k == "q":
        return 8 + len(v[2]) * (16 if v[1] == "f128" else 8 if v[1] in ("u64", "i64", "f64") else 4)
    if k == "qs":
        return 8 + sum(8 + 4 * len(x) for x in v[1])
    if k == "qd":
        return 8 + sum(est_size(("d", d)) for d in v[1])
    return 8


def anyt(p, t):
    if p(t):
        return True
    k = t[0]
    if k in ("Q", "A"):
        return anyt(p, t[-1])
    if k == "S":
        return any(anyt(p, m[2]) for m in t[2])
    if k == "U":
        return anyt(p, t[2]) or any(anyt(p, m[4]) for m in t[3])
    return False


def may_be_empty(t):
    """an element of this type may consume no input (the reader then loops `length` times for free)"""
    k = t[0]
    if k == "S":
        # an appendable structure swallows NotEnoughData: at the end of the buffer it reads as empty
        return t[1] in ("A", "M") or all((m[1] & 1) or may_be_empty(m[2]) for m in t[2])
    if k == "A":
        return t[1] == 0 or may_be_empty(t[2])
    if k == "U":
        return t[1] == "M"
    return False


def misparse_prone(ver, t, v):
    """classes in which the real reader is known to lose its position: a misparsed length over
    zero-progress elements makes the real code spin for 2^32 iterations"""
    if stage_of(t) == 3:
        return True
    return False


def risky(ver, t, v):
    return misparse_prone(ver, t, v) and anyt(lambda x: x[0] in ("Q", "A") and may_be_empty(x[-1]), t)


def phase_cases(r):
    """Primitive collections at every alignment phase: a sequence (empty / non-empty) or a zero-length
    array of every primitive kind, preceded by 0..7 one-byte members and followed by a member of varying
    width, XCDR1/XCDR2, LE/BE; for the 8-byte and 16-byte kinds also nested, appendable and mutable.
    (rule (11) applies rule (2) -- the only ALIGN -- once per ELEMENT: an empty sequence has no padding)"""
    out = []
    big = ["u64", "i64", "f64", "f128"]
    followers = ["u8", "u16", "u32", "u64"]
    encs = [(1, "le"), (1, "be"), (2, "le"), (2, "be")]
    k = 0
    for p in PRIMS:
        for phase in range(8):
            for kind in ("empty", "some", "arr0"):
                if kind == "arr0" and p not in big:
                    continue
                pre = [(i, 0, ("p", "u8")) for i in range(phase)]
                ct = ("A", 0, ("p", p)) if kind == "arr0" else ("Q", ("p", p))
                fol = followers[(phase + k) % 4]
                k += 1
                t = ("S", "F", pre + [(10, 0, ct), (11, 0, ("p", fol))])
                sk = PRIM_SK[p]
                n = 0 if kind != "some" else r.choice([1, 2, 3])
                d = [(i, ("p", "u8", r.randint(1, 255))) for i in range(phase)]
                d += [(10, ("q", sk, [rprim(r, sk, True) for _ in range(n)])), (11, ("p", fol, rprim(r, fol)))]
                v = ("d", d)
                if p in big:
                    sel = encs if kind != "arr0" else encs[:2]
                else:
                    sel = [encs[(phase + k) % 4], encs[(phase + k + 2) % 4]]
                for ver, end in sel:
                    out.append(("rt", ver, end, t, v))
    # nested / appendable / mutable carriers of an empty sequence of a wide primitive
    for p in big:
        sk = PRIM_SK[p]
        for phase in (0, 2, 4, 6):
            pre = [(i, 0, ("p", "u8")) for i in range(phase)]
            dpre = [(i, ("p", "u8", 7)) for i in range(phase)]
            inner_ms = pre + [(10, 0, ("Q", ("p", p))), (11, 0, ("p", "u32"))]
            inner_v = ("d", dpre + [(10, ("q", sk, [])), (11, ("p", "u32", 42))])
            for ext in ("F", "A", "M"):
                inner = ("S", ext, inner_ms)
                outer = ("S", "F", [(0, 0, ("p", "u32")), (1, 0, inner), (2, 0, ("p", "u16"))])
                ov = ("d", [(0, ("p", "u32", 1)), (1, inner_v), (2, ("p", "u16", 2))])
                for ver, end in ((1, "le"), (1, "be"), (2, "le")):
                    out.append(("rt", ver, end, inner, inner_v))
                    out.append(("rt", ver, end, outer, ov))
    return out


def gen(r, tier):
    n = {"quick": 3300, "search": 9000, "thorough": 12000}[tier]
    cases = []
    # systematic part: every primitive after every misaligning prefix, all four encodings
    for p in PRIMS:
        for pre in ["u8", "u16", "u32", "u64"]:
            t = ("S", "F", [(0, 0, ("p", pre)), (1, 0, ("p", p)), (2, 0, ("p", "u8")), (3, 0, ("Q", ("p", p)))])
            for ver in (1, 2):
                for end in ("le", "be"):
                    v = gen_value(r, t)
                    cases.append(("rt", ver, end, t, v))
    cases += phase_cases(r)
    while len(cases) < n:
        k = r.random()
        stage = 1 if k < 0.55 else 2 if k < 0.82 else 3
        depth = r.choice([0, 1, 1, 2, 2, 3])
        if stage == 3 and r.random() < 0.15:
            t = gen_union(r, depth, stage)
        elif r.random() < 0.04:
            t = gen_enum(r)
        else:
            t = gen_struct(r, depth, stage)
        v = gen_value(r, t)
        if count_nodes(v) > 700 or est_size(v) > 3000:
            continue
        ver = r.choice([1, 2])
        end = r.choice(["le", "be"])
        if risky(ver, t, v):
            continue
        q = r.random()
        if q < 0.05 and t[0] == "S":
            mv = mutate_enum(r, t, v) if r.random() < 0.5 else None
            cases.append(("rt", ver, end, t, mv or mutate_value(r, v)))
        elif q < 0.14 and not has_nested_nonfinal(t):
            cases.append(("rtt", r.choice([1, 2, 3, 4, 5, 8, 13]), ver, end, t, v))
        else:
            cases.append(("rt", ver, end, t, v))
    return cases


def corpus():
    S = lambda ext, ms: ("S", ext, ms)
    P = lambda k: ("p", k)
    pv = lambda k, x: ("p", k, x)
    out = []
    # regression cases of the two repaired defects (c6ffb24 char8, 0b5427b float128), then the
    # minimal witnesses of the recorded findings
    out.append(("rt", 1, "le", S("F", [(0, 0, P("u64")), (1, 0, P("f128"))]), ("d", [(0, pv("u64", 7)), (1, pv("f128", 9))])))
    out.append(("rt", 1, "le", S("F", [(0, 0, P("c8")), (1, 0, P("u8"))]), ("d", [(0, pv("c8", 233)), (1, pv("u8", 9))])))
    out.append(("rt", 1, "le", S("F", [(0, 1, P("i32")), (1, 0, P("i32"))]), ("d", [(0, pv("i32", 5)), (1, pv("i32", 77))])))
    out.append(("rt", 1, "be", S("F", [(0, 1, P("u8")), (1, 0, P("u64")), (2, 1, P("u64"))]), ("d", [(0, pv("u8", 1)), (1, pv("u64", 2))])))
    out.append(("rt", 1, "le", S("A", [(0, 1, S("F", [(0, 0, P("u8")), (1, 0, P("u64"))])), (1, 1, ("s",)), (2, 0, P("u16"))]),
                ("d", [(0, ("d", [(0, pv("u8", 1)), (1, pv("u64", 5))])), (2, pv("u16", 3))])))
    # regression cases of 8422ab4 (zero-size elements) and 2cf9289 (id beyond the short header), witness of class 5
    out.append(("rt", 2, "be", S("F", [(0, 0, P("u64")), (1, 0, ("A", 2, S("F", [(0, 0, S("F", []))])))]),
                ("d", [(0, pv("u64", 0)), (1, ("qd", [[(0, ("d", []))], [(0, ("d", []))]]))])))
    out.append(("rt", 1, "le", S("F", [(0, 1, S("F", [])), (1, 0, P("u8"))]), ("d", [(0, ("d", [])), (1, pv("u8", 1))])))
    out.append(("rt", 1, "le", S("F", [(49152, 5, P("u8"))]), ("d", [(49152, pv("u8", 1))])))
    out.append(("rt", 2, "le", S("M", [(0, 0, ("Q", P("i32"))), (1, 0, P("i32"))]),
                ("d", [(0, ("q", "i32", [7, 1])), (1, pv("i32", 77))])))
    out.append(("rt", 1, "le", S("M", [(0, 0, P("u64"))]), ("d", [(0, pv("u64", 9))])))
    out.append(("rt", 2, "le", S("F", [(0, 0, S("M", [(0, 0, P("i32"))])), (1, 0, P("i32"))]),
                ("d", [(0, ("d", [(0, pv("i32", 5))])), (1, pv("i32", 77))])))
    # empty sequence of an 8-byte primitive whose length ends at 4 mod 8 (XCDR1): no padding after the length
    out.append(("rt", 1, "le", S("F", [(0, 0, ("Q", P("f64"))), (1, 0, P("u32"))]), ("d", [(0, ("q", "f64", [])), (1, pv("u32", 42))])))
    out.append(("rt", 1, "be", S("F", [(0, 0, P("u64")), (1, 0, S("F", [(0, 0, ("Q", P("u64"))), (1, 0, P("u32"))]))]),
                ("d", [(0, pv("u64", 1)), (1, ("d", [(0, ("q", "u64", [])), (1, pv("u32", 42))]))])))
    # the unit-test shapes of serializer.rs
    out.append(("rt", 2, "be", S("F", [(0, 0, P("u16")), (1, 0, P("u64")), (2, 0, P("u32"))]),
                ("d", [(0, pv("u16", 7)), (1, pv("u64", 9)), (2, pv("u32", 10))])))
    out.append(("rt", 1, "be", S("A", [(0, 0, ("s",)), (1, 0, ("Q", ("s",)))]),
                ("d", [(0, ("s", [104, 105])), (1, ("qs", [[97], []]))])))
    return out

# ------------------------------------------------------------------------------- text forms

def type_text(t):
    k = t[0]
    if k == "p":
        return t[1]
    if k in ("s", "w"):
        return k
    if k == "E":
        return "E %s %d %s" % (t[1], len(t[2]), " ".join(str(x) for x in t[2]))
    if k == "Q":
        return "Q " + type_text(t[1])
    if k == "A":
        return "A %d %s" % (t[1], type_text(t[2]))
    if k == "S":
        return "S %s %d %s" % (t[1], len(t[2]), " ".join("%d %d %s" % (i, f, type_text(mt)) for i, f, mt in t[2]))
    if k == "U":
        return "U %s %s %d %s" % (t[1], type_text(t[2]), len(t[3]), " ".join(
            "%d %d %d %d %s %s" % (i, f, d, len(ls), " ".join(str(x) for x in ls), type_text(mt))
            for i, f, d, ls, mt in t[3]))
    raise ValueError(t)


def utf8_hex(s):
    b = "".join(chr(c) for c in s).encode("utf-8", "surrogatepass")
    return b.hex() if b else "-"


def value_text(v):
    k = v[0]
    if k == "p":
        return "p%s %d" % (v[1], v[2])
    if k == "s":
        return "s " + utf8_hex(v[1])
    if k == "d":
        return "d " + data_text(v[1])
    if k == "q":
        return "q%s %d %s" % (v[1], len(v[2]), " ".join(str(x) for x in v[2]))
    if k == "qs":
        return "qs %d %s" % (len(v[1]), " ".join(utf8_hex(s) for s in v[1]))
    if k == "qd":
        return "qd %d %s" % (len(v[1]), " ".join(data_text(d) for d in v[1]))
    raise ValueError(v)


def data_text(d):
    return "%d %s" % (len(d), " ".join("%d %s" % (i, value_text(x)) for i, x in d))


class Toks:
    def __init__(self, s):
        self.t = s.split()
        self.i = 0

    def next(self):
        x = self.t[self.i]
        self.i += 1
        return x

    def int(self):
        return int(self.next())


def parse_type(tk):
    k = tk.next()
    if k in PRIMS:
        return ("p", k)
    if k in ("s", "w"):
        return (k,)
    if k == "E":
        h = tk.next()
        n = tk.int()
        return ("E", h, [tk.int() for _ in range(n)])
    if k == "Q":
        return ("Q", parse_type(tk))
    if k == "A":
        n = tk.int()
        return ("A", n, parse_type(tk))
    if k == "S":
        e = tk.next()
        n = tk.int()
        ms = []
        for _ in range(n):
            i = tk.int()
            f = tk.int()
            ms.append((i, f, parse_type(tk)))
        return ("S", e, ms)
    if k == "U":
        e = tk.next()
        disc = parse_type(tk)
        n = tk.int()
        cs = []
        for _ in range(n):
            i = tk.int()
            f = tk.int()
            d = tk.int()
            nl = tk.int()
            ls = [tk.int() for _ in range(nl)]
            cs.append((i, f, d, ls, parse_type(tk)))
        return ("U", e, disc, cs)
    raise ValueError(k)


def hex_scalars(h):
    if h == "-":
        return []
    return [ord(c) for c in bytes.fromhex(h).decode("utf-8")]


def parse_value(tk):
    k = tk.next()
    if k == "s":
        return ("s", hex_scalars(tk.next()))
    if k == "d":
        return ("d", parse_data(tk))
    if k == "qs":
        n = tk.int()
        return ("qs", [hex_scalars(tk.next()) for _ in range(n)])
    if k == "qd":
        n = tk.int()
        return ("qd", [parse_data(tk) for _ in range(n)])
    if k.startswith("p"):
        return ("p", k[1:], tk.int())
    if k.startswith("q"):
        n = tk.int()
        return ("q", k[1:], [tk.int() for _ in range(n)])
    raise ValueError(k)


def parse_data(tk):
    n = tk.int()
    d = []
    for _ in range(n):
        i = tk.int()
        d.append((i, parse_value(tk)))
    return d


def case_line(c):
    if c[0] == "rt":
        return "rt %d %s %s | %s" % (c[1], c[2], type_text(c[3]), value_text(c[4]))
    if c[0] == "rtt":
        return "rtt %d %d %s %s | %s" % (c[1], c[2], c[3], type_text(c[4]), value_text(c[5]))
    if c[0] == "dec":
        return "dec %s | %s" % (type_text(c[1]), bytes(c[2]).hex() or "-")
    raise ValueError(c)


def parse_line(line):
    head, tail = line.split("|", 1)
    tk = Toks(head)
    op = tk.next()
    if op == "rt":
        ver = tk.int()
        end = tk.next()
        t = parse_type(tk)
        return ("rt", ver, end, t, parse_value(Toks(tail)))
    if op == "rtt":
        cut = tk.int()
        ver = tk.int()
        end = tk.next()
        t = parse_type(tk)
        return ("rtt", cut, ver, end, t, parse_value(Toks(tail)))
    if op == "dec":
        t = parse_type(tk)
        h = tail.strip()
        return ("dec", t, list(bytes.fromhex(h)) if h != "-" else [])
    return None

# ------------------------------------------------------------------------------- Coq terms

def cbool(b):
    return "true" if b else "false"


def zl(xs):
    return "[" + ";".join(cz(x) for x in xs) + "]"


def minfo_term(i, flags, dflt=0, labels=()):
    return "(mkM %d %s %s %s %s %s)" % (i, cbool(flags & 1), cbool(flags & 2), cbool(flags & 4), cbool(dflt), zl(labels))


def ty_term(t):
    k = t[0]
    if k == "p":
        return "(TPrim %s)" % PRIM_COQ[t[1]]
    if k == "s":
        return "TStr"
    if k == "w":
        return "TWStr"
    if k == "E":
        return "(TEnum %s %s)" % (PRIM_COQ[t[1]], zl(t[2]))
    if k == "Q":
        return "(TSeq %s)" % ty_term(t[1])
    if k == "A":
        return "(TArr %d %s)" % (t[1], ty_term(t[2]))
    if k == "S":
        return "(TStruct %s [%s])" % (EXT_COQ[t[1]], "; ".join("(%s, %s)" % (minfo_term(i, f), ty_term(mt)) for i, f, mt in t[2]))
    if k == "U":
        return "(TUnion %s %s [%s])" % (EXT_COQ[t[1]], ty_term(t[2]), "; ".join(
            "(%s, %s)" % (minfo_term(i, f, d, ls), ty_term(mt)) for i, f, d, ls, mt in t[3]))
    raise ValueError(t)


def val_term(v):
    k = v[0]
    if k == "p":
        return "(VP %s %s)" % (SK_COQ[v[1]], cz(v[2]))
    if k == "s":
        return "(VStr %s)" % zl(v[1])
    if k == "d":
        return "(VData %s)" % data_term(v[1])
    if k == "q":
        return "(VSeqP %s %s)" % (SK_COQ[v[1]], zl(v[2]))
    if k == "qs":
        return "(VSeqStr [%s])" % ";".join(zl(s) for s in v[1])
    if k == "qd":
        return "(VSeqData [%s])" % ";".join(data_term(d) for d in v[1])
    raise ValueError(v)


def data_term(d):
    return "[" + ";".join("(%d, %s)" % (i, val_term(x)) for i, x in d) + "]"


def dec_term(tokens):
    """tokens after `S hex` / for dec ops: D d ... | E code | P  ->  res val term"""
    if tokens[0] == "P":
        return "(Panic 0)"
    if tokens[0] == "E":
        return "(Err %s)" % tokens[1]
    if tokens[0] == "D":
        tk = Toks(" ".join(tokens[1:]))
        return "(Ok %s)" % val_term(parse_value(tk))
    return None


def hexbytes(h):
    return [] if h == "-" else list(bytes.fromhex(h))


def op_term(c):
    ver = "V%d" % c[1]
    end = c[2].upper()
    return "Rt %s %s %s %s" % (ver, end, ty_term(c[3]), val_term(c[4]))


def case_term(c, out):
    p = out.split()
    if not p:
        return None
    try:
        if c[0] == "rt":
            op = op_term(c)
            if p[0] == "S":
                d = dec_term(p[2:])
                if d is None:
                    return None
                return "mkC09 (%s) (OSer %s %s)" % (op, zl(hexbytes(p[1])), d)
            if p[0] == "SE":
                return "mkC09 (%s) (OSerFail (Err %s))" % (op, p[1])
            if p[0] == "SP":
                return "mkC09 (%s) (OSerFail (Panic 0))" % op
            if p[0] == "ABORT":
                return "mkC09 (%s) OAbort" % op
            return None
        if c[0] == "rtt":
            if p[0] != "T":
                # serialization failed: same as a plain round trip
                return case_term(("rt",) + tuple(c[2:]), out)
            d = dec_term(p[2:])
            if d is None:
                return None
            return "mkC09 (Dec %s %s) (ODec %s)" % (ty_term(c[4]), zl(hexbytes(p[1])), d)
        if c[0] == "dec":
            d = dec_term(p)
            if d is None:
                return None
            return "mkC09 (Dec %s %s) (ODec %s)" % (ty_term(c[1]), zl(c[2]), d)
    except (ValueError, IndexError, UnicodeDecodeError):
        return None
    return None


def nontrivial(c, out):
    if c[0] == "rt" and out.startswith("S ") and count_nodes(c[4]) >= 2:
        return case_line(c)
    if c[0] == "rtt" and out.startswith("T "):
        return case_line(c)
    return None


def stage_of(t):
    if anyt(lambda x: x[0] == "U" or (x[0] == "S" and x[1] == "M"), t):
        return 3
    if anyt(lambda x: x[0] == "S" and (x[1] == "A" or any(m[1] & 1 for m in x[2])), t):
        return 2
    return 1


def distribution(cases, outs):
    d = {}
    for c, o in zip(cases, outs):
        if c[0] == "rt":
            res = o.split()
            tag = "ok" if res and res[0] == "S" and "D" in res[2:3] else "decfail" if res and res[0] == "S" else "serfail"
            k = "rt/xcdr%d/%s/S%d/%s" % (c[1], c[2], stage_of(c[3]), tag)
        else:
            k = c[0]
        d[k] = d.get(k, 0) + 1
    return d


MANIFEST = {
    "text": ("Machine-checked proof (Coq) over a rule-by-rule model of serializer.rs / deserializer.rs: for every "
             "well-formed type of stage S1 (all primitives, string, wstring, enumerations, sequences, arrays, nested FINAL "
             "structures) and S2 (plus APPENDABLE structures with DHEADER and optional members) and every well-typed "
             "value (sample within the size limit of the length fields), decode(encode v) = v for XCDR1 and XCDR2 in "
             "both byte orders, outside one recorded class in S1/S2 (an XCDR1 optional member whose present value is "
             "empty reads back as absent, inherent to the short parameter encoding; five earlier classes -- char8 >= "
             "0x80, float128 in XCDR1, XCDR1 optional members, zero-size collection elements, XCDR1 parameter id "
             "overflow -- were repaired in /repo), with a machine-checked witness; the encapsulation header records the padding count and the total length is a multiple of 4. "
             "Stage S3 (MUTABLE structures, unions) is refuted on the unchanged code by witnesses (EMHEADER length "
             "code 5 on primitive sequences, nested mutable types not skipped in XCDR2, XCDR1 parameter alignment "
             "origin, appendable unions) and stays a partial statement. The model is tied to the code by running the "
             "real serializer and deserializer on thousands of run-time built types/values and comparing bytes and "
             "decoded values with the model inside Coq; the round-trip oracle is applied to the implementation's output."),
    "note": ("Trusted: Coq kernel + vm_compute; hand model XcdrModel.v (checked against the code on every run); harness "
             "(compiles /repo's serializer.rs and deserializer.rs unchanged via #[path]) and comparator. Floats compared as "
             "raw bits. Unsupported kinds (todo!() in the code): BITMASK, BITSET, MAP, CHAR16, ALIAS, ANNOTATION, "
             "collections of collections, multi-dimensional arrays."),
    "technique": "Coq proof by induction on the type + differential correspondence with oracle evaluated in Coq",
}
