"""C36 — entity deletion follows the DDS preconditions (whole-stack simulation + Coq model of the entity tree)."""
from props import _entity as E
from props._entity import case_line, parse_line, case_term  # noqa: F401  (used by vlib)

PID = "C36"
PROPS_FILE = "Props/C36.v"
CORR = "Entity.C36Corr"
CORR_MODULES = ["Entity.C36Corr"]
PREFIX = "C36"
CASE_TYPE = "ent_case"
HARNESS = "entity"
KNOWN = {2: "C36-topic-proxy-by-name"}
RULE = ("one case = one scenario of 10-60 public-API calls on the simulated stack (create/delete of participants, "
        "topics, content filtered topics, publishers, subscribers, writers, readers; deletes in the wrong order, "
        "through the wrong parent, twice; get_qos/set_qos/enable/matched-status/create-child through live and "
        "deleted proxies; delete_contained_entities then delete_participant), drawn from one PRNG over a mirror of "
        "the expected tree so that most operations hit a meaningful state; distinct = distinct scenario line; "
        "non-trivial = at least one delete failed with PreconditionNotMet, one operation returned AlreadyDeleted "
        "and one delete succeeded")
TRUSTED = ["theories/Entity/EntityModel.v is a hand transcription of dcps_participant_factory.rs, dcps_mail_handler.rs "
           "(routing), participant/publisher/subscriber/topic/writer/reader _methods.rs (create, delete, get/set qos, "
           "enable) and of the handles the dds_async proxies put into the mails",
           "harness/src/sim.rs: hand-driven executor and in-memory transport (the discovery traffic is discarded)",
           "the spec-level tracker of Entity/C36Corr.v (which proxies denote live entities) is the oracle"]
ASSUMPTIONS = ["topic names used by the scenarios are never built-in topic names",
               "Publisher/Subscriber::delete_contained_entities and ::enable are todo!() in dds_async and are not called",
               "a topic proxy of a deleted topic whose name was created again reaches the new topic (known finding "
               "C36-topic-proxy-by-name); content filtered topics are resolved by name too: the scenarios give every "
               "content filtered topic of a participant its own name (create_contentfilteredtopic does not refuse a "
               "second one of the same name)"]


def probe(r, m, kind, i):
    k = r.random()
    if k < 0.5:
        m.emit("gq %s %d" % (kind, i))
    elif k < 0.75 and kind in ("P", "T", "W", "R"):
        m.emit("en %s %d" % (kind, i))
    elif k < 0.9 and kind in ("W", "R"):
        m.emit("st %s %d" % (kind, i))
    else:
        m.emit("sq %s %d def" % (kind, i))


def scenario(r, style):
    m = E.Mirror()
    if r.random() < 0.15:
        m.emit("FQ %d" % r.randint(0, 1))
    for _ in range(r.choice([1, 1, 1, 2, 2, 3])):
        m.P(r.choice(["def", "def", "auto=0", "ud=3"]))
    n = r.randint(10, 45)
    next_name = [1]
    dead_names = []

    def rp():
        return r.randrange(len(m.parts))

    for _ in range(n):
        k = r.random()
        if k < 0.10:
            # topic; sometimes an existing or a deleted name again
            p = rp()
            if style == "reuse" and dead_names and r.random() < 0.6:
                p, nm = r.choice(dead_names)
            elif r.random() < 0.1 and m.topics:
                nm = r.choice(m.topics)["name"]
            else:
                nm = next_name[0]
                next_name[0] += 1
            m.T(p, nm)
        elif k < 0.18:
            m.G("PUB", rp())
        elif k < 0.26:
            m.G("SUB", rp())
        elif k < 0.40 and m.topics and (m.pubs or m.subs):
            sd = r.choice([s for s in ("PUB", "SUB") if m.groups(s)])
            g = r.randrange(len(m.groups(sd)))
            same = [i for i, t in enumerate(m.topics) if t["p"] == m.groups(sd)[g]["p"]]
            t = r.choice(same) if same and r.random() < 0.9 else r.randrange(len(m.topics))
            m.E(sd, g, t)
        elif k < 0.45 and style == "cft" and m.topics:
            t = r.randrange(len(m.topics))
            next_name[0] += 1
            m.CFT(m.topics[t]["p"] if r.random() < 0.9 else rp(), next_name[0], t)
        elif k < 0.49 and style == "cft" and m.cfts and m.subs:
            m.RC(r.randrange(len(m.subs)), r.randrange(len(m.cfts)))
        elif k < 0.54 and style == "cft" and m.cfts:
            c = r.randrange(len(m.cfts))
            m.delCFT(c)
            if r.random() < 0.5:
                m.delCFT(c)
            kids = [i for i, e in enumerate(m.rs) if e.get("cft") == m.cfts[c]["name"] and e["p"] == m.cfts[c]["p"]]
            if kids:
                probe(r, m, "R", r.choice(kids))
        elif k < 0.62 and (m.ws or m.rs):
            sd = r.choice([s for s in ("PUB", "SUB") if m.eps(s)])
            e = r.randrange(len(m.eps(sd)))
            via = None
            if r.random() < 0.2:
                via = r.randrange(len(m.groups(sd)))
            ok = m.delE(sd, e, via)
            if not ok or r.random() < 0.3:
                probe(r, m, "W" if sd == "PUB" else "R", e)
            sibs = [i for i, x in enumerate(m.eps(sd)) if x["g"] == m.eps(sd)[e]["g"] and i != e]
            if sibs and r.random() < 0.6:
                m.emit("gq %s %d" % ("W" if sd == "PUB" else "R", r.choice(sibs)))
        elif k < 0.72 and (m.pubs or m.subs):
            sd = r.choice([s for s in ("PUB", "SUB") if m.groups(s)])
            g = r.randrange(len(m.groups(sd)))
            busy = [i for i in range(len(m.groups(sd))) if m.glive(sd, i) and m.group_has_eps(sd, i)]
            if busy and r.random() < 0.5:
                g = r.choice(busy)
            via = rp() if r.random() < 0.2 else None
            ok = m.delG(sd, g, via)
            if not ok or r.random() < 0.3:
                probe(r, m, sd, g)
                kids = [i for i, e in enumerate(m.eps(sd)) if e["g"] == g]
                if kids:
                    probe(r, m, "W" if sd == "PUB" else "R", r.choice(kids))
        elif k < 0.80 and m.topics:
            t = r.randrange(len(m.topics))
            used = [i for i, y in enumerate(m.topics) if y["live"] and m.name_in_use(y["p"], y["name"])]
            if used and r.random() < 0.5:
                t = r.choice(used)
            via = rp() if r.random() < 0.2 else None
            x = m.topics[t]
            ok = m.delT(t, via)
            if ok:
                dead_names.append((x["p"], x["name"]))
            if not ok or r.random() < 0.4:
                probe(r, m, "T", t)
        elif k < 0.84:
            p = rp()
            m.delall(p)
            if r.random() < 0.7:
                m.delP(p)
        elif k < 0.89:
            p = rp()
            ok = m.delP(p)
            probe(r, m, "P", p)
            if not ok:
                kids = [i for i, e in enumerate(m.pubs) if e["p"] == p]
                if kids:
                    probe(r, m, "PUB", r.choice(kids))
        else:
            # probe anything, live or dead
            pools = [("P", len(m.parts)), ("T", len(m.topics)), ("PUB", len(m.pubs)), ("SUB", len(m.subs)),
                     ("W", len(m.ws)), ("R", len(m.rs))]
            pools = [x for x in pools if x[1] > 0]
            kd, cnt = r.choice(pools)
            probe(r, m, kd, r.randrange(cnt))
    # tear down: children first or delall, then the participants, then everything once more
    for p in range(len(m.parts)):
        if r.random() < 0.5:
            m.delall(p)
        m.delP(p)
        m.emit("gq P %d" % p)
    return m.ops


def gen(r, tier):
    n = {"quick": 190, "search": 900, "thorough": 4000}[tier]
    cases = []
    while len(cases) < n:
        k = r.random()
        style = "cft" if k < 0.22 else ("reuse" if k < 0.34 else "plain")
        cases.append(scenario(r, style))
    return cases


def corpus():
    return [
        # every precondition once, then the legal order
        parse_line("P 0 ; T 0 1 ; PUB 0 ; SUB 0 ; W 0 0 ; R 0 0 ; delPUB 0 ; delSUB 0 ; delT 0 ; delP 0 ; gq W 0 ; "
                   "gq R 0 ; gq PUB 0 ; gq SUB 0 ; gq T 0 ; gq P 0 ; delW 0 ; delR 0 ; delT 0 ; gq T 0 ; gq W 0 ; "
                   "delPUB 0 ; delSUB 0 ; gq PUB 0 ; delP 0 ; gq P 0 ; PUB 0 ; delP 0"),
        parse_line("P 0 ; T 0 1 ; PUB 0 ; SUB 0 ; W 0 0 ; R 0 0 ; delall 0 ; gq W 0 ; gq T 0 ; W 0 0 ; delP 0"),
        # wrong parents
        parse_line("P 0 ; P 0 ; PUB 0 ; PUB 1 ; PUB 0 ; T 0 1 ; T 1 1 ; W 0 0 ; delW 0 1 ; delW 0 2 ; delPUB 0 1 ; "
                   "delT 0 1 ; gq W 0 ; gq PUB 0 ; gq T 0 ; delW 0 ; delPUB 0 ; delT 0"),
        # a topic used only by a reader / only by a writer; several writers in one publisher, deleted out of order
        parse_line("P 0 ; T 0 1 ; T 0 2 ; PUB 0 ; SUB 0 ; R 0 0 ; W 0 1 ; delT 0 ; delT 1 ; gq T 0 ; gq T 1 ; delR 0 ; delT 0 ; "
                   "delT 1 ; delW 0 ; delT 1 ; gq T 0 ; gq T 1"),
        parse_line("P 0 ; T 0 1 ; PUB 0 ; W 0 0 ; W 0 0 ; W 0 0 ; h W 0 ; h W 1 ; h W 2 ; delW 1 ; gq W 0 ; gq W 1 ; gq W 2 ; delW 0 ; "
                   "gq W 0 ; gq W 2 ; delPUB 0 ; delW 2 ; delW 2 ; delPUB 0 ; delPUB 0"),
        parse_line("P 0 ; T 0 1 ; SUB 0 ; R 0 0 ; R 0 0 ; R 0 0 ; delR 0 ; gq R 0 ; gq R 1 ; gq R 2 ; delR 2 ; gq R 1 ; gq R 2 ; "
                   "delSUB 0 ; delR 1 ; delSUB 0"),
        # each kind of child alone keeps the participant alive
        parse_line("P 0 ; T 0 1 ; delP 0 ; delT 0 ; PUB 0 ; delP 0 ; delPUB 0 ; SUB 0 ; delP 0 ; delSUB 0 ; delP 0 ; delP 0"),
        # two participants: deleting one leaves the other untouched
        parse_line("P 0 ; P 0 ; T 0 1 ; T 1 1 ; PUB 0 ; PUB 1 ; W 0 0 ; W 1 1 ; delall 0 ; delP 0 ; gq W 1 ; gq PUB 1 ; gq T 1 ; gq W 0 ; "
                   "gq PUB 0 ; gq T 0 ; delP 1 ; delW 1 ; delPUB 1 ; delT 1 ; delP 1"),
        # regression of the former finding C36-cft-not-contained (fixed by 7cc766b): content filtered topics are
        # contained entities: deleted by delete_contained_entities / delete_contentfilteredtopic, they protect their
        # related topic and are protected by the readers created on them
        parse_line("P 0 ; T 0 1 ; CFT 0 1 0 ; delall 0 ; delP 0 ; delCFT 0 ; delP 0"),
        parse_line("P 0 ; T 0 1 ; CFT 0 1 0 ; SUB 0 ; RC 0 0 ; delT 0 ; gq R 0 ; delCFT 0 ; gq R 0 ; delP 0 ; delR 0 ; delT 0 ; "
                   "delCFT 0 ; delCFT 0 ; RC 0 0 ; delT 0 ; gq T 0 ; delSUB 0 ; delP 0 ; gq P 0"),
        parse_line("P 0 ; T 0 1 ; CFT 0 1 0 ; delP 0 ; delT 0 ; delCFT 0 ; delP 0 ; delT 0 ; delP 0"),
        parse_line("P 0 ; P 0 ; T 0 1 ; T 1 1 ; CFT 0 1 0 ; CFT 1 2 1 ; SUB 1 ; RC 0 1 ; delall 0 ; delP 0 ; gq R 0 ; delCFT 1 ; "
                   "delT 1 ; delall 1 ; gq R 0 ; delCFT 1 ; delP 1"),
        # known: stale topic proxy after the name is created again
        parse_line("P 0 ; T 0 1 ; delT 0 ; gq T 0 ; T 0 1 hist=5 ; gq T 0 ; gq T 1 ; delT 0 ; gq T 1"),
    ]


def nontrivial(c, out):
    if "del E4" in out and "E9" in out and "del 0" in out:
        return case_line(c)
    return None


def distribution(cases, outs):
    d = {"ops": 0, "del_ok": 0, "del_precondition": 0, "already_deleted": 0, "scenarios_with_cft": 0,
         "scenarios_with_name_reuse": 0}
    for c, o in zip(cases, outs):
        d["ops"] += len(c)
        d["del_ok"] += o.count("del 0")
        d["del_precondition"] += o.count("del E4")
        d["already_deleted"] += o.count("E9")
        if any(x.startswith("CFT") for x in c):
            d["scenarios_with_cft"] += 1
        names = [tuple(x.split()[1:3]) for x in c if x.startswith("T ")]
        if len(names) != len(set(names)):
            d["scenarios_with_name_reuse"] += 1
    return d


MANIFEST = {
    "text": ("Machine-checked proof (Coq) over a model of the entity tree (factory, participants, publishers, "
             "subscribers, topics, content filtered topics, writers, readers; one step per mail, proxies carry handles "
             "and, for topics, the name). For ANY state: deleting a participant / publisher / subscriber that still "
             "contains entities, or a topic used by a reader or writer, returns PreconditionNotMet and the state is "
             "literally unchanged; every operation whose target is not in the tree returns AlreadyDeleted and changes "
             "nothing; deleting through the wrong parent fails; delete_contained_entities leaves the participant empty "
             "and delete_participant then succeeds. For ALL histories (induction over the handle invariant shared with "
             "C35): the handle of a deleted entity is never issued again, so operations naming it return AlreadyDeleted "
             "for ever. Content filtered topics are contained entities (since 7cc766b): they protect their related "
             "topic, are protected by the readers created on them and go with delete_contained_entities. One recorded "
             "finding bounds the claim: topic proxies are resolved by name (the proxy of a deleted topic reaches a "
             "later topic of the same name). The model is tied to the code by random "
             "create/delete/operate scenarios on the real stack in the simulator, compared result by result inside "
             "Coq; a spec-level tracker of live entities is the oracle on the implementation's results."),
    "note": ("Trusted: Coq kernel + vm_compute; hand model EntityModel.v (checked by the correspondence run); simulator "
             "harness; the tracker oracle of C36Corr.v. Axioms: none. Not covered: Publisher/Subscriber::"
             "delete_contained_entities (todo!() in dds_async), built-in topic names. Known finding "
             "C36-topic-proxy-by-name (patch in proposed_fixes/); the former finding C36-cft-not-contained was repaired "
             "by 7cc766b and is kept as regression scenarios."),
    "technique": "Coq proof (state-independent step lemmas + invariant by induction over all mail histories) + "
                 "differential correspondence on the simulated stack with a spec-level tracker oracle evaluated in Coq",
}
