"""RTPS datagram construction / field-level mutation helpers for props/C06.py (little-endian
submessages unless be=True).  Pure functions, no dependency on the harness."""
import struct

I64MIN, I64MAX, U32MAX, I32MAX, I32MIN = -2**63, 2**63 - 1, 2**32 - 1, 2**31 - 1, -2**31

PFX_H = bytes([5, 6, 7, 8, 1, 2, 3, 4, 0, 0, 0, 0])      # healthy peer   (participant 0)
PFX_V = bytes([5, 6, 7, 8, 1, 2, 3, 4, 1, 0, 0, 0])      # victim         (participant 1)
PFX_S = bytes([5, 6, 7, 8, 1, 2, 3, 4, 2, 0, 0, 0])      # spoofed, discovered participant (2)
PFX_U = bytes([9, 9, 9, 9, 9, 9, 9, 9, 9, 9, 9, 9])      # never discovered
EID_W = bytes([0, 0, 0, 0x02])                           # user writer of every participant
EID_R = bytes([0, 0, 0, 0x07])                           # user reader of every participant
EID_UNKNOWN = bytes(4)
EID_SPDP_W = bytes([0, 1, 0, 0xc2])
EID_SPDP_R = bytes([0, 1, 0, 0xc7])
EID_PUB_W = bytes([0, 0, 3, 0xc2])
EID_PUB_R = bytes([0, 0, 3, 0xc7])
EID_SUB_W = bytes([0, 0, 4, 0xc2])
EID_SUB_R = bytes([0, 0, 4, 0xc7])
EID_TOP_W = bytes([0, 0, 2, 0xc2])
EID_TOP_R = bytes([0, 0, 2, 0xc7])


def E(be):
    return ">" if be else "<"


def header(prefix, version=(2, 4), vendor=(1, 20)):
    return b"RTPS" + bytes(version) + bytes(vendor) + bytes(prefix)


def sub(kind, flags, body, be=False, length=None):
    fl = (flags & 0xfe) | (0 if be else 1)
    n = len(body) if length is None else length
    return bytes([kind, fl]) + struct.pack(E(be) + "H", n & 0xffff) + body


def sn(x, be=False):
    x &= 2**64 - 1
    hi, lo = x >> 32, x & U32MAX
    return struct.pack(E(be) + "II", hi, lo)


def snset(base, bits, nbits=None, be=False, words=None):
    """bits: iterable of offsets set; nbits default max+1"""
    bits = list(bits)
    if nbits is None:
        nbits = (max(bits) + 1) if bits else 0
    w = [0] * 8
    for b in bits:
        if 0 <= b < 256:
            w[b // 32] |= 1 << (31 - b % 32)
    m = min(8, (nbits + 31) // 32) if words is None else words
    return sn(base, be) + struct.pack(E(be) + "I", nbits & U32MAX) + b"".join(struct.pack(E(be) + "I", w[i]) for i in range(m))


def fnset(base, bits, nbits=None, be=False):
    bits = list(bits)
    if nbits is None:
        nbits = (max(bits) + 1) if bits else 0
    w = [0] * 8
    for b in bits:
        if 0 <= b < 256:
            w[b // 32] |= 1 << (31 - b % 32)
    m = min(8, (nbits + 31) // 32)
    return struct.pack(E(be) + "II", base & U32MAX, nbits & U32MAX) + b"".join(struct.pack(E(be) + "I", w[i]) for i in range(m))


def i32(x, be=False):
    return struct.pack(E(be) + "I", x & U32MAX)


def acknack(rid, wid, base, bits=(), count=1, final=False, nbits=None, be=False):
    return sub(0x06, 2 if final else 0, rid + wid + snset(base, bits, nbits, be) + i32(count, be), be)


def gap(rid, wid, start, base, bits=(), nbits=None, be=False):
    return sub(0x08, 0, rid + wid + sn(start, be) + snset(base, bits, nbits, be), be)


def heartbeat(rid, wid, first, last, count=1, final=False, live=False, be=False):
    return sub(0x07, (2 if final else 0) | (4 if live else 0), rid + wid + sn(first, be) + sn(last, be) + i32(count, be), be)


def heartbeat_frag(rid, wid, s, lastfrag, count=1, be=False):
    return sub(0x13, 0, rid + wid + sn(s, be) + i32(lastfrag, be) + i32(count, be), be)


def nack_frag(rid, wid, s, base, bits=(), count=1, nbits=None, be=False):
    return sub(0x12, 0, rid + wid + sn(s, be) + fnset(base, bits, nbits, be) + i32(count, be), be)


def param(pid, value, be=False):
    pad = (4 - len(value) % 4) % 4
    return struct.pack(E(be) + "HH", pid & 0xffff, len(value) + pad) + value + bytes(pad)


def qos_bytes(params, be=False):
    return b"".join(param(p, v, be) for p, v in params) + struct.pack(E(be) + "HH", 1, 0)


def data(rid, wid, s, payload=b"", qos=None, key=False, nonstd=False, be=False, length=None, dflag=None):
    fl = 0
    if qos is not None:
        fl |= 2
    d = (len(payload) > 0 and not key) if dflag is None else dflag
    if d:
        fl |= 4
    if key:
        fl |= 8
    if nonstd:
        fl |= 16
    body = struct.pack(E(be) + "HH", 0, 16) + rid + wid + sn(s, be)
    if qos is not None:
        body += qos_bytes(qos, be)
    body += payload
    return sub(0x15, fl, body, be, length)


def data_frag(rid, wid, s, fstart, fcount, fsize, dsize, payload=b"", qos=None, key=False, be=False, length=None):
    fl = 0
    if qos is not None:
        fl |= 2
    if key:
        fl |= 4
    body = struct.pack(E(be) + "HH", 0, 28) + rid + wid + sn(s, be) + struct.pack(
        E(be) + "IHHI", fstart & U32MAX, fcount & 0xffff, fsize & 0xffff, dsize & U32MAX)
    if qos is not None:
        body += qos_bytes(qos, be)
    body += payload
    return sub(0x16, fl, body, be, length)


def info_ts(sec=1, frac=0, invalidate=False, be=False):
    return sub(0x09, 2 if invalidate else 0, b"" if invalidate else struct.pack(E(be) + "II", sec & U32MAX, frac & U32MAX), be)


def info_src(prefix, version=(2, 4), vendor=(1, 20), be=False):
    return sub(0x0c, 0, bytes(4) + bytes(version) + bytes(vendor) + bytes(prefix), be)


def info_dst(prefix, be=False):
    return sub(0x0e, 0, bytes(prefix), be)


def locator(kind=1, port=7400, addr=bytes(12) + bytes([127, 0, 0, 1]), be=False):
    return struct.pack(E(be) + "iI", kind, port) + addr


def info_reply(unicast=(), multicast=None, be=False):
    body = struct.pack(E(be) + "I", len(unicast)) + b"".join(unicast)
    if multicast is not None:
        body += struct.pack(E(be) + "I", len(multicast)) + b"".join(multicast)
    return sub(0x0f, 2 if multicast is not None else 0, body, be)


def pad():
    return sub(0x01, 0, b"")


def msg(prefix, *subs):
    return header(prefix) + b"".join(subs)


# CDR_LE encapsulation + KeyedData { id: u8 (key), value: Vec<u8> } as written by the harness type
def keyed_payload(key, value, rep=(0x00, 0x01)):
    body = bytes([key & 0xff]) + bytes(3) + struct.pack("<I", len(value)) + bytes(value)
    pad_ = (4 - len(body) % 4) % 4
    return bytes(rep) + bytes([0, pad_]) + body + bytes(pad_)


# ------------------------------------------------------------------------------ parsing
def split(b):
    """[(offset, kind, flags, length, body)] of the submessages of a datagram, following the
    same rule as the decoder for lengths (0 on DATA/DATA_FRAG = to the end)"""
    out = []
    if len(b) < 20 or b[:4] != b"RTPS":
        return out
    p = 20
    while p + 4 <= len(b):
        kind, fl = b[p], b[p + 1]
        be = not (fl & 1)
        n = struct.unpack(E(be) + "H", b[p + 2:p + 4])[0]
        if p + 4 + n > len(b):
            break
        end = p + 4 + n
        if n == 0 and kind in (0x15, 0x16):
            end = len(b)
        out.append((p, kind, fl, n, b[p + 4:end]))
        p = end
    return out


# numeric fields of every submessage kind: (offset in body, width in bytes, signed)
FIELDS = {
    0x06: [(8, 8, "sn"), (16, 4, "u"), (20, 4, "u")],                       # ACKNACK base numBits bitmap0 (count follows the bitmap)
    0x07: [(8, 8, "sn"), (16, 8, "sn"), (24, 4, "i")],                      # HEARTBEAT first last count
    0x08: [(8, 8, "sn"), (16, 8, "sn"), (24, 4, "u"), (28, 4, "u")],        # GAP start base numBits bitmap0
    0x09: [(0, 4, "u"), (4, 4, "u")],                                       # INFO_TS
    0x0c: [(0, 4, "u")],
    0x0f: [(0, 4, "u")],                                                    # INFO_REPLY numLocators
    0x12: [(8, 8, "sn"), (16, 4, "u"), (20, 4, "u"), (24, 4, "u")],         # NACK_FRAG sn base numBits bitmap0
    0x13: [(8, 8, "sn"), (16, 4, "u"), (20, 4, "i")],                       # HEARTBEAT_FRAG
    0x15: [(0, 2, "u"), (2, 2, "u"), (12, 8, "sn")],                        # DATA extra o2q sn
    0x16: [(0, 2, "u"), (2, 2, "u"), (12, 8, "sn"), (20, 4, "u"), (24, 2, "u"), (26, 2, "u"), (28, 4, "u")],
}
BOUNDARY = {
    8: [0, 1, -1, 2, I64MIN, I64MAX, I64MIN + 1, I64MAX - 1, U32MAX, U32MAX + 1, I64MAX - 255, I64MAX - 256, 2**62, 1 << 40, 2**31],
    4: [0, 1, U32MAX, 2**31, 2**31 - 1, 256, 255, 257, 32, 33, 2**16],
    2: [0, 1, 0xffff, 0x8000, 0x7fff, 4, 16, 28, 12],
}


def set_field(b, sub_off, field, value):
    """returns a copy of datagram b with the field (offset, width, kind) of the submessage at
    sub_off replaced"""
    off, width, kind = field
    fl = b[sub_off + 1]
    be = not (fl & 1)
    p = sub_off + 4 + off
    if p + width > len(b):
        return b
    if kind == "sn":
        enc = sn(value, be)
    elif width == 4:
        enc = struct.pack(E(be) + "I", value & U32MAX)
    else:
        enc = struct.pack(E(be) + "H", value & 0xffff)
    return b[:p] + enc + b[p + width:]
