"""C01 — Reliable delivery: every sample arrives exactly once, in order, despite faults."""
from props._rel import *  # noqa
from props import _rel

PID = "C01"
PROPS_FILE = "Props/C01.v"
PREFIX = "C01"
KNOWN = {}
RULE = ("a case is one scenario on the simulated real stack (two participants, one RELIABLE writer and one RELIABLE "
        "reader, VOLATILE or TRANSIENT_LOCAL, matched before the first write or late, KEEP_ALL / KEEP_LAST 1-3, "
        "1-3 instances, fragment size 64/128/1344, 1-13 writes of sizes around the fragment boundary): after "
        "every write a burst of network events on the queued user datagrams (deliver / drop / duplicate the i-th "
        "one or the first one carrying a given submessage kind, sequence number and fragment; ticks of 50 ms; FIFO "
        "pump), takes, queue listings, then 2-14 healing rounds (250 ms + loss-free FIFO delivery until quiescent) "
        "and a final take; distinct = distinct scenario line; non-trivial = at least two writes, one "
        "fault/reordering event and a take that returned something")
gen = _rel.gen_for("C01")


def corpus():
    return [
        # the schedule that exposed C01-gap-skip (repaired by 91937ff): KEEP_LAST 1, two instances, history {1,3}, late
        # TRANSIENT_LOCAL reader, DATA(1) lost: the non-contiguous GAP(2) is ignored, one round delivers 1 and 3
        parse_line(PRE % (1344, 1, 1, 1) + " ; w 0 1 10 11 ; w 0 2 10 22 ; w 0 2 10 33 ; R 0 1 rel=1 dur=1 ; netm ; ha 0 ; q ; "
                   "dr 0 ; q ; adv 250000000 ; pu ; adv 250000000 ; pu ; adv 250000000 ; pu ; hp ; t 0 0 ; wa 0 ; q"),
        # one fragment of a fragmented sample lost / the whole fragmented sample lost: repaired (fixed 9534038, 46bd1ab)
        parse_line(PRE % (64, 1, 0, 0) + " ; R 0 1 rel=1 dur=0 ; netm ; w 0 1 117 1 ; q ; dr 1 ; adv 250000000 ; pu ; q ; "
                   "adv 250000000 ; pu ; adv 250000000 ; pu ; adv 250000000 ; pu ; adv 250000000 ; pu ; t 0 0 ; wa 0 ; q"),
        parse_line(PRE % (64, 1, 0, 0) + " ; R 0 1 rel=1 dur=0 ; netm ; w 0 1 117 1 ; dr 0 ; dr 0 ; dr 0 ; w 0 1 4 2 ; "
                   "adv 250000000 ; pu ; q ; adv 250000000 ; pu ; adv 250000000 ; pu ; adv 250000000 ; pu ; "
                   "adv 250000000 ; pu ; t 0 0 ; wa 0 ; q"),
        # loss + overtaking + duplication of plain DATA, repaired by one round
        parse_line(PRE % (64, 1, 0, 0) + " ; R 0 1 rel=1 dur=0 ; netm ; w 0 1 10 11 ; w 0 2 10 22 ; w 0 1 10 33 ; dr 0 ; "
                   "dl 1 ; du 0 ; wa 0 ; adv 250000000 ; pu ; adv 250000000 ; pu ; wp ; t 0 0 ; q"),
        # the heartbeat period: nothing after 150 ms, a HEARTBEAT exactly 200 ms after the last one
        parse_line(PRE % (1344, 1, 0, 0) + " ; R 0 1 rel=1 dur=0 ; netm ; w 0 1 10 1 ; dr 0 ; adv 150000000 ; q ; "
                   "adv 50000000 ; q ; adv 200000000 ; q ; pu ; t 0 0 ; q"),
        # late VOLATILE reliable reader: GAPs for the old samples are lost, the HEARTBEAT repairs
        parse_line(PRE % (128, 1, 0, 0) + " ; w 0 1 4 1 ; w 0 1 0 2 ; adv 200000000 ; R 0 1 rel=1 dur=0 ; netm ; w 0 1 0 3 ; "
                   "q ; dr 0 ; dr 0 ; x dr DATA 3 -1 ; adv 250000000 ; pu ; adv 250000000 ; pu ; t 0 0 ; q"),
    ]


MANIFEST = {
    "text": ("Machine-checked proofs (Coq) over a model of the RTPS reliability protocol (stateful_writer.rs, "
             "reader_proxy.rs, writer_proxy.rs, stateful_reader.rs, the DCPS glue handle_data/gap/heartbeat/acknack, "
             "the write path with KEEP_LAST retention, the worker's poke) with an explicit network of queued datagrams. "
             "SAFETY, unbounded: for every QoS configuration and EVERY finite schedule of writes, removals, time ticks, "
             "deliveries in any order, drops, duplications, matches and deletions (fragmented samples included) the "
             "list the reader presents is a subsequence of the publication log, in publication order, strictly "
             "increasing in sequence number (at most once) and payload-identical; by induction over the schedule with "
             "an authenticity invariant on everything in flight or buffered. NOTHING IS SKIPPED, unbounded, every history QoS "
             "(KEEP_LAST with several instances and removals included): every sequence number the reliable reader accounts "
             "for (up to available_changes_max, the base of its ACKNACKs) has been presented as far as the writer still "
             "holds it and it is relevant; invariant: a GAP in flight only covers sequence numbers at which nothing "
             "relevant is held, a HEARTBEAT's first sequence number is at or below everything held, and a GAP only "
             "advances the reader when it is contiguous with what is accounted for (repair 91937ff of the former finding "
             "C01-gap-skip). LIVENESS, proved part (ANY history QoS - KEEP_ALL or KEEP_LAST with any number of "
             "instances, i.e. histories with holes -, samples that fit one DATA "
             "submessage, no explicit removal, reader not deleted, at most 256 samples): after ANY such schedule - all loss, "
             "duplication, reordering and delay patterns, late joiners - one heartbeat period (five worker ticks) and "
             "ANY loss-free delivery sequence (single deliveries in any order, FIFO pumps), whenever nothing is queued "
             "any more every change the writer holds and that is relevant for the reliable reader has been presented; "
             "by the general soundness invariant above plus counter invariants of the class and a healing invariant (the newest HEARTBEAT is on its way or processed; once processed the "
             "newest ACKNACK, which requests the last sample, is on its way; processing it makes the writer emit a "
             "newer HEARTBEAT). The model is tied to the code by running each scenario on the real stack in a "
             "deterministic simulation and comparing inside Coq every observation (take results, API results, "
             "simulated time, the complete content of the datagram queue) with the model's prediction; the oracle "
             "(in-order duplicate-free checksum-identical subsequence; after the healing rounds every retained "
             "relevant sample was presented) judges the real observations, fragmented samples included."),
    "note": ("Trusted: Coq kernel, hand model RelModel.v (correspondence-checked on every run), simulation harness, "
             "generator. Axioms: none. Former finding C01-gap-skip is repaired (91937ff); its schedule is in the corpus. "
             "Liveness for fragmented samples is covered by the oracle on every scenario "
             "and by closed examples only (fragment repair works since 9534038/46bd1ab; byte-level reassembly is C05); termination of the "
             "healing exchange is observed on every scenario, not proved. One writer/reader pair."),
    "technique": "Coq proof (invariants over all schedules, healing invariant) + differential correspondence on a deterministic whole-stack simulation",
}
