"""C22 — Instance and view states follow the DDS instance life cycle."""
from props._reader import *  # noqa
from props import _reader

PID = "C22"
PROPS_FILE = "Props/C22.v"
PREFIX = "C22"
KNOWN = {1: "C22-nowriters-multiwriter", 2: "C22-nonstored-change"}
RULE = ("a case is a reader QoS plus a sequence of 1-40 operations (add_reader_change of ALIVE / DISPOSED / "
        "UNREGISTERED / DISPOSED_UNREGISTERED changes from 1-3 writers over 1-4 instances, read / take / "
        "read_next_instance with random masks in between, match/unmatch) run on a fresh real "
        "UserDefinedDataReader; distinct = distinct operation line; non-trivial = at least two adds, one "
        "read/take and one stored sample")
gen = _reader.gen_for("lifecycle")


def corpus():
    return [
        # class 1: writer 1 unregisters while writer 2 is still registered -> NOT_ALIVE_NO_WRITERS
        parse_line("Q 0 0 -1 -1 -1 0 0 ; A 1 1 0 10 100 10 ; A 2 1 0 20 101 20 ; A 1 1 3 30 102 30 ; R 10 3 3 7 -1"),
        # class 2: dispose rejected by max_samples=1, instance shown NOT_ALIVE_DISPOSED
        parse_line("Q 0 0 1 -1 -1 0 0 ; A 1 1 0 10 100 10 ; A 1 1 2 20 101 20 ; R 10 3 3 7 -1"),
        # regular life cycle of one writer: write, read, dispose, rebirth, read, unregister, rebirth, read
        parse_line("Q 0 0 -1 -1 -1 0 0 ; A 1 7 0 1 100 10 ; R 10 3 3 7 -1 ; A 1 7 2 2 101 20 ; A 1 7 0 3 102 30 ; "
                   "R 10 3 3 7 -1 ; A 1 7 3 4 103 40 ; A 1 7 0 5 104 50 ; R 10 3 3 7 -1"),
        # two writers, both unregister: NO_WRITERS only after the second one; autodispose unregister
        parse_line("Q 0 0 -1 -1 -1 0 0 ; A 1 1 0 10 100 10 ; A 2 1 0 20 101 20 ; A 2 1 3 30 102 30 ; R 10 3 3 7 -1 ; "
                   "A 1 1 3 40 103 40 ; R 10 3 3 7 -1 ; A 2 1 0 50 104 50 ; A 2 1 4 60 105 60 ; T 10 3 3 7 -1"),
        # dispose of an unknown instance is an error and leaves the reader untouched
        parse_line("Q 0 0 -1 -1 -1 0 0 ; A 1 1 2 10 100 10 ; A 1 1 0 20 101 20 ; R 10 3 3 7 -1"),
    ]


MANIFEST = {
    "text": ("Coq proof over the model of the reader cache (add_reader_change with every branch, read/take, "
             "next_instance, match/unmatch): (a) for every QoS and every operation history the instance record "
             "(instance state, view state, disposed and no-writers generation count) of every instance equals the "
             "fold of the code's update_state / mark_viewed over every RECEIVED change and every access; (b) a "
             "readable DDS 1.4 (2.2.2.5.1.3) automaton with the set of registered writers is defined, and for every "
             "history in which every change was stored and no unregister arrives while another writer is registered "
             "(in particular single-writer instances) the record equals the fold of that automaton over the stored "
             "changes and the accesses: dispose -> NOT_ALIVE_DISPOSED, unregister by the last writer -> "
             "NOT_ALIVE_NO_WRITERS, a later write -> ALIVE with the matching generation count + 1 and view NEW; "
             "(c) view state is NEW exactly until the first access and after a rebirth; the counts stored in a sample "
             "are the instance's counts at reception; SampleInfo shows the instance record before the access; the "
             "double update_state call is idempotent. The two hypotheses of (b) are necessary: witness theorems for "
             "the two recorded deviations. The model is tied to the code by exact comparison on generated histories, "
             "evaluated inside Coq; the DDS-automaton oracle (ReaderCorr.spec_walk) is applied to every SampleInfo "
             "the real reader returned."),
    "note": ("Trusted: Coq kernel, hand model ReaderModel.v (correspondence-checked each run), harness, generator. "
             "Axioms: none. Recorded deviations of the real code: C22-nowriters-multiwriter (no per-instance writer "
             "set: an unregister from one of several writers gives NOT_ALIVE_NO_WRITERS), C22-nonstored-change "
             "(update_state runs before the ownership/filter/limit gates: a change that is not stored still moves "
             "the instance state). Histories with ALIVE_FILTERED changes are not judged by the oracle. Defect fixed "
             "earlier: view state NEW on rebirth instead of on dispose (fix commit 67f7209)."),
    "technique": "Coq proof (refinement of the DDS instance automaton by induction over operation histories) + differential correspondence",
}
