"""C30 — deadline-missed counts increase once per missed period (writer: offered, reader: requested)."""
from vlib.core import cz, clist, copt
from props.C31 import split_out, pairs, kvs, MS, NS, T0, POKE

PID = "C30"
PROPS_FILE = "Props/C30.v"
CORR = "Sched.DeadlineCorr"
CORR_MODULES = ["Sched.DeadlineCorr"]
PREFIX = "C30"
CASE_TYPE = "C30_case"
HARNESS = "timing"
KNOWN = {}
RULE = ("one case = one whole-stack simulation scenario drawn from one PRNG: one participant with 1-2 deadline writers "
        "and one deadline reader on the same topic (recording listeners), writes of 1-3 instances, deliveries, clock "
        "advances around multiples of the periods; distinct = distinct scenario line; non-trivial = at least one "
        "deadline-missed listener call was observed")
TRUSTED = ["theories/Sched/WorkerModel.v (hand transcription of check_missed_reader_deadline / "
           "check_missed_writer_deadline / the time_until_* functions and the worker loop), "
           "theories/Sched/DeadlineModel.v (per-instance tick rules in ns)",
           "harness/src/bin/timing.rs (simulated timer rounds a delay of 0 up to 1 ns; recording listeners)"]
ASSUMPTIONS = ["count = elapsed periods: the worker runs at least once per deadline period (true by C31; the worker also "
               "arms a timer for the exact deadline of every writer and reader instance); for arbitrary iteration times the "
               "counts never exceed the elapsed periods",
               "DataReaderAsync::get_requested_deadline_missed_status is todo!() on this tree: the reader count is "
               "observed through the listener and the status condition",
               "the oracle allows the miss of a period that elapsed within the last 50 ms to be still unreported",
               "offered side: the periods of an instance are counted from the NEWEST source timestamp written so far "
               "(write_w_timestamp with an older timestamp does not restart or move back the period); requested side: "
               "from the reception time of the last sample, whatever its source timestamp",
               "the harness rounds a requested timer delay of 0 up to 1 ns (the simulated clock stands still while the "
               "worker runs; at an exact deadline boundary the real worker asks for delay(0) until the clock moves)"]

DLS = [50 * MS, 100 * MS, 120 * MS, 250 * MS, 33 * MS, NS, 70 * MS]
ANNS = [200, 1000, 5000]


def gen_case(r, big):
    ann = r.choice(ANNS)
    rd = r.choice(DLS)
    nw = r.choice([1, 1, 1, 2])
    ops = []
    wds = []
    for _ in range(nw):
        wd = rd if r.random() < 0.6 else r.choice([d for d in DLS if d <= rd])
        wds.append(wd)
        ops.append(("W", wd))
    ops.append(("R", rd))
    ops.append(("net",))
    now = T0
    last_ts = {}  # (writer, key) -> newest source timestamp written so far
    dirty = False  # announcements / heartbeats queued since the last `net`
    undelivered = False  # a DATA datagram is queued
    for _ in range(r.randint(3, 12 if big else 8)):
        k = r.random()
        if k < 0.4:
            if dirty or undelivered:
                # the in-memory network is FIFO: flush first so that the (single) DATA datagram is
                # the first one of the next delivery (the model handles the reception first)
                ops.append(("net",))
                dirty = False
                undelivered = False
            w = r.randrange(nw)
            key = r.choice([1, 1, 2, 3])
            ts = None
            prev = last_ts.get((w, key))
            q = r.random()
            if prev is not None and q < 0.4:
                # write_w_timestamp with an OLDER source timestamp than an earlier sample of the same
                # instance (late / replayed data): the deadline reference of the instance must not
                # move backwards (offered side); the reader's reference is the reception time
                d = wds[w]
                ts = max(0, prev - r.choice([1, d // 2, d, d + 1, 2 * d, 3 * d + 7, 5 * d]))
            elif prev is None and q < 0.15:
                ts = max(0, now - r.choice([1, wds[w] // 2, wds[w] - 1]))  # first sample, a bit old
            ops.append(("w", w, key, ts))
            tsv = now if ts is None else ts
            last_ts[(w, key)] = tsv if prev is None else max(prev, tsv)
            undelivered = True
            if r.random() < 0.75:
                ops.append(("net",))
                undelivered = False
        elif k < 0.85:
            base = r.choice([rd, wds[0], 2 * rd, rd // 2, 3 * rd, 50 * MS, 10 * MS, 123456789])
            dt = max(1, base + r.choice([0, 0, 1, -1, 2, 1000, 25 * MS]))
            if r.random() < 0.2:
                dt = r.randint(1, 900 * MS)
            dt = min(dt, 3 * NS)
            ops.append(("adv", dt))
            now += dt
            dirty = True
            if r.random() < 0.7:
                ops.append(("net",))
                dirty = False
                undelivered = False
        elif k < 0.93:
            ops.append(("odm", r.randrange(nw)))
        else:
            ops.append(("scr",))
    ops.append(("net",))
    for i in range(nw):
        ops.append(("odm", i))
    ops.append(("scr",))
    return (ann, tuple(ops))


def gen(r, tier):
    n = {"quick": 170, "search": 900, "thorough": 1500}[tier]
    return [gen_case(r, tier != "quick") for _ in range(n)]


def corpus():
    D = 100 * MS
    return [
        # regression (fixed C30-reader-no-rearm): one sample, then 330 ms of silence with a 100 ms reader
        # deadline: 3 reports (it used to be 7)
        (1000, (("W", D), ("R", D), ("net",), ("w", 0, 1, None), ("net",), ("adv", 330 * MS), ("net",), ("odm", 0), ("scr",))),
        # samples keep arriving within the period: no miss on either side
        (1000, (("W", D), ("R", D), ("net",), ("w", 0, 1, None), ("net",), ("adv", 90 * MS), ("w", 0, 1, None), ("net",),
                ("adv", D), ("w", 0, 1, None), ("net",), ("adv", 99999999), ("odm", 0), ("scr",))),
        # seeded change C30b: a later write on the SAME instance with an older source timestamp must not
        # move the offered-deadline reference backwards: samples keep arriving every 40 ms (period
        # 100 ms), no miss on either side; then silence: one miss per period counted from the NEWEST
        # timestamp
        (1000, (("W", D), ("R", D), ("net",), ("w", 0, 1, None), ("net",), ("adv", 40 * MS), ("w", 0, 1, T0 - 250 * MS), ("net",),
                ("adv", 40 * MS), ("w", 0, 1, T0 - 90 * MS), ("net",), ("adv", 40 * MS), ("odm", 0), ("w", 0, 1, None), ("net",),
                ("adv", 50 * MS), ("w", 0, 1, T0 - 500 * MS), ("net",), ("adv", 49 * MS), ("odm", 0), ("adv", 230 * MS), ("net",),
                ("odm", 0), ("scr",))),
        # the same on two instances, the older timestamp on the other instance does not matter
        (1000, (("W", D), ("R", D), ("net",), ("w", 0, 1, None), ("net",), ("w", 0, 2, None), ("net",), ("adv", 60 * MS),
                ("w", 0, 2, T0 - 300 * MS), ("net",), ("w", 0, 1, T0 - 10 * MS), ("net",), ("adv", 39 * MS), ("odm", 0),
                ("adv", 100 * MS), ("net",), ("odm", 0), ("scr",))),
        # a 50 ms reader deadline is counted once per period (worker wakes once per poke period)
        (1000, (("W", 50 * MS), ("R", 50 * MS), ("net",), ("w", 0, 1, None), ("net",), ("adv", 260 * MS), ("net",), ("odm", 0), ("scr",))),
    ]


def case_line(c):
    ann, ops = c
    parts = ["cfg trace=1 ann=%d" % ann, "P 0", "T 0 t", "PUB 0", "SUB 0"]
    for o in ops:
        if o[0] == "W":
            parts.append("W 0 0 rel=1 lis=1 dl=%d" % o[1])
        elif o[0] == "R":
            parts.append("R 0 0 rel=1 lis=1 dl=%d" % o[1])
        elif o[0] == "w":
            parts.append("w %d %d 8 1%s" % (o[1], o[2], "" if o[3] is None else " %d" % o[3]))
        elif o[0] == "adv":
            parts.append("adv %d" % o[1])
        elif o[0] == "odm":
            parts.append("odm %d" % o[1])
        elif o[0] == "scr":
            parts.append("scr 0")
        elif o[0] == "net":
            parts.append("net")
    return " ; ".join(parts)


def parse_line(line):
    ops = [o.strip() for o in line.split(";")]
    ann = int([t for t in ops[0].split() if t.startswith("ann=")][0][4:])
    out = []
    for o in ops[5:]:
        t = o.split()
        if t[0] in ("W", "R"):
            kv = dict(x.split("=") for x in t[3:])
            out.append((t[0], int(kv["dl"])))
        elif t[0] == "w":
            out.append(("w", int(t[1]), int(t[2]), int(t[5]) if len(t) > 5 else None))
        elif t[0] == "adv":
            out.append(("adv", int(t[1])))
        elif t[0] == "odm":
            out.append(("odm", int(t[1])))
        elif t[0] == "scr":
            out.append(("scr",))
        elif t[0] == "net":
            out.append(("net",))
    return (ann, tuple(out))


def case_term(c, out):
    if out.startswith(("PANIC", "ABORT", "HANG")):
        return None
    so = split_out(out)
    ann, ops = c
    if so is None or len(so) != len(ops) + 5:
        return None
    so = so[5:]
    terms = []
    pending = []
    for o, (res, ds, wsig, rsig) in zip(ops, so):
        rep = 0
        p = res.split()
        if o[0] == "W":
            if res != "W 0":
                return None
            t = "SCreateW (Some %d) None" % o[1]
        elif o[0] == "R":
            if res != "R 0":
                return None
            t = "SCreateR (Some %d)" % o[1]
        elif o[0] == "w":
            if res != "w 0":
                return None
            t = "SWrite %d %d %s" % (o[1], o[2], copt(o[3], cz))
            pending.append(o[2])
        elif o[0] == "adv":
            t = "SAdv %d" % o[1]
        elif o[0] == "odm":
            if p[0] != "odm" or not p[1].lstrip("-").isdigit():
                return None
            t = "SOdm %d" % o[1]
            rep = int(p[1])
        elif o[0] == "scr":
            if p[0] != "scr" or p[1] not in ("0", "1"):
                return None
            t = "SScr 0"
            rep = int(p[1])
        else:
            if pending:
                t = "SRecv 0 %s" % clist(str(k) for k in pending)
                pending = []
            else:
                t = "SQuery"
        terms.append("(%s, mkObs %s %s %s %s)" % (t, pairs(ds), pairs(wsig), pairs(rsig), cz(rep)))
    return "mkC30 %d %s" % (ann * MS, clist(terms))


def nontrivial(c, out):
    so = split_out(out) if not out.startswith(("PANIC", "ABORT", "HANG")) else None
    if not so:
        return None
    if any(n > 0 for _, _, w, rs in so for n, _ in list(w) + list(rs)):
        return case_line(c)
    return None


def distribution(cases, outs):
    d = {}
    for c, o in zip(cases, outs):
        so = split_out(o) if not o.startswith(("PANIC", "ABORT", "HANG")) else None
        if so is None:
            k = "unparsed"
        else:
            wm = sum(n for _, _, w, _ in so for n, _ in w)
            rm = sum(n for _, _, _, rs in so for n, _ in rs)
            k = "writer-miss=%s/reader-miss=%s" % ("0" if wm == 0 else "1+", "0" if rm == 0 else "1+")
        d[k] = d.get(k, 0) + 1
    return d


MANIFEST = {
    "text": ("Machine-checked proof (Coq) over the per-instance tick rules of check_missed_writer_deadline and "
             "check_missed_reader_deadline (both re-arm by one period), for all sample-time and wake-time sequences: the "
             "offered and the requested count after any silence equal the number of elapsed periods when the worker runs at "
             "least once per period, and never exceed it for arbitrary iteration times; no miss on either side while "
             "samples keep arriving within the period; every increase appends exactly one signal carrying the running "
             "total; the rules in nanoseconds are the ones of the (sec, nanosec) worker model away from the i32 clamp. "
             "Tied to the code by whole-stack simulation: listener calls of writers and readers, status reads, "
             "status-condition triggers and all timer delays are compared with the model in Coq; the once-per-period "
             "oracle is applied to the real counts. The scenario of the fixed finding C30-reader-no-rearm is kept as a "
             "regression case."),
    "note": ("Trusted: Coq kernel + vm_compute; hand models WorkerModel.v / DeadlineModel.v (checked by the correspondence "
             "run); harness timing.rs and comparator. Axioms: none."),
    "technique": "Coq proof (induction over event sequences, invariants, nia) + whole-stack deterministic simulation compared in Coq",
}
