"""C41 — IDL compiler output matches the IDL declarations (dds_gen).

A case is an IDL specification as a syntax tree.  The text handed to the REAL compiler is
printed from the tree (random spelling of the base types, white space, comments); the
generated Rust text is parsed back (tolerantly: a token stream, not a layout) into Rust-item
terms; the model and the oracle are evaluated on both trees inside Coq.  The repository's own
test IDL files are the corpus (their ORIGINAL text goes to the compiler, the tree is obtained
with the small IDL reader below).  `extra` puts the generated Rust of a batch of cases into a
scratch crate and lets rustc check it against dust_dds ("compiles" is observed, not proved)."""
import glob
import os
import re
import shutil

from vlib.core import CACHE, REPO, sh, Lock

PID = "C41"
PROPS_FILE = "Props/C41.v"
CORR = "Lang.IdlCorr"
CORR_MODULES = ["Lang.IdlCorr"]
PREFIX = "C41"
CASE_TYPE = "C41_case"
HARNESS = "c41"
# (retired, fixed in /repo: class 2 C41-annotation-first-declarator-only by 7270bfe, class 4
#  C41-split-attributes by 99bf327, class 5 C41-id-ignored-unless-mutable by 7ee9e78)
KNOWN = {1: "C41-bounds-dropped", 3: "C41-array-dimensions-dropped"}
RULE = ("a case is an IDL specification (modules, structs with annotated members, enums, unions, typedefs, "
        "constants, forward declarations, #define/#ifdef/#ifndef gating) printed from a random syntax tree of the "
        "supported subset plus boundary trees (reserved words as identifiers, constructs the generator answers "
        "with todo!(), broken text) and the repository's own test IDL files; distinct = distinct IDL text; "
        "non-trivial = the compiler produced items and the specification declares at least one struct, union "
        "or enum with a member")
TRUSTED = ["theories/Lang/IdlModel.v is a hand transcription of dds_gen/src/generator/rust.rs (RustGenerator), the "
           "identifier rule of idl_v4_grammar.pest, the #define/#ifdef/#ifndef handling of preprocessor/mod.rs and "
           "the attribute loops of dds_derive/src/derive/attributes.rs (every #[dust_dds] attribute, later argument wins)",
           "the IDL pretty-printer, the IDL reader used for the corpus files and the Rust-text reader of props/C41.py "
           "(pest's parsing of the printed text and rustc are outside the model)"]
ASSUMPTIONS = ["PARTIAL: the pest parser and rustc/the derive macro are outside the model; 'the generated code compiles "
               "against dust_dds' is observed on a batch of cases per run (cargo check in a scratch crate), not proved",
               "supported subset = the text parses, no construct the generator answers with todo!()/unimplemented!() "
               "(typedef of an array, fixed, map, any, native, exception, bitmask, bitset, valuetype), no identifier "
               "reserved in Rust; interfaces are not covered",
               "an unqualified IDL name spelled like a Rust built-in type (u8, i32, String ..) denotes that type",
               "#define is modelled for value-less flags whose name occurs nowhere else in the text",
               "structure is claimed outside the recorded classes only (known findings C41-bounds-dropped, "
               "C41-array-dimensions-dropped)"]

TESTS_DIR = os.path.join(REPO, "dds_gen", "tests")

# --------------------------------------------------------------------------- tokens

TOKEN = re.compile(r"""
    (?P<ws>\s+|//[^\n]*|/\*.*?\*/)
  | (?P<str>L?"(?:\\.|[^"\\])*")
  | (?P<chr>L?'(?:\\.|[^'\\])')
  | (?P<num>\d[\w.]*(?:(?<=[eE])[+-]\d+)?)
  | (?P<id>[A-Za-z_]\w*)
  | (?P<op>::|->|.)
""", re.S | re.X)


def tokens(text):
    out = []
    for m in TOKEN.finditer(text):
        if m.lastgroup != "ws":
            out.append(m.group(0))
    return out


class Bad(Exception):
    pass


class Cur:
    def __init__(self, toks):
        self.t = toks
        self.i = 0

    def peek(self, k=0):
        return self.t[self.i + k] if self.i + k < len(self.t) else None

    def next(self):
        if self.i >= len(self.t):
            raise Bad("eof")
        self.i += 1
        return self.t[self.i - 1]

    def eat(self, s):
        if self.peek() != s:
            raise Bad("expected %r at %d, found %r" % (s, self.i, self.peek()))
        self.i += 1

    def opt(self, s):
        if self.peek() == s:
            self.i += 1
            return True
        return False

    def until(self, stops, openers="([{", closers=")]}"):
        """tokens up to (not including) the first top-level token in `stops`"""
        depth = 0
        out = []
        while True:
            t = self.peek()
            if t is None:
                raise Bad("eof in until")
            if depth == 0 and t in stops:
                return out
            if t in openers:
                depth += 1
            elif t in closers:
                depth -= 1
                if depth < 0:
                    raise Bad("unbalanced")
            out.append(self.next())


IDENT = re.compile(r"^[A-Za-z_]\w*$")


def is_ident(t):
    return t is not None and IDENT.match(t) is not None


# ------------------------------------------------------------- IDL tree -> IDL text

PRIM_SPELL = {
    "PBool": ["boolean"], "PChar": ["char"], "PWChar": ["wchar"], "POctet": ["octet"],
    "PI8": ["int8"], "PU8": ["uint8"], "PI16": ["short", "int16"], "PU16": ["unsigned short", "uint16"],
    "PI32": ["long", "int32"], "PU32": ["unsigned long", "uint32"], "PI64": ["long long", "int64"],
    "PU64": ["unsigned long long", "uint64"], "PF32": ["float"], "PF64": ["double"],
}
UNSUP_T = ["fixed<5,2>", "map<long,long>", "any", "Object", "ValueBase"]
UNSUP_D = ["native Nat", "exception Exc { long code; }", "bitmask Flags { fa, fb }",
           "bitset Bits { bitfield<3> a; }", "valuetype Val { public long a; }", "typeid Tid \"x\""]
BROKEN = ["struct S { long a }", "enum E {};", "struct S { long a; }", "module M { };", "union U switch(float) { case 1: long a; };",
          "struct { long a; };", "typedef long;", "struct S { sequence<> a; };", "const long = 3;", "struct S { long long long a; };",
          "struct S { long double a; };"]


class Printer:
    """prints a tree; `r` (a random.Random or None) chooses spellings / layout"""

    def __init__(self, r=None):
        self.r = r

    def pick(self, xs):
        return xs[0] if self.r is None else self.r.choice(xs)

    def sp(self):
        if self.r is None:
            return " "
        return self.pick([" ", " ", " ", "  ", "\n", "\t", " /* c */ ", "\n// note\n"])

    def osp(self):
        return "" if self.r is None else self.pick(["", "", "", " ", "\n"])

    def expr(self, e):
        if self.r is None or '"' in e or "'" in e:
            return e
        ts = tokens(e)
        return self.pick(["", " "]).join(ts) if self.r.random() < 0.5 else e

    def tspec(self, t):
        k = t[0]
        if k == "prim":
            return self.pick(PRIM_SPELL[t[1]])
        if k == "name":
            return ("::" if t[1] else "") + "::".join(t[2])
        if k == "seq":
            inner = self.tspec(t[1])
            b = "" if t[2] is None else "," + self.osp() + self.expr(t[2])
            # `sequence<string<8>>` is read by the grammar as the shift expression `8 >> ..`: a blank is
            # needed after an inner type that ends with a bound (pest parsing is outside the model)
            inner_bounded = t[2] is None and t[1][0] in ("str", "wstr", "seq") and t[1][-1] is not None
            return "sequence<" + self.osp() + inner + b + (" >" if inner_bounded else self.pick([">", " >"]))
        if k in ("str", "wstr"):
            return ("string" if k == "str" else "wstring") + ("" if t[1] is None else "<" + self.expr(t[1]) + ">")
        if k == "unsup":
            return UNSUP_T[t[1] % len(UNSUP_T)]
        raise ValueError(t)

    def declr(self, d):
        return d[1] if d[0] == "s" else d[1] + "".join("[" + self.osp() + self.expr(x) + self.osp() + "]" for x in d[2])

    def annot(self, a):
        return "@" + a[0] + ("" if a[1] is None else "(" + self.expr(a[1]) + ")")

    def annots(self, A):
        return "".join(self.annot(a) + self.sp() for a in A)

    def definition(self, d, ind=""):
        k = d[0]
        s = self.sp
        if k == "module":
            return "module" + s() + d[1] + self.osp() + "{\n" + "".join(ind + "  " + self.definition(x, ind + "  ") for x in d[2]) + ind + "};\n"
        if k == "struct":
            base = "" if d[3] is None else self.osp() + ":" + self.osp() + ("::" if d[3][0] else "") + "::".join(d[3][1])
            ms = "".join(ind + "  " + self.annots(m[0]) + self.tspec(m[1]) + s() + ("," + self.osp()).join(self.declr(x) for x in m[2]) + self.osp() + ";\n" for m in d[4])
            return self.annots(d[1]) + "struct" + s() + d[2] + base + self.osp() + "{\n" + ms + ind + "};\n"
        if k == "enum":
            es = ("," + s()).join(self.annots(e[0]) + e[1] for e in d[3])
            return self.annots(d[1]) + "enum" + s() + d[2] + self.osp() + "{" + self.osp() + es + self.osp() + "};\n"
        if k == "union":
            cs = ""
            for labels, t, dc in d[3]:
                ls = s().join(("default" + self.osp() + ":") if l is None else ("case" + s() + self.expr(l) + ":") for l in labels)
                cs += ind + "  " + ls + s() + self.tspec(t) + s() + self.declr(dc) + ";\n"
            return "union" + s() + d[1] + s() + "switch" + self.osp() + "(" + self.osp() + self.tspec(d[2]) + self.osp() + ")" + self.osp() + "{\n" + cs + ind + "};\n"
        if k == "typedef":
            return "typedef" + s() + self.tspec(d[1]) + s() + ("," + self.osp()).join(self.declr(x) for x in d[2]) + ";\n"
        if k == "const":
            return "const" + s() + self.tspec(d[1]) + s() + d[2] + self.osp() + "=" + self.osp() + self.expr(d[3]) + ";\n"
        if k == "fwd":
            return ("union" if d[1] else "struct") + s() + d[2] + ";\n"
        if k == "unsup":
            return UNSUP_D[d[1] % len(UNSUP_D)] + ";\n"
        raise ValueError(d)

    def ppitems(self, items):
        out = ""
        for it in items:
            if it[0] == "def":
                out += self.definition(it[1])
            elif it[0] == "define":
                out += "#define " + it[1] + self.pick(["", " // flag", " /* flag */"]) + "\n"
            else:
                out += ("#ifndef " if it[1] else "#ifdef ") + it[2] + self.pick(["", " // cond"]) + "\n" + self.ppitems(it[3]) + "#endif" + self.pick(["", " // end"]) + "\n"
        return out


def idl_text(case, r=None):
    if case[0] == "spec":
        return Printer(r).ppitems(case[1])
    if case[0] == "file":
        return open(os.path.join(TESTS_DIR, case[1])).read()
    return case[2]  # broken


# ------------------------------------------------------------- IDL text -> IDL tree
# (the subset used by the repository's test files; anything else raises Bad)

SPELL_PRIM = {}
for _k, _v in PRIM_SPELL.items():
    for _s in _v:
        SPELL_PRIM[tuple(_s.split())] = _k


def jexpr(toks):
    return "".join(toks)


class IdlReader:
    def __init__(self, text):
        self.c = Cur(tokens(text))

    def spec(self):
        out = []
        while self.c.peek() is not None:
            out.append(self.definition())
        return out

    def annots(self):
        A = []
        while self.c.opt("@"):
            name = self.c.next()          # (a scoped annotation name is not read: `@key ::a::B x;`)
            arg = None
            if self.c.opt("("):
                arg = jexpr(self.c.until([")"]))
                self.c.eat(")")
                if "=" in arg:
                    raise Bad("named annotation parameter")
            A.append((name, arg))
        return A

    def scoped(self):
        ab = self.c.opt("::")
        segs = [self.c.next()]
        while self.c.opt("::"):
            segs.append(self.c.next())
        if not all(is_ident(s) for s in segs):
            raise Bad("scoped")
        return ab, segs

    def tspec(self):
        c = self.c
        for n in (3, 2, 1):
            key = tuple(c.t[c.i:c.i + n])
            if key in SPELL_PRIM:
                c.i += n
                return ("prim", SPELL_PRIM[key], " ".join(key))
        t = c.peek()
        if t == "sequence":
            c.next()
            c.eat("<")
            e = self.tspec()
            b = None
            if c.opt(","):
                b = jexpr(c.until([">"], "([{<", ")]}>"))
            c.eat(">")
            return ("seq", e, b)
        if t in ("string", "wstring"):
            c.next()
            b = None
            if c.opt("<"):
                b = jexpr(c.until([">"]))
                c.eat(">")
            return ("str" if t == "string" else "wstr", b)
        ab, segs = self.scoped()
        return ("name", ab, segs)

    def declr(self):
        n = self.c.next()
        if not is_ident(n):
            raise Bad("declarator")
        dims = []
        while self.c.opt("["):
            dims.append(jexpr(self.c.until(["]"])))
            self.c.eat("]")
        return ("a", n, dims) if dims else ("s", n)

    def declrs(self, stop):
        ds = [self.declr()]
        while self.c.opt(","):
            ds.append(self.declr())
        self.c.eat(stop)
        return ds

    def definition(self):
        c = self.c
        A = self.annots()
        t = c.next()
        if t == "module":
            n = c.next()
            c.eat("{")
            body = []
            while c.peek() != "}":
                body.append(self.definition())
            c.eat("}")
            c.eat(";")
            return ("module", n, body)
        if t == "struct":
            n = c.next()
            if c.opt(";"):
                return ("fwd", False, n)
            base = None
            if c.peek() == "::" and c.peek(1) == ":":      # `S:::a::B` is `S` `:` `::a::B`
                c.t[c.i], c.t[c.i + 1] = ":", "::"
            if c.opt(":"):
                base = self.scoped()
            c.eat("{")
            ms = []
            while c.peek() != "}":
                MA = self.annots()
                ty = self.tspec()
                ms.append((MA, ty, self.declrs(";")))
            c.eat("}")
            c.eat(";")
            return ("struct", A, n, base, ms)
        if t == "enum":
            n = c.next()
            c.eat("{")
            es = []
            while True:
                EA = self.annots()
                es.append((EA, c.next()))
                if not c.opt(","):
                    break
            c.eat("}")
            c.eat(";")
            return ("enum", A, n, es)
        if t == "union":
            n = c.next()
            if c.opt(";"):
                return ("fwd", True, n)
            c.eat("switch")
            c.eat("(")
            disc = self.tspec()
            c.eat(")")
            c.eat("{")
            cs = []
            while c.peek() != "}":
                labels = []
                while c.peek() in ("case", "default"):
                    if c.next() == "case":
                        labels.append(jexpr(c.until([":"])))
                    else:
                        labels.append(None)
                    c.eat(":")
                ty = self.tspec()
                d = self.declr()
                c.eat(";")
                cs.append((labels, ty, d))
            c.eat("}")
            c.eat(";")
            return ("union", n, disc, cs)
        if t == "typedef":
            ty = self.tspec()
            return ("typedef", ty, self.declrs(";"))
        if t == "const":
            ty = self.tspec()
            n = c.next()
            c.eat("=")
            e = jexpr(c.until([";"]))
            c.eat(";")
            return ("const", ty, n, e)
        raise Bad("definition " + t)


def read_idl(text):
    """pp-item list of a text: directives at line starts, whole definitions between them"""
    if "#" not in text:
        return [("def", d) for d in IdlReader(text).spec()]
    stack = [[]]
    heads = []
    chunk = []

    def flush():
        t = "\n".join(chunk)
        del chunk[:]
        if t.strip():
            stack[-1].extend(("def", d) for d in IdlReader(t).spec())
    for line in text.split("\n"):
        w = line.split()
        if w and w[0] in ("#define", "#ifdef", "#ifndef") and len(w) >= 2:
            flush()
            if w[0] == "#define":
                if len(w) > 2 and not w[2].startswith(("//", "/*")):
                    raise Bad("#define with a value")
                stack[-1].append(("define", w[1]))
            else:
                heads.append((w[0] == "#ifndef", w[1]))
                stack.append([])
        elif w and w[0].startswith("#endif"):
            flush()
            if not heads:
                raise Bad("#endif")
            neg, n = heads.pop()
            body = stack.pop()
            stack[-1].append(("if", neg, n, body))
        elif w and w[0].startswith("#"):
            raise Bad("directive " + w[0])
        else:
            chunk.append(line)
    flush()
    if heads:
        raise Bad("unterminated #if")
    return stack[0]


# ------------------------------------------------------------ Rust text -> Rust items

def split_top(toks, sep=","):
    parts, cur, depth = [], [], 0
    for t in toks:
        if t in "([{":
            depth += 1
        elif t in ")]}":
            depth -= 1
        if t == sep and depth == 0:
            parts.append(cur)
            cur = []
        else:
            cur.append(t)
    parts.append(cur)
    return [p for p in parts if p]


def rpath(toks):
    if not toks:
        raise Bad("empty path")
    lead = toks[0] == "::"
    rest = toks[1:] if lead else toks
    segs = rest[0::2]
    if not all(is_ident(s) for s in segs) or any(x != "::" for x in rest[1::2]) or len(rest) % 2 == 0:
        raise Bad("path %r" % toks)
    return ("path", lead, segs)


def unquote(t):
    if len(t) >= 2 and t[0] == '"' and t[-1] == '"':
        return t[1:-1]
    raise Bad("string literal expected: " + t)


def dds_arg(p):
    h = p[0]
    if len(p) == 1:
        if h in ("key", "optional", "default"):
            return ("A" + h.capitalize(),)
        return ("AOther", h)
    if p[1] == "=":
        v = p[2:]
        if h == "id":
            return ("AId", jexpr(v))
        if h == "case":
            return ("ACase", jexpr(v))
        if h == "extensibility" and len(v) == 1:
            return ("AExt", unquote(v[0]))
        if h == "name" and len(v) == 1:
            return ("AName", unquote(v[0]).split("::"))
        if h == "base_type":
            return ("ABase", rpath(v))
        if h == "bit_bound" and len(v) == 1:
            return ("ABitBound", unquote(v[0]))
    if p[1] == "(" and p[-1] == ")":
        inner = p[2:-1]
        if h == "switch":
            return ("ASwitch", rpath(inner))
        if h == "bit_bound":
            return ("ABitBound", jexpr(inner))
    return ("AOther", jexpr(p))


class RustReader:
    def __init__(self, text):
        self.c = Cur(tokens(text))

    def attrs(self):
        out = []
        c = self.c
        while c.peek() == "#":
            c.next()
            c.eat("[")
            body = c.until(["]"])
            c.eat("]")
            name = []
            while body and body[0] != "(":
                name.append(body.pop(0))
            name = "".join(name)
            inner = body[1:-1] if body and body[0] == "(" and body[-1] == ")" else None
            if name == "derive" and inner is not None:
                out.append(("derive", [jexpr(p) for p in split_top(inner)]))
            elif name == "dust_dds" and inner is not None:
                out.append(("dds", [dds_arg(p) for p in split_top(inner)]))
            else:
                out.append(("other", name + jexpr(body)))
        return out

    def ty(self):
        c = self.c
        t = c.peek()
        if t == "[":
            c.next()
            e = self.ty()
            c.eat(";")
            n = jexpr(c.until(["]"]))
            c.eat("]")
            return ("arr", e, n)
        if t == "&":
            c.next()
            c.eat("str")
            return ("refstr",)
        if t in ("Vec", "Option") and c.peek(1) == "<":
            c.next()
            c.next()
            e = self.ty()
            c.eat(">")
            return ("vec" if t == "Vec" else "opt", e)
        toks = []
        if c.peek() == "::":
            toks.append(c.next())
        toks.append(c.next())
        while c.peek() == "::":
            toks.append(c.next())
            toks.append(c.next())
        return rpath(toks)

    def field(self):
        c = self.c
        at = self.attrs()
        pub = c.opt("pub")
        n = c.next()
        if not is_ident(n):
            raise Bad("field name " + n)
        if c.peek() == "::" and c.peek(1) == ":":
            # `a:::X` is the generator's `a:` followed by `::X` (rustc reads `::` `:` and rejects it)
            c.t[c.i], c.t[c.i + 1] = ":", "::"
        c.eat(":")
        t = self.ty()
        return (at, pub, n, t)

    def fields(self):
        c = self.c
        out = []
        while c.peek() != "}":
            out.append(self.field())
            if not c.opt(","):
                break
        c.eat("}")
        return out

    def items(self, top):
        c = self.c
        out = []
        while True:
            t = c.peek()
            if t is None:
                if not top:
                    raise Bad("eof in module")
                return out
            if t == "}" and not top:
                return out
            at = self.attrs()
            c.opt("pub")
            k = c.next()
            if k == "mod":
                n = c.next()
                c.eat("{")
                body = self.items(False)
                c.eat("}")
                if at:
                    raise Bad("attribute on mod")
                out.append(("mod", n, body))
            elif k == "struct":
                n = c.next()
                c.eat("{")
                out.append(("struct", at, n, self.fields()))
            elif k == "enum":
                n = c.next()
                c.eat("{")
                vs = []
                while c.peek() != "}":
                    va = self.attrs()
                    name = jexpr(c.until(["{", "=", ",", "}"], "", ""))
                    disc = []
                    fs = None
                    while c.opt("="):
                        disc.append(jexpr(c.until([",", "}", "="])))
                    if c.opt("{"):
                        fs = self.fields()
                    vs.append((va, name, disc, fs))
                    if not c.opt(","):
                        break
                c.eat("}")
                out.append(("enum", at, n, vs))
            elif k == "type":
                n = c.next()
                c.eat("=")
                ty = self.ty()
                c.eat(";")
                if at:
                    raise Bad("attribute on type")
                out.append(("type", n, ty))
            elif k == "const":
                n = c.next()
                c.eat(":")
                ty = self.ty()
                c.eat("=")
                e = jexpr(c.until([";"]))
                c.eat(";")
                if at:
                    raise Bad("attribute on const")
                out.append(("const", n, ty, e))
            else:
                raise Bad("item " + k)
            if not is_ident(n):
                raise Bad("item name " + n)


def read_rust(text):
    return RustReader(text).items(True)


# ------------------------------------------------------------------- Coq printers

def cs(s):
    return '"' + s.replace('"', '""') + '"'


def cl(xs):
    return "[" + "; ".join(xs) + "]"


def co(x, f=cs):
    return "None" if x is None else "(Some %s)" % f(x)


def cb(b):
    return "true" if b else "false"


def q_tspec(t):
    k = t[0]
    if k == "prim":
        return "(TPrim %s)" % t[1]
    if k == "name":
        return "(TName %s %s)" % (cb(t[1]), cl([cs(s) for s in t[2]]))
    if k == "seq":
        return "(TSeq %s %s)" % (q_tspec(t[1]), co(t[2]))
    if k == "str":
        return "(TStr %s)" % co(t[1])
    if k == "wstr":
        return "(TWStr %s)" % co(t[1])
    return "(TUnsup %d%%N)" % t[1]


def q_declr(d):
    if d[0] == "s":
        return "(DSimple %s)" % cs(d[1])
    return "(DArray %s %s %s)" % (cs(d[1]), cs(d[2][0]), cl([cs(x) for x in d[2][1:]]))


def q_annots(A):
    return cl(["(mkAnnot %s %s)" % (cs(a[0]), co(a[1])) for a in A])


def q_def(d):
    k = d[0]
    if k == "module":
        return "(DModule %s %s)" % (cs(d[1]), cl([q_def(x) for x in d[2]]))
    if k == "struct":
        base = "None" if d[3] is None else "(Some (%s, %s))" % (cb(d[3][0]), cl([cs(s) for s in d[3][1]]))
        ms = cl(["(mkMember %s %s %s %s)" % (q_annots(m[0]), q_tspec(m[1]), q_declr(m[2][0]), cl([q_declr(x) for x in m[2][1:]])) for m in d[4]])
        return "(DStruct %s %s %s %s)" % (q_annots(d[1]), cs(d[2]), base, ms)
    if k == "enum":
        es = ["(mkEnumr %s %s)" % (q_annots(e[0]), cs(e[1])) for e in d[3]]
        return "(DEnum %s %s %s %s)" % (q_annots(d[1]), cs(d[2]), es[0], cl(es[1:]))
    if k == "union":
        cases = ["(mkCase %s %s %s %s)" % (co(c[0][0]), cl([co(l) for l in c[0][1:]]), q_tspec(c[1]), q_declr(c[2])) for c in d[3]]
        return "(DUnion %s %s %s %s)" % (cs(d[1]), q_tspec(d[2]), cases[0], cl(cases[1:]))
    if k == "typedef":
        return "(DTypedef %s %s %s)" % (q_tspec(d[1]), q_declr(d[2][0]), cl([q_declr(x) for x in d[2][1:]]))
    if k == "const":
        return "(DConst %s %s %s)" % (q_tspec(d[1]), cs(d[2]), cs(d[3]))
    if k == "fwd":
        return "(DFwd %s %s)" % (cb(d[1]), cs(d[2]))
    return "(DUnsup %d%%N)" % d[1]


def q_pp(it):
    if it[0] == "def":
        return "(PDef %s)" % q_def(it[1])
    if it[0] == "define":
        return "(PDefine %s)" % cs(it[1])
    return "(PIf %s %s %s)" % (cb(it[1]), cs(it[2]), cl([q_pp(x) for x in it[3]]))


def q_path(p):
    return "(mkPath %s %s)" % (cb(p[1]), cl([cs(s) for s in p[2]]))


def q_rty(t):
    k = t[0]
    if k == "path":
        return "(RPath %s)" % q_path(t)
    if k == "vec":
        return "(RVec %s)" % q_rty(t[1])
    if k == "opt":
        return "(ROpt %s)" % q_rty(t[1])
    if k == "arr":
        return "(RArr %s %s)" % (q_rty(t[1]), cs(t[2]))
    return "RRefStr"


def q_arg(a):
    k = a[0]
    if len(a) == 1:
        return k
    if k in ("AName",):
        return "(AName %s)" % cl([cs(s) for s in a[1]])
    if k in ("ABase", "ASwitch"):
        return "(%s %s)" % (k, q_path(a[1]))
    return "(%s %s)" % (k, cs(a[1]))


def q_attrs(at):
    out = []
    for a in at:
        if a[0] == "derive":
            out.append("(RDerive %s)" % cl([cs(s) for s in a[1]]))
        elif a[0] == "dds":
            out.append("(RDds %s)" % cl([q_arg(x) for x in a[1]]))
        else:
            out.append("(RAttrOther %s)" % cs(a[1]))
    return cl(out)


def q_field(f):
    return "(mkField %s %s %s %s)" % (q_attrs(f[0]), cb(f[1]), cs(f[2]), q_rty(f[3]))


def q_item(it):
    k = it[0]
    if k == "mod":
        return "(RMod %s %s)" % (cs(it[1]), cl([q_item(x) for x in it[2]]))
    if k == "struct":
        return "(RStruct %s %s %s)" % (q_attrs(it[1]), cs(it[2]), cl([q_field(f) for f in it[3]]))
    if k == "enum":
        vs = ["(mkVariant %s %s %s %s)" % (q_attrs(v[0]), cs(v[1]), cl([cs(x) for x in v[2]]),
                                          "None" if v[3] is None else "(Some %s)" % cl([q_field(f) for f in v[3]])) for v in it[3]]
        return "(REnum %s %s %s)" % (q_attrs(it[1]), cs(it[2]), cl(vs))
    if k == "type":
        return "(RType %s %s)" % (cs(it[1]), q_rty(it[2]))
    return "(RConst %s %s %s)" % (cs(it[1]), q_rty(it[2]), cs(it[3]))


# ----------------------------------------------------------------------- generator

IDL_KEYWORDS = """truncatable mirrorport primarykey typeprefix valuebase attribute component connector eventtype exception
getraises interface publishes setraises valuetype abstract bitfield consumes multiple porttype provides readonly sequence
supports typename unsigned bitmask boolean context default factory manages private typedef wstring object bitset custom
double finder import module native oneway public raises string struct switch typeid uint16 uint32 uint64 false alias
const emits fixed float inout int16 int32 int64 local octet short uint8 union wchar true case char enum home int8 long
port uses void any map out in""".split()
RUST_RESERVED = """as break const continue crate else enum extern false fn for if impl in let loop match mod move mut pub ref
return self Self static struct super trait true type unsafe use where while async await dyn abstract become box do final
macro override priv typeof unsized virtual yield try gen""".split()
NUM_PRIMS = ["PI8", "PU8", "PI16", "PU16", "PI32", "PU32", "PI64", "PU64", "PF32", "PF64", "POctet"]
ALL_PRIMS = NUM_PRIMS + ["PBool", "PChar", "PWChar"]
INT_PRIMS = ["PI8", "PU8", "PI16", "PU16", "PI32", "PU32", "PI64", "PU64", "POctet"]
WORDS = ["alpha", "Beta", "gamma", "Delta", "eps", "Zeta", "eta", "Theta", "iota", "Kappa", "lam", "Mu", "nu", "Xi", "omi",
         "Pi", "rho", "Sigma", "tau", "Ups", "phi", "Chi", "psi", "Omega", "x", "y", "z", "id", "value", "count", "name_",
         "state", "pos", "Long_", "inner", "Porter", "mapped", "anyone", "Int", "shorty", "key_", "data", "seq_", "time",
         "v1", "w_2", "_u", "Port_", "Homes", "user"]
DECOR = [("topic", None), ("nested", None), ("data_representation", "XCDR1"), ("unit", '"m"'),
         ("verbatim", '"x"'), ("Key", None), ("ID", "3"), ("keys", None)]


class Gen:
    """random specification of the supported subset; `mode` adds one boundary feature"""

    def __init__(self, r, flavour):
        self.r = r
        self.flavour = flavour          # dict of probabilities
        self.used = set()
        self.types = []                 # (abs path list, kind) declared so far, kind in struct/enum/union/alias
        self.n = 0

    def fresh(self, cap=None):
        r = self.r
        while True:
            w = r.choice(WORDS)
            if r.random() < 0.5:
                w += str(r.randint(0, 99))
            if cap is True:
                w = w[0].upper() + w[1:]
            if w.lower() in IDL_KEYWORDS or w in RUST_RESERVED or w in self.used:
                continue
            if w in ("parent", "Vec", "Option", "String", "Some", "None", "Box"):
                continue
            self.used.add(w)
            return w

    def p(self, key):
        return self.r.random() < self.flavour.get(key, 0.0)

    def int_expr(self, lo=1, hi=40):
        r = self.r
        k = r.random()
        if k < 0.8:
            return str(r.randint(lo, hi))
        if k < 0.9:
            return "%d*%d" % (r.randint(1, 6), r.randint(1, 6))
        if k < 0.95:
            return "%d+%d" % (r.randint(lo, hi), r.randint(0, 9))
        return "(%d-%d)" % (r.randint(10, 40), r.randint(0, 9))

    def bound(self, key="bound"):
        return self.int_expr() if self.p(key) else None

    def type_ref(self, mods, kinds=("struct", "enum", "union", "alias")):
        """a reference that the generated Rust can resolve: same scope, child module, or absolute inside a module"""
        r = self.r
        cands = []
        for path, kind in self.types:
            if kind not in kinds:
                continue
            scope, name = path[:-1], path[-1]
            if scope == mods:
                cands.append(("name", False, [name]))
            elif len(scope) > len(mods) and scope[:len(mods)] == mods:
                cands.append(("name", False, path[len(mods):]))
            if mods or self.p("abs_top"):
                cands.append(("name", True, path))
            if self.p("outer_ref") and len(scope) < len(mods) and mods[:len(scope)] == scope:
                cands.append(("name", False, [name]))          # enclosing-scope lookup (IDL-valid, Rust cannot resolve)
        return r.choice(cands) if cands else None

    def leaf(self, mods, allow_named=True):
        r = self.r
        k = r.random()
        if k < 0.55 or not allow_named:
            return ("prim", r.choice(ALL_PRIMS))
        if k < 0.75:
            return ("str" if r.random() < 0.6 else "wstr", self.bound())
        t = self.type_ref(mods)
        return t if t is not None else ("prim", r.choice(ALL_PRIMS))

    def tspec(self, mods, depth=0):
        r = self.r
        if self.p("unsup_t"):
            return ("unsup", r.randint(0, len(UNSUP_T) - 1))
        k = r.random()
        if k < 0.25 and depth < 2:
            inner = self.tspec(mods, depth + 1) if self.p("nested_seq") else self.leaf(mods)
            return ("seq", inner, self.bound())
        return self.leaf(mods)

    def declr(self, arrays=0.2):
        n = self.fresh()
        if self.r.random() < arrays:
            dims = [self.int_expr(1, 9)]
            while self.p("multi_dim") and len(dims) < 3:
                dims.append(self.int_expr(1, 5))
            return ("a", n, dims)
        return ("s", n)

    def member(self, mods, mutable):
        r = self.r
        A = []
        if r.random() < 0.3:
            A.append(("key", None))
        if r.random() < (0.5 if mutable else 0.15):
            self.n += 1
            A.append(("id", str(self.n + r.randint(0, 50)) if r.random() < 0.9 else None))
        if r.random() < 0.15:
            A.append(("optional", None))
        if len(A) > 1 and not self.p("split"):
            A = [r.choice(A)]
        r.shuffle(A)
        for _ in range(3):
            if r.random() < 0.1:
                A.insert(r.randint(0, len(A)), r.choice(DECOR))
        nd = 1
        if r.random() < 0.2:
            nd = r.randint(2, 3)
        recognised = any(a[0] in ("key", "optional") or (a[0] == "id" and a[1] is not None) for a in A)
        if nd > 1 and recognised and not self.p("multi_annot"):
            nd = 1
        return (A, self.tspec(mods), [self.declr() for _ in range(nd)])

    def struct(self, mods):
        r = self.r
        n = self.fresh(True)
        A = []
        ext = r.choice([None, None, "final", "appendable", "mutable"])
        if ext is not None:
            A.append((ext, None))
        for _ in range(2):
            if r.random() < 0.15:
                A.insert(r.randint(0, len(A)), r.choice(DECOR))
        base = None
        if r.random() < 0.12:
            b = self.type_ref(mods, ("struct",))
            if b is not None:
                base = (b[1], b[2])
        # would the generator emit two attributes?  keep that for the split flavour
        nattr = (1 if ext else 0) + (1 if mods else 0) + (1 if base else 0)
        if nattr > 1 and not self.p("split"):
            if base is not None and nattr > 1:
                base = None
                nattr -= 1
            if nattr > 1:
                A = [a for a in A if a[0] != ext]
                ext = None
        ms = [self.member(mods, ext == "mutable") for _ in range(r.choice([0, 1, 1, 2, 2, 3, 3, 4, 5]))]
        self.types.append((mods + [n], "struct"))
        return ("struct", A, n, base, ms)

    def enum(self, mods):
        r = self.r
        n = self.fresh(True)
        A = []
        if self.p("bit_bound") and (not mods or self.p("split")):
            A.append(("bit_bound", r.choice(["8", "16", "32"])))
        if r.random() < 0.1:
            A.append(r.choice(DECOR))
        es = []
        v = 0
        for _ in range(r.randint(1, 6)):
            EA = []
            if r.random() < 0.3:
                v += r.randint(1, 100)
                EA.append(("value", str(v)))
            if r.random() < 0.05:
                EA.append(r.choice(DECOR))
            es.append((EA, self.fresh(True).upper() if r.random() < 0.5 else self.fresh(True)))
        self.types.append((mods + [n], "enum"))
        return ("enum", A, n, es)

    def union(self, mods):
        r = self.r
        n = self.fresh(True)
        if self.p("odd_switch"):
            disc = r.choice([("prim", "PBool"), ("prim", "PChar"), ("prim", "PWChar"), self.type_ref(mods, ("enum",)) or ("prim", "PChar")])
        else:
            disc = ("prim", r.choice(INT_PRIMS))
        cs_ = []
        lab = 0
        has_default = False
        for _ in range(r.randint(1, 4)):
            labels = []
            for _ in range(r.choice([1, 1, 1, 2, 3])):
                if not has_default and r.random() < 0.12:
                    labels.append(None)
                    has_default = True
                else:
                    lab += r.randint(1, 9)
                    labels.append(str(lab) if disc[1] in INT_PRIMS else ("'%s'" % chr(96 + min(lab, 26)) if disc[1] in ("PChar", "PWChar") else ("TRUE" if lab % 2 else "FALSE") if disc[1] == "PBool" else "L%d" % lab))
            cs_.append((labels, self.tspec(mods), self.declr(0.15)))
        self.types.append((mods + [n], "union"))
        return ("union", n, disc, cs_)

    def typedef(self, mods):
        r = self.r
        t = self.tspec(mods)
        ds = []
        for _ in range(r.choice([1, 1, 1, 2])):
            if self.p("typedef_array"):
                ds.append(("a", self.fresh(True), [self.int_expr(1, 9)]))
            else:
                ds.append(("s", self.fresh(True)))
        for d in ds:
            self.types.append((mods + [d[1]], "alias"))
        return ("typedef", t, ds)

    def const(self, mods):
        r = self.r
        n = self.fresh().upper() if r.random() < 0.7 else self.fresh()
        if n in self.used and n.lower() in IDL_KEYWORDS:
            n = n + "_K"
        k = r.random()
        if k < 0.5:
            p = r.choice(INT_PRIMS)
            neg = p in ("PI8", "PI16", "PI32", "PI64") and r.random() < 0.4
            return ("const", ("prim", p), n, ("-" if neg else "") + self.int_expr(0, 100))
        if k < 0.65:
            return ("const", ("prim", r.choice(["PF32", "PF64"])), n, "%d.%d" % (r.randint(0, 99), r.randint(0, 9)))
        if k < 0.8:
            return ("const", ("str", self.bound()), n, '"%s"' % r.choice(["BAR", "x y", "", "a::b"]))
        if k < 0.87:
            return ("const", ("prim", "PChar"), n, "'%s'" % r.choice("abz"))
        if k < 0.94 and self.p("bool_const"):
            return ("const", ("prim", "PBool"), n, r.choice(["TRUE", "FALSE"]))
        return ("const", ("prim", "PI32"), n, "0x%X" % r.randint(0, 255))

    def definition(self, mods, depth):
        r = self.r
        k = r.random()
        if self.p("unsup_d"):
            return ("unsup", r.randint(0, len(UNSUP_D) - 1))
        if k < 0.40:
            return self.struct(mods)
        if k < 0.52:
            return self.enum(mods)
        if k < 0.64:
            return self.union(mods)
        if k < 0.74:
            return self.typedef(mods)
        if k < 0.84:
            return self.const(mods)
        if k < 0.88:
            return ("fwd", r.random() < 0.3, self.fresh(True))
        if depth < 3:
            n = self.fresh(True) if r.random() < 0.5 else self.fresh()
            body = [self.definition(mods + [n], depth + 1) for _ in range(r.randint(0 if self.p("empty_module") else 1, 3))]
            return ("module", n, body)
        return self.struct(mods)

    def spec(self):
        r = self.r
        defs = [self.definition([], 0) for _ in range(r.randint(1, 4))]
        items = [("def", d) for d in defs]
        if self.p("pp"):
            flags = ["FLAG_%s" % c for c in "QWZ"]
            out = []
            for it in items:
                k = r.random()
                if k < 0.25:
                    out.append(("define", r.choice(flags)))
                if k < 0.6:
                    body = [it]
                    if r.random() < 0.3:
                        body.insert(0, ("define", r.choice(flags)))
                    if r.random() < 0.25:
                        body = [("if", r.random() < 0.5, r.choice(flags), body)]
                    out.append(("if", r.random() < 0.5, r.choice(flags), body))
                else:
                    out.append(it)
            items = out
        return items


def rename_some(items, r, pool):
    """replaces one declared identifier by a word from `pool` (reserved words)"""
    names = []

    def walk(d):
        if d[0] == "module":
            names.append(d[1])
            for x in d[2]:
                walk(x)
        elif d[0] == "struct":
            names.append(d[2])
            for m in d[4]:
                names.extend(x[1] for x in m[2])
        elif d[0] == "enum":
            names.append(d[2])
            names.extend(e[1] for e in d[3])
        elif d[0] == "union":
            names.append(d[1])
            names.extend(c[2][1] for c in d[3])
        elif d[0] == "typedef":
            names.extend(x[1] for x in d[2])
        elif d[0] in ("const",):
            names.append(d[2])
        elif d[0] == "fwd":
            names.append(d[2])

    def pp(its):
        for it in its:
            if it[0] == "def":
                walk(it[1])
            elif it[0] == "if":
                pp(it[3])
    pp(items)
    if not names:
        return items
    old = r.choice(names)
    new = r.choice(pool)

    def sub(x):
        if isinstance(x, str):
            return new if x == old else x
        if isinstance(x, tuple):
            return tuple(sub(y) for y in x)
        if isinstance(x, list):
            return [sub(y) for y in x]
        return x
    return sub(items)


BASE = {"bound": 0.0, "split": 0.0, "multi_annot": 0.0, "multi_dim": 0.0, "nested_seq": 0.15, "abs_top": 0.0,
        "outer_ref": 0.0, "unsup_t": 0.0, "unsup_d": 0.0, "typedef_array": 0.0, "odd_switch": 0.1, "bit_bound": 0.1,
        "bool_const": 0.3, "pp": 0.15, "empty_module": 0.0}
FLAVOURS = [
    (0.46, {}),                                               # clean: supported subset, no known class
    (0.10, {"bound": 0.5}),                                   # class 1
    (0.07, {"multi_annot": 1.0}),                             # annotated member with several declarators (former class 2)
    (0.06, {"multi_dim": 0.6}),                               # class 3
    (0.09, {"split": 1.0}),                                   # several #[dust_dds] attributes on one item (former class 4)
    (0.05, {"bound": 0.3, "split": 0.7, "multi_annot": 0.7, "multi_dim": 0.4}),   # mixtures
    (0.04, {"abs_top": 0.5, "outer_ref": 0.5}),               # name forms rustc cannot resolve (structure still compared)
    (0.04, {"unsup_t": 0.08}), (0.03, {"unsup_d": 0.15}), (0.02, {"typedef_array": 0.5}),
    (0.02, {"empty_module": 0.6}), (0.02, {"pp": 1.0}),
]


def one_spec(r, override=None):
    x = r.random()
    acc = 0.0
    fl = {}
    for w, f in FLAVOURS:
        acc += w
        if x < acc:
            fl = f
            break
    flavour = dict(BASE)
    flavour.update(fl)
    if override:
        flavour.update(override)
    items = Gen(r, flavour).spec()
    k = r.random()
    if k < 0.03:
        items = rename_some(items, r, [w if r.random() < 0.5 else w.capitalize() for w in IDL_KEYWORDS] + ["IN", "Any", "MAP", "Object"])
    elif k < 0.05:
        items = rename_some(items, r, [w for w in RUST_RESERVED if w.lower() not in IDL_KEYWORDS])
    return items


def gen(r, tier):
    n = {"quick": 450, "search": 3000, "thorough": 5000}[tier]
    cases = []
    for _ in range(n):
        items = one_spec(r)
        case = ("spec", items)
        cases.append(("spec", items, idl_text(case, r)))
    for i, t in enumerate(BROKEN):
        cases.append(("broken", i, t))
    # the reserved-word rule, systematically: every keyword in a random case spelling is rejected as an
    # identifier, a keyword with a suffix or prefix is accepted
    for i, w in enumerate(IDL_KEYWORDS):
        sp = r.choice([w, w.capitalize(), w.upper()])
        pos = r.randint(0, 3)
        name = sp if r.random() < 0.75 else r.choice([sp + "_", sp + "1", "_" + sp, "x" + sp])
        if name in RUST_RESERVED:
            continue
        d = [("struct", [], name, None, [([], ("prim", "PI32"), [("s", "a")])]),
             ("struct", [], "S%d" % i, None, [([], ("prim", "PI32"), [("s", name)])]),
             ("enum", [], "E%d" % i, [([], "A"), ([], name)]),
             ("module", name, [("const", ("prim", "PI32"), "K", "1")])][pos]
        items = [("def", d)]
        cases.append(("spec", items, idl_text(("spec", items), r)))
    return cases


def corpus():
    out = []
    for f in sorted(glob.glob(os.path.join(TESTS_DIR, "*.idl"))):
        try:
            text = open(f).read()
            items = read_idl(text)
        except (Bad, OSError, IndexError):
            continue
        out.append(("spec", items, text))
    # minimised regression cases
    fixed = [
        'struct User { wstring<8> name; sequence<unsigned long, 2> deps; };',
        'struct S { @key long a, b; };',                                       # regression: fix 7270bfe
        '@mutable struct S { @key @id(4) long a, b[2]; @optional string c, d; @id(9) long e, f, g; };',   # regression: fix 7270bfe
        'struct S { long x[2][3]; };',
        'module M { @mutable struct A { @id(7) @key long y; }; };',            # regression: fix 99bf327
        'module M { struct P { long a; }; @appendable struct C : P { @optional @id(3) long b; }; @mutable struct D { @key @id(5) long x; @id(7) @key long y; long z; }; };',   # regression: fix 99bf327
        'struct S { @key @id(1) int32 id; };',
        'struct Person { @id(1) string name; @id(2) int32 age; long rest; }; @appendable struct Q { long a; @id(9) long b; };',   # regression: fix 7ee9e78
        'module M { @bit_bound(8) enum E { A, B }; };',
        'struct P { long a; }; struct C : P { long b; };',
        'module M { struct P { long a; }; struct C : P { long b; }; };',
        'module foo { typedef long Bar; module frob { struct Baz { @key ::foo::Bar qux; }; }; };',
        'union U switch(long) { case 1: long a; case 2: case 3: string b[2]; default: octet c; };',
        'typedef long Arr[3];',
        'struct In { long a; };',
        'struct S { long Port; };',
        'struct S { u8 a; };',
        'typedef sequence<long> LS, LT; const long K = 3 * 4;',
        'typedef long Bar; const Bar X = 3; module M { typedef short Sh; module N { const ::M::Sh Y = 4; const string<5> Z = "ab"; }; };',
        '@final struct A { @id long a; @optional @key long b; @value(3) long c; }; enum E { @value(1) P, @id(4) Q };',
        'module a { module b { module c { struct D { long x; }; union U switch(octet) { default: ::a::b::c::D d[2][2]; }; }; }; };',
        'struct P { long parent; }; struct C : P { P parent; }; struct Vec { long String; }; struct S { Vec v; i32 w; };',
    ]
    for t in fixed:
        out.append(("spec", read_idl(t), t))
    out.append(("spec", [("def", ("struct", [], "F", None, [([], ("unsup", 0), [("s", "f")])]))], "struct F { fixed<5,2> f; };"))
    out.append(("spec", [("define", "FLAG_Q"), ("if", False, "FLAG_Q", [("def", ("struct", [], "A", None, []))]),
                         ("if", True, "FLAG_Q", [("def", ("struct", [], "B", None, []))])],
                "#define FLAG_Q\n#ifdef FLAG_Q\nstruct A {};\n#endif\n#ifndef FLAG_Q\nstruct B {};\n#endif\n"))
    return out


# ------------------------------------------------------------------------ plumbing

def case_line(c):
    return c[2].replace("\\", "\\\\").replace("\n", "\\n").replace("\r", "")


def parse_line(line):
    text = line.replace("\\n", "\n").replace("\\\\", "\\")
    try:
        return ("spec", read_idl(text), text)
    except (Bad, IndexError):
        return None


def out_term(out):
    if out == "ERR":
        return "OErr"
    if out.startswith("PANIC"):
        return "OPanic"
    if out == "OK" or out.startswith("OK "):
        try:
            items = read_rust(out[3:])
        except (Bad, IndexError):
            return "OGarbage"
        return "(OItems %s)" % cl([q_item(i) for i in items])
    return None


def case_term(c, out):
    o = out_term(out)
    if o is None:
        return None
    if c[0] == "broken":
        return "mkC41 (InBroken %d%%N) %s" % (c[1], o)
    return "mkC41 (InSpec %s) %s" % (cl([q_pp(i) for i in c[1]]), o)


def has_members(items):
    def d_has(d):
        if d[0] == "module":
            return any(d_has(x) for x in d[2])
        if d[0] == "struct":
            return len(d[4]) > 0
        return d[0] in ("enum", "union")

    def pp(its):
        return any((it[0] == "def" and d_has(it[1])) or (it[0] == "if" and pp(it[3])) for it in its)
    return pp(items)


def nontrivial(c, out):
    if c[0] == "spec" and out.startswith("OK ") and has_members(c[1]):
        return c[2]
    return None


def distribution(cases, outs):
    d = {}
    for c, o in zip(cases, outs):
        k = c[0] + "/" + o.split(" ")[0]
        d[k] = d.get(k, 0) + 1
    return d


# ------------------------------------------ "the generated code compiles" (observed)

def py_preprocess(items, env=None):
    env = set() if env is None else env
    out = []
    for it in items:
        if it[0] == "def":
            out.append(it[1])
        elif it[0] == "define":
            env.add(it[1])
        elif (it[2] in env) != it[1]:
            out.extend(py_preprocess(it[3], env))
    return out


def compile_obstacles(defs):
    """(defects, invalid): `defects` = reasons why rustc is NOT expected to accept the generated code although the
    IDL is fine (each confirmed on the real tool chain; recorded as known finding
    C41-generated-code-does-not-compile); `invalid` = reasons why the IDL itself is not a valid input (the case
    is then no evidence either way).  Both empty = the generated code must compile."""
    why = set()
    invalid = set()
    decl = {}     # absolute path tuple -> kind ('struct','enum','union','alias-scalar','alias-coll')

    def resolve(mods, t):
        ab, segs = t[1], t[2]
        if ab:
            if not mods:
                why.add("absolute scoped name outside any module (`a:::X` is not Rust)")
            if tuple(segs) not in decl:
                invalid.add("reference to an undeclared name")
            return decl.get(tuple(segs))
        k = decl.get(tuple(mods + segs))
        if k is None:
            for cut in range(len(mods) - 1, -1, -1):
                if tuple(mods[:cut] + segs) in decl:
                    why.add("name resolved through an enclosing IDL scope (Rust paths do not search outwards)")
                    return decl[tuple(mods[:cut] + segs)]
            invalid.add("reference to an undeclared name")
        return k

    def constructed(mods, t):
        if t[0] == "seq":
            return constructed(mods, t[1])
        return t[0] == "name" and resolve(mods, t) in ("struct", "enum", "union", None)

    def elem_ok(mods, t, what):
        if t[0] in ("seq",):
            why.add("%s of sequence (no DataStorageMapping for Vec<Vec<T>> / [Vec<T>;N])" % what)
        elif t[0] == "name":
            if resolve(mods, t) == "alias-coll":
                why.add("%s of a typedef'd sequence" % what)

    def check_type(mods, t, declr, optional):
        if t[0] == "unsup":
            invalid.add("unsupported type")
            return
        if t[0] == "seq":
            elem_ok(mods, t[1], "sequence")
            if t[1][0] == "seq":
                check_type(mods, t[1], ("s", "_"), False)
        k = resolve(mods, t) if t[0] == "name" else None
        if declr[0] == "a":
            elem_ok(mods, t, "array")
        if optional and constructed(mods, t):
            why.add("@optional member of (a sequence of) a constructed type (derive compares Option<T> with !=)")

    def walk(mods, d):
        k = d[0]
        if k == "module":
            if not d[2]:
                invalid.add("empty module")
            for x in d[2]:
                walk(mods + [d[1]], x)
        elif k == "struct":
            if d[3] is not None:
                resolve(mods, ("name", d[3][0], d[3][1]))
            for A, t, ds in d[4]:
                opt = any(a[0] == "optional" for a in A)
                for dc in ds:
                    check_type(mods, t, dc, opt)
            decl[tuple(mods + [d[2]])] = "struct"
        elif k == "enum":
            if any(a[0] == "bit_bound" and a[1] is not None for a in d[1]):
                why.add("@bit_bound enum (generator writes bit_bound(N), derive expects bit_bound = \"N\")")
            decl[tuple(mods + [d[2]])] = "enum"
        elif k == "union":
            if not (d[2][0] == "prim" and d[2][1] in INT_PRIMS):
                why.add("union discriminator that is not an integer type (labels are copied verbatim)")
            if d[2][0] == "name":
                resolve(mods, d[2])
            for labels, t, dc in d[3]:
                check_type(mods, t, dc, False)
            decl[tuple(mods + [d[1]])] = "union"
        elif k == "typedef":
            check_type(mods, d[1], ("s", "_"), False)
            coll = d[1][0] == "seq" or (d[1][0] == "name" and resolve(mods, d[1]) == "alias-coll")
            for dc in d[2]:
                if dc[0] == "a":
                    invalid.add("typedef of an array")
                decl[tuple(mods + [dc[1]])] = "alias-coll" if coll else "alias-scalar"
        elif k == "const":
            if d[3] in ("TRUE", "FALSE"):
                why.add("IDL boolean literal copied verbatim")
            if d[1][0] == "name":
                resolve(mods, d[1])
        elif k == "unsup":
            invalid.add("unsupported definition")

    for d in defs:
        walk([], d)
    idents = set()

    def tid(t):
        if t[0] == "name":
            idents.update(t[2])
        elif t[0] == "seq":
            tid(t[1])

    def dids(d):
        k = d[0]
        if k == "module":
            idents.add(d[1])
            for x in d[2]:
                dids(x)
        elif k == "struct":
            idents.add(d[2])
            if d[3] is not None:
                idents.update(d[3][1])
            for A, t, ds in d[4]:
                tid(t)
                idents.update(x[1] for x in ds)
        elif k == "enum":
            idents.add(d[2])
            idents.update(e[1] for e in d[3])
        elif k == "union":
            idents.add(d[1])
            tid(d[2])
            for labels, t, dc in d[3]:
                tid(t)
                idents.add(dc[1])
        elif k == "typedef":
            tid(d[1])
            idents.update(x[1] for x in d[2])
        elif k == "const":
            tid(d[1])
            idents.add(d[2])
        elif k == "fwd":
            idents.add(d[2])
    for d in defs:
        dids(d)
    if idents & set(RUST_RESERVED):
        invalid.add("identifier reserved in Rust")
    if idents & {"data", "src"}:
        why.add("a constant or union member named like a local variable of the derive macro (data / src)")
    return sorted(why), sorted(invalid)


COMPILE_PROBES = [
    "@bit_bound(16) enum HttpStatusCode { @value(100) CONTINUE, @value(200) OK };",
    "struct Sentence { sequence<sequence<unsigned long> > dependencies; };",
    "const boolean MY_BOOL = TRUE;",
    "module M { struct A { long x; }; module N { struct B { A a; }; }; };",
    "struct I { long x; }; struct S { @optional I z; };",
    "enum E { A, B }; union U switch(E) { case A: long x; case B: short y; };",
]
COMPILE_FINDING = "C41-generated-code-does-not-compile"
CRATE = os.path.join(CACHE, "c41gen", "crate")


def write_crate(sources, main_body="fn main() {}\n"):
    shutil.rmtree(os.path.join(CRATE, "src"), ignore_errors=True)
    os.makedirs(os.path.join(CRATE, "src"))
    with open(os.path.join(CRATE, "Cargo.toml"), "w") as f:
        f.write('[package]\nname = "c41gen"\nversion = "0.1.0"\nedition = "2024"\n\n[workspace]\n\n'
                '[dependencies]\ndust_dds = { path = "%s/dds" }\n\n[profile.dev]\ndebug = false\nopt-level = 1\n' % REPO)
    shutil.copyfile(os.path.join(os.path.dirname(CACHE), "harness", "Cargo.lock"), os.path.join(CRATE, "Cargo.lock"))
    for i, src in sources:
        with open(os.path.join(CRATE, "src", "c%d.rs" % i), "w") as f:
            f.write(src + "\n")
    with open(os.path.join(CRATE, "src", "main.rs"), "w") as f:
        f.write("#![allow(warnings)]\n" + "".join("mod c%d;\n" % i for i, _ in sources) + main_body)


CARGO_ENV = {"CARGO_TARGET_DIR": os.path.join(CACHE, "target"), "RUSTFLAGS": "--cfg dust_dds_verif"}


SHOW_FN = """
fn show(i: usize, path: &str, t: dust_dds::xtypes::dynamic_type::DynamicType<'static>) {
    let d = t.descriptor;
    let ms: Vec<String> = t.member_list.iter().map(|m| {
        let m = &m.descriptor;
        format!("{}:{}:{}:{}", m.name, m.id, m.is_key as u8, m.is_optional as u8)
    }).collect();
    println!("S {} {} {} {:?} {} {}", i, path, d.name, d.extensibility_kind, d.base_type.is_some() as u8, ms.join(","));
}
"""


def struct_paths(items, mods=()):
    out = []
    for it in items:
        if it[0] == "mod":
            out += struct_paths(it[2], mods + (it[1],))
        elif it[0] == "struct":
            out.append(mods + (it[2],))
    return out


def parse_obs(out):
    obs = {}
    for l in out.splitlines():
        p = l.split(" ")
        if len(p) < 6 or p[0] != "S":
            continue
        members = []
        for m in (p[6].split(",") if len(p) > 6 and p[6] else []):
            n, mid, key, opt = m.rsplit(":", 3)
            members.append("(mkOM %s %s %s %s)" % (cs(n), cs(mid), cb(key == "1"), cb(opt == "1")))
        obs.setdefault(int(p[1]), []).append("(mkOS %s %s %s %s %s)" % (
            cl([cs(x) for x in p[2].split("::")]), cl([cs(x) for x in p[3].split("::")]), cs(p[4].lower()),
            cb(p[5] == "1"), cl(members)))
    return obs


def build_and_describe(cands, timeout=2400):
    """cands: list of (index, generated text, parsed items or None).  Builds a scratch crate (one module per
    case, main prints the dynamic type description of every generated struct) against dust_dds; modules with
    located rustc errors are recorded and removed, then the build is repeated until it succeeds; the binary
    is run.  Returns (failed {index: [errors]}, obs {index: [obs_struct terms]}) or a string."""
    failed = {}
    cur = list(cands)
    for _ in range(6):
        calls = []
        for i, _, items in cur:
            for p in (struct_paths(items) if items is not None else []):
                calls.append('    show(%d, "%s", <c%d::%s as dust_dds::xtypes::type_support::Type>::TYPE);\n'
                             % (i, "::".join(p), i, "::".join(p)))
        write_crate([(i, src) for i, src, _ in cur], SHOW_FN + "fn main() {\n" + "".join(calls) + "}\n")
        with Lock("cargo"):
            rc, out = sh(["cargo", "build", "--offline", "--message-format=short"], cwd=CRATE, timeout=timeout, env=CARGO_ENV)
        if rc == 0:
            rc, out = sh([os.path.join(CACHE, "target", "debug", "c41gen")], timeout=300)
            if rc != 0:
                return "description printer crashed: " + out[-400:]
            return failed, parse_obs(out)
        bad = {}
        for l in out.splitlines():
            m = re.match(r"src/c(\d+)\.rs:\d+:\d+: error(\[E\d+\])?: (.*)", l)
            if m:
                bad.setdefault(int(m.group(1)), []).append(((m.group(2) or "") + " " + m.group(3))[:160])
        if not bad:
            return "cargo build failed without an error located in a generated module: " + out[-800:]
        failed.update(bad)
        cur = [c for c in cur if c[0] not in bad]
    return "the scratch crate still does not build after removing the rejected modules"


def extra(ctx, binary):
    from vlib.core import run_harness, known_ids, coq_eval_cases
    import random
    r = random.Random("C41-compile-%d" % ctx.seed)
    want = {"quick": 40, "thorough": 300}.get(ctx.tier, 40)
    batch = []           # (kind, case)
    for c in corpus():
        batch.append(("corpus", c))
    for t in COMPILE_PROBES:
        batch.append(("probe", ("spec", read_idl(t), t)))
    tries = 0
    while sum(1 for k, _ in batch if k == "gen") < want and tries < want * 30:
        tries += 1
        items = one_spec(r, {"nested_seq": 0.0, "odd_switch": 0.0, "bit_bound": 0.0, "bool_const": 0.0, "unsup_t": 0.0,
                             "unsup_d": 0.0, "typedef_array": 0.0, "abs_top": 0.0, "outer_ref": 0.0, "empty_module": 0.0})
        if any(compile_obstacles(py_preprocess(items))):
            continue
        if not has_members(items):
            continue
        batch.append(("gen", ("spec", items, idl_text(("spec", items), r))))
    lines = [case_line(c) for _, c in batch]
    outs = run_harness(binary, HARNESS, lines)
    cands = []
    for i, o in enumerate(outs):
        if not o.startswith("OK "):
            continue
        if compile_obstacles(py_preprocess(batch[i][1][1]))[1]:
            continue                      # not a valid input: no evidence either way
        try:
            items = read_rust(o[3:])
        except (Bad, IndexError):
            items = None
        cands.append((i, o[3:], items))
    ngen = sum(1 for k, _ in batch if k == "gen")
    cov = {"generated_cases": ngen, "corpus_and_probes": len(batch) - ngen, "checked_by_rustc": len(cands)}
    res = build_and_describe(cands)
    if isinstance(res, str):
        ctx.broken.append("compile observation could not run: " + res)
        ctx.cov["compile_observation"] = cov
        return
    failed, obs = res
    known = known_ids(PID)
    rejected_known = 0
    for i, src, _ in cands:
        if i not in failed:
            continue
        why = compile_obstacles(py_preprocess(batch[i][1][1]))[0]
        if why and COMPILE_FINDING in known:
            rejected_known += 1
            ctx.known_seen.setdefault(COMPILE_FINDING, lines[i])
        else:
            ctx.violations.append(("compile", "generated Rust does not compile against dust_dds (%s) for IDL: %s"
                                   % ("; ".join(failed[i][:2]), lines[i]),
                                   {"case": lines[i], "harness": HARNESS, "impl_output": outs[i], "rustc": failed[i][:5],
                                    "expected_obstacles": why}))
    cov["compiled"] = len(cands) - len(failed)
    cov["rejected_in_known_constructs"] = rejected_known
    ctx.cov["compile_observation"] = cov
    ctx.assumptions.append("compile observation: %d generated + %d corpus/probe specifications, %d built by rustc against dust_dds; "
                           "%d compiled, %d rejected inside the recorded constructs" %
                           (ngen, cov["corpus_and_probes"], len(cands), cov["compiled"], rejected_known))
    # second tie: the compiled generated code prints its dynamic type descriptions
    terms, where = [], []
    for i, _, items in cands:
        if i in failed or items is None or not struct_paths(items):
            continue
        terms.append("mkC41d %s %s %s" % (cl([q_pp(x) for x in batch[i][1][1]]), cl([q_item(x) for x in items]), cl(obs.get(i, []))))
        where.append(i)
    mb, ob, err = coq_eval_cases(ctx, CORR, "C41d", "C41d_case", terms, tag="desc")
    if err:
        ctx.broken.append("description correspondence evaluation failed: " + err[-600:])
    for j in mb[:3]:
        ctx.broken.append("correspondence C41d: the descriptions printed by the compiled code differ from the modelled reading "
                          "of the derive macro, e.g. %s -> %s" % (lines[where[j]], " ".join(obs.get(where[j], []))[:400]))
    nknown = 0
    for j, cls in ob:
        fid = KNOWN.get(cls)
        if fid is not None and fid in known:
            ctx.known_seen.setdefault(fid, lines[where[j]])
            nknown += 1
        else:
            ctx.violations.append(("descriptions", "type descriptions of the compiled generated code do not have the declared structure: %s -> %s"
                                   % (lines[where[j]], " ".join(obs.get(where[j], []))[:600]),
                                   {"case": lines[where[j]], "harness": HARNESS, "impl_output": outs[where[j]],
                                    "descriptions": obs.get(where[j], [])}))
    ctx.cov["description_observation"] = {"specifications": len(terms), "structs": sum(len(v) for v in obs.values()),
                                          "reading_disagreements": len(mb), "in_known_classes": nknown}


MANIFEST = {
    "text": ("Machine-checked proof (Coq) over a model of the IDL compiler's Rust generator (dds_gen/src/generator/rust.rs, "
             "rule by rule, plus the reserved-word rule of the grammar and the #define/#ifdef gating of the preprocessor): "
             "for EVERY specification of the supported subset that is outside two recorded classes, the structure read off "
             "the generated Rust items the way #[derive(DdsType)] reads them (names, module nesting, member order and "
             "kinds, array sizes, keys, member ids, optional flags, extensibility, base type, qualified type name, "
             "enumerators and values, union discriminator, case labels and default) equals the structure the IDL declares; "
             "names, nesting, enumerators and labels are preserved for all supported specifications without exception, and "
             "for all of them the structure is preserved up to exactly what the classes present can lose. The two classes "
             "are refuted by witnesses and recorded as known findings: string/sequence bounds are dropped (D34) and "
             "array dimensions after the first are dropped (further classes were fixed in /repo: 7270bfe, 99bf327, 7ee9e78). Two ties to the code on every run: (1) the real compiler is run on random "
             "specifications and on the repository's own test IDL files, its output is parsed and compared with the model "
             "inside Coq, and the oracle is applied to the real output; (2) the generated code of a batch of cases is "
             "compiled against dust_dds in a scratch crate (rustc must accept it outside the recorded constructs) and the "
             "compiled crate prints the dynamic type description of every generated struct, which is compared inside Coq "
             "with the modelled reading of the derive macro and with the declared keys, ids, optional flags, names, "
             "extensibility and base. PARTIAL: pest parsing and rustc are outside the model; 'compiles' is observed."),
    "note": ("Trusted: Coq kernel + vm_compute; hand model IdlModel.v; the IDL printer/reader and the Rust-text reader of "
             "props/C41.py; harness. Axioms: none. Not covered: interfaces, named annotation parameters, #include and "
             "#define with a value, constructs the generator answers with todo!(); the description-level model of the "
             "derive macro is tied by correspondence only (no theorem). Known findings: C41-bounds-dropped, "
             "C41-array-dimensions-dropped, "
             "C41-generated-code-does-not-compile."),
    "technique": "Coq proof (structural induction over the syntax tree) + differential correspondence with the real compiler, oracle evaluated in Coq; cargo check/build of generated code, printed type descriptions compared in Coq",
}
