"""C27 — Reliable KEEP_LAST writers block instead of dropping unacknowledged samples."""
from props._writer import *  # noqa: F401,F403
from props import _writer as W

PID = "C27"
PROPS_FILE = "Props/C27.v"
PREFIX = "C27"
KNOWN = {1: "C27-second-blocked-write-error"}
RULE = ("a case is one simulator scenario: a KEEP_LAST(d) data writer (reliable, sometimes best-effort) matched with a "
        "reliable KEEP_ALL reader (sometimes a second reliable or best-effort reader), then bursts of writes to one and "
        "several instances interleaved with datagram delivery, time advances and fault rules that drop or hold the "
        "reader's ACKNACKs (sometimes DATA); at the end all faults are cleared, everything is delivered, the reader is "
        "taken and a late-joining TRANSIENT_LOCAL reader shows the writer history; distinct = distinct scenario line; "
        "non-trivial = at least one write was parked (PENDING)")
TRUSTED = ["theories/WriterHist/WriterModel.v is a hand transcription of the writer service methods of writer_methods.rs, "
           "data_writer_entity.rs and the acknowledgement state of rtps/stateful_writer.rs + reader_proxy.rs (checked "
           "against the code by the correspondence run); the ACKNACKs and match events the writer saw are inputs of a case",
           "harness/src/bin/wrt.rs (scenario interpreter on the simulated stack vh::sim) and props/_writer.py"]
ASSUMPTIONS = ["the worker is woken at the expiration of a parked write (its select sleeps min(50 ms, time until expiration)); "
               "the simulated timer is exact, so Timeout is observed at issue time + max_blocking_time",
               "times stay far from the i32-seconds saturation (C14); sequence numbers do not overflow i64",
               "the delivery claim (what was answered Ok reaches the reader) is observed end to end on the simulator and "
               "relies on the reliable protocol (C01) once all faults are cleared; the Coq theorems are about the writer side"]

MBT = [0, 1_000_000, 50_000_000, 100_000_000, 100_000_000, 200_000_000, -1]


def gen_scenario(r, tier):
    d = r.choice([1, 1, 1, 2, 2, 3]) if r.random() < 0.96 else -1
    mbt = r.choice(MBT)
    rel = 1 if r.random() < 0.9 else 0
    q = {"rel": rel, "hist": d, "mbt": mbt, "dur": 1}
    # a best-effort writer only matches best-effort readers: control group, never parked
    ops = ["P 0", "T 0 t", "PUB 0", "SUB 0", "W 0 0 " + W.w_opts(q), "R 0 0 rel=%d" % rel]
    second = r.random() < 0.25
    if second:
        ops.append("R 0 0 rel=%d" % (r.choice([0, 1]) if rel else 0))
    ops += ["net", "ms 0"]
    keys = [1, 2, 3]
    hot = r.choice(keys)
    n = r.randint(8, 40 if tier == "quick" else 90)
    faulty = r.random() < 0.85
    if faulty:
        ops.append(r.choice(["fault drop ACKNACK -1 -1 -1", "fault hold ACKNACK -1 -1 -1",
                             "fault drop ACKNACK -1 -1 2", "fault hold ACKNACK -1 -1 3"]))
    data_faults = r.random() < 0.2
    deleted = False
    now = 1_000_000_000
    for _ in range(n):
        x = r.random()
        if x < 0.55:
            k = hot if r.random() < 0.65 else r.choice(keys)
            if r.random() < 0.4:
                # explicit source timestamp, unrelated to the clock: the blocking time must not depend on it
                ts = r.choice([now - 10_000_000_000, 0, 1, now + 5_000_000_000, now, now - 1, now + mbt if mbt > 0 else now + 1])
                ops.append("w 0 %d %d %d" % (k, r.choice([2, 10, 30]), ts))
            else:
                ops.append("w 0 %d %d" % (k, r.choice([2, 10, 30])))
        elif x < 0.70:
            ops.append("net" if r.random() < 0.8 else "net %d" % r.randint(1, 3))
        elif x < 0.86:
            m = mbt if mbt > 0 else 100_000_000
            dt = r.choice([1_000_000, 10_000_000, 50_000_000, m, max(1, m - 1), m + 1, 120_000_000, 250_000_000])
            now += dt
            ops.append("adv %d" % dt)
        elif x < 0.93:
            if second and not deleted and r.random() < 0.3:
                deleted = True
                ops.append("delR 1")
            else:
                ops.append(r.choice(["clr", "rel", "rel", "clr"]))
        else:
            ops.append(r.choice(["fault drop ACKNACK -1 -1 -1", "fault hold ACKNACK -1 -1 -1",
                                 "fault drop ACKNACK -1 -1 1", "fault hold ACKNACK -1 -1 2"] +
                                (["fault drop DATA -1 -1 1", "fault drop HEARTBEAT -1 -1 2"] if data_faults else [])))
    if not rel:
        return " ; ".join(ops + ["clr", "rel", "net", "adv 260000000", "net", "t 0 0"])
    ops += ["clr", "rel", "net", "adv 260000000", "net", "adv 260000000", "net", "tr 0 0"]
    if r.random() < 0.7:
        ops += ["mark", "R 0 0 rel=1 dur=1", "net", "adv 10000000", "net", "hist 0"]
    return " ; ".join(ops)


def gen(r, tier):
    n = {"quick": 60, "search": 250, "thorough": 800}[tier]
    return [gen_scenario(r, tier) for _ in range(n)]


def corpus():
    hdr = "P 0 ; T 0 t ; PUB 0 ; SUB 0 ; "
    end = " ; clr ; rel ; net ; adv 260000000 ; net ; adv 260000000 ; net ; tr 0 0 ; mark ; R 0 0 rel=1 dur=1 ; net ; adv 10000000 ; net ; hist 0"
    return [
        # dropped ACKNACKs: the second write to the instance is parked and times out at issue + max_blocking_time;
        # a write to another instance goes through; finding C27-second-blocked-write-error (w 3)
        hdr + "W 0 0 rel=1 hist=1 mbt=100000000 dur=1 ; R 0 0 rel=1 ; net ; ms 0 ; fault drop ACKNACK -1 -1 -1 ; "
              "w 0 1 10 ; w 0 1 10 ; w 0 2 10 ; w 0 1 10 ; net ; adv 60000000 ; adv 60000000 ; w 0 1 10 ; clr ; adv 200000000 ; net" + end,
        # held ACKNACKs: the parked write completes when the ACKNACK arrives
        hdr + "W 0 0 rel=1 hist=2 mbt=100000000 dur=1 ; R 0 0 rel=1 ; net ; ms 0 ; fault hold ACKNACK -1 -1 -1 ; "
              "w 0 1 10 ; w 0 1 10 ; net ; w 0 1 10 ; adv 50000000 ; rel ; clr ; net ; w 0 1 10 ; w 0 1 10 ; w 0 1 10 ; net" + end,
        # the DATA of the first sample is lost: it may only be replaced after the reader has it (a writer that
        # replaced it at once would lose it for good: the reader would be sent a GAP)
        hdr + "W 0 0 rel=1 hist=1 mbt=100000000 dur=1 ; R 0 0 rel=1 ; net ; ms 0 ; fault drop DATA 1 -1 -1 ; "
              "w 0 1 10 ; net ; w 0 1 10 ; net ; adv 150000000" + end,
        # the blocking time runs on the clock, not on the sample's source timestamp: parked writes with a source
        # timestamp far in the past (-9 s, 0, 1 ns) still wait max_blocking_time and time out at park time + 100 ms ...
        hdr + "W 0 0 rel=1 hist=1 mbt=100000000 dur=1 ; R 0 0 rel=1 ; net ; ms 0 ; fault drop ACKNACK -1 -1 -1 ; "
              "w 0 1 10 ; w 0 1 10 -9000000000 ; adv 99999999 ; adv 1 ; w 0 1 10 0 ; adv 50000000 ; adv 50000000 ; "
              "w 0 1 10 1 ; adv 100000000" + end,
        # ... and complete with Ok when the ACKNACK arrives well inside the blocking time
        hdr + "W 0 0 rel=1 hist=1 mbt=200000000 dur=1 ; R 0 0 rel=1 ; net ; ms 0 ; fault hold ACKNACK -1 -1 -1 ; "
              "w 0 1 10 ; net ; w 0 1 10 -9000000000 ; adv 50000000 ; rel ; clr ; net ; fault hold ACKNACK -1 -1 -1 ; "
              "w 0 1 10 0 ; adv 10000000 ; net ; rel ; clr ; net" + end,
        # a source timestamp in the future (+5 s) does not prolong the wait: Timeout at park time + 100 ms,
        # and with max_blocking_time 0 at once
        hdr + "W 0 0 rel=1 hist=1 mbt=100000000 dur=1 ; R 0 0 rel=1 ; net ; ms 0 ; fault drop ACKNACK -1 -1 -1 ; "
              "w 0 1 10 ; w 0 1 10 6000000000 ; adv 100000000 ; w 0 2 10 6100000000 ; w 0 2 10 6100000000 ; adv 99999999 ; adv 1" + end,
        hdr + "W 0 0 rel=1 hist=1 mbt=0 dur=1 ; R 0 0 rel=1 ; net ; ms 0 ; fault drop ACKNACK -1 -1 -1 ; "
              "w 0 1 10 6000000000 ; w 0 1 10 6000000000 ; w 0 1 10 -9000000000" + end,
        # boundary of the blocking time: one nanosecond before / exactly at the expiration
        hdr + "W 0 0 rel=1 hist=1 mbt=100000000 dur=1 ; R 0 0 rel=1 ; net ; ms 0 ; fault drop ACKNACK -1 -1 -1 ; "
              "w 0 1 10 ; w 0 1 10 ; adv 99999999 ; adv 1 ; w 0 1 10 ; adv 100000000" + end,
        # max_blocking_time 0 and infinite
        hdr + "W 0 0 rel=1 hist=1 mbt=0 dur=1 ; R 0 0 rel=1 ; net ; ms 0 ; fault drop ACKNACK -1 -1 -1 ; w 0 1 10 ; w 0 1 10 ; w 0 1 10" + end,
        hdr + "W 0 0 rel=1 hist=1 mbt=-1 dur=1 ; R 0 0 rel=1 ; net ; ms 0 ; fault hold ACKNACK -1 -1 -1 ; w 0 1 10 ; w 0 1 10 ; net ; adv 250000000 ; adv 250000000" + end,
        # no reader at all / best-effort writer: never parked, the oldest sample is replaced
        "P 0 ; T 0 t ; PUB 0 ; SUB 0 ; W 0 0 rel=1 hist=2 mbt=100000000 dur=1 ; w 0 1 10 ; w 0 1 10 ; w 0 1 10 ; w 0 2 10 ; "
        "mark ; R 0 0 rel=1 dur=1 ; net ; adv 10000000 ; net ; hist 0",
        hdr + "W 0 0 rel=0 hist=1 mbt=100000000 dur=1 ; R 0 0 rel=0 ; net ; ms 0 ; w 0 1 10 ; w 0 1 10 ; w 0 1 10 ; net",
        # one of two readers that never acknowledged is deleted while a write is parked: its proxy leaves the
        # writer; the parked write still waits for the other reader and times out, a later write goes through
        # once that reader has acknowledged
        hdr + "W 0 0 rel=1 hist=1 mbt=100000000 dur=1 ; R 0 0 rel=1 ; R 0 0 rel=1 ; net ; ms 0 ; fault drop ACKNACK -1 -1 -1 ; "
              "w 0 1 10 ; w 0 1 10 ; net ; delR 1 ; net ; adv 10000000 ; clr ; net ; adv 300000000 ; net ; w 0 1 10 ; adv 150000000 ; net",
        # the only reader is deleted while a write is parked: nobody is left to wait for, the write completes
        hdr + "W 0 0 rel=1 hist=1 mbt=200000000 dur=1 ; R 0 0 rel=1 ; net ; ms 0 ; fault drop ACKNACK -1 -1 -1 ; "
              "w 0 1 10 ; w 0 1 10 ; net ; delR 0 ; net ; adv 10000000 ; w 0 1 10 ; adv 300000000",
        # regression, fixed finding C27-depth-zero-unbounded (97407f5): KEEP_LAST(0) is an inconsistent QoS, the writer is not created
        hdr + "W 0 0 rel=1 hist=-1 mbt=100000000 dur=1 ; R 0 0 rel=1 ; net ; ms 0 ; w 0 1 10 ; w 0 1 10 ; w 0 1 10 ; net" + end,
    ]


def nontrivial(c, out):
    return c if "PENDING" in out else None


def distribution(cases, outs):
    d = {}

    def add(k, n):
        if n:
            d[k] = d.get(k, 0) + n

    for c, o in zip(cases, outs):
        toks = o.split()
        add("parked", sum(1 for t in toks if t == "PENDING"))
        add("timeout", sum(1 for t in toks if t.startswith("!") and ":E10:" in t) + o.count(" E10 @"))
        add("completed-by-ack", sum(1 for t in toks if t.startswith("!") and t.split(":")[1] == "0"))
        add("second-blocked-error", o.count(" E1 @"))
        add("writes", sum(1 for x in c.split(";") if x.strip().startswith("w ")))
        add("acks", sum(1 for t in toks if t.startswith("A") and t.count(":") == 3))
        add("reader-deleted", c.count("delR"))
        add("data-or-heartbeat-faults", c.count("drop DATA") + c.count("drop HEARTBEAT"))
    return d


MANIFEST = {
    "text": ("Machine-checked proof (Coq) over a model of the writer-side KEEP_LAST logic (write_w_timestamp with the pending "
             "sample slot, process_pending_write_samples, check_pending_writer_sample_timeout, the acknowledgement state of the "
             "reader proxies): in every step of every event sequence a change leaves the history through KEEP_LAST replacement "
             "only if all matched reliable reader proxies have acknowledged it; an instance never holds more than depth samples "
             "(a writer can only be created with depth >= 1); a write answered Timeout stores nothing and is answered exactly at its expiration; a parked write is "
             "written as soon as the acknowledgement arrives. The model is tied to the code by whole-stack simulator scenarios "
             "that drop or hold ACKNACKs while bursts of writes are issued; every reply, completion time and the final history "
             "are compared with the model inside Coq, and the oracle checks on the real run that exactly the writes answered Ok "
             "reach the reliable reader."),
    "note": ("Trusted: Coq kernel + vm_compute; hand model WriterModel.v; simulator harness and scenario translator. Axioms: "
             "none. Known finding: C27-second-blocked-write-error (a second write that must wait is answered Error, not parked). "
             "Fixed in /repo: C27-depth-zero-unbounded (97407f5, KEEP_LAST(0) is now an inconsistent QoS; regression case kept)."),
    "technique": "Coq proof (one-step invariants over all event sequences) + simulator-driven differential correspondence with oracle evaluated in Coq",
}
