"""C02 — Best-effort delivery never duplicates, reorders or corrupts samples."""
from props._rel import *  # noqa
from props import _rel

PID = "C02"
PROPS_FILE = "Props/C02.v"
PREFIX = "C02"
KNOWN = {}
RULE = ("a case is one scenario on the simulated real stack (two participants, one writer, one BEST_EFFORT reader, "
        "reliable or best-effort writer, KEEP_ALL / KEEP_LAST 1-3, 1-3 instances, fragment size 64/128/1344, 1-13 "
        "writes of sizes around the fragment boundary): after every write a burst of network events on the queued "
        "user datagrams (deliver / drop / duplicate the i-th one or the first one carrying a given submessage kind, "
        "sequence number and fragment; time ticks; FIFO pump), takes, queue listings, a final healing period and "
        "take; distinct = distinct scenario line; non-trivial = at least two writes, one fault/reordering event "
        "and a take that returned something")
gen = _rel.gen_for("C02")


def corpus():
    return [
        # DATA 3 overtakes DATA 1, DATA 1 late and twice, a fragment of sample 2 lost, DATA 4 duplicated
        parse_line(PRE % (64, 0, 0, 0) + " ; R 0 1 rel=0 dur=0 ; netm ; w 0 1 4 11 ; w 0 1 117 22 ; w 0 2 4 33 ; "
                   "w 0 1 4 44 ; q ; dl 4 ; du 0 ; dr 1 ; dl 2 ; du 0 ; dl 0 ; t 0 0 ; q"),
        # fragments out of order, one twice, interleaved with a later sample; reliable writer, best-effort reader
        parse_line(PRE % (64, 1, 0, 0) + " ; R 0 1 rel=0 dur=0 ; netm ; w 0 1 4 11 ; w 0 1 117 22 ; w 0 2 4 33 ; "
                   "dl 2 ; dl 2 ; du 1 ; dl 1 ; dl 0 ; t 0 0 ; q"),
        # KEEP_LAST 1, two instances: GAPs for evicted samples on the best-effort path, reordered
        parse_line(PRE % (128, 0, 0, 1) + " ; w 0 1 4 1 ; w 0 2 4 2 ; w 0 2 4 3 ; R 0 1 rel=0 dur=0 ; netm ; q ; "
                   "dl 2 ; dl 0 ; dl 0 ; w 0 1 4 4 ; w 0 2 4 5 ; q ; dl 1 ; dl 0 ; t 0 0 ; adv 250000000 ; pu ; t 0 0 ; q"),
        # regression for C04-besteffort-hole-skips-sample (repaired by d974049): KEEP_LAST 1, keys 1,2,2 -> held {1,3};
        # a late BEST_EFFORT TRANSIENT_LOCAL reader is sent DATA(1), GAP(2) AND DATA(3)
        parse_line(PRE % (1344, 0, 1, 1) + " ; w 0 1 10 11 ; w 0 2 10 22 ; w 0 2 10 33 ; R 0 1 rel=0 dur=1 ; netm ; q ; pu ; "
                   "t 0 0 ; w 0 1 10 44 ; q ; pu ; t 0 0 ; q"),
    ]


MANIFEST = {
    "text": ("Machine-checked proof (Coq) over a model of the RTPS writer/reader state machines "
             "(stateful_writer.rs, reader_proxy.rs, writer_proxy.rs, stateful_reader.rs and the DCPS glue) with an "
             "explicit network of queued datagrams: for EVERY QoS configuration and EVERY finite schedule of writes, "
             "removals, time ticks, deliveries in any order, drops and duplications, the list of samples the reader "
             "presents is a subsequence of the publication log in publication order, with strictly increasing "
             "sequence numbers (each sample at most once) and the published records themselves (payload identity). "
             "Proof by induction over the schedule with the invariant: every DATA / DATA_FRAG in flight or buffered is "
             "cut from a logged change, the presented list is strictly increasing and bounded by "
             "highest_received_change_sn, and a sample is accepted only above available_changes_max. Duplicate "
             "fragments are buffered once. The model is tied to the code by running each scenario on the real stack "
             "in a deterministic simulation (real participants, discovery, writer, reader; in-memory network under "
             "the scenario's control) and comparing inside Coq every observation - take results, API results, "
             "simulated time and the complete content of the datagram queue (submessage kinds, sequence numbers, "
             "fragment numbers, counts, bitmaps) - with the model's prediction; the oracle (presented samples are an "
             "in-order, duplicate-free, checksum-identical subsequence of what was written) is applied to the real "
             "take results."),
    "note": ("Trusted: Coq kernel, hand model RelModel.v (correspondence-checked on every run), simulation harness, "
             "generator. Axioms: none. Payload bytes are abstracted to (key, serialized length, checksum); byte-level "
             "reassembly of fragments is C05. One writer/reader pair."),
    "technique": "Coq proof (invariant over all schedules) + differential correspondence on a deterministic whole-stack simulation",
}
