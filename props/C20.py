"""C20 — read/take return exactly the matching samples with correct SampleInfo."""
from props._reader import *  # noqa
from props import _reader

PID = "C20"
PROPS_FILE = "Props/C20.v"
PREFIX = "C20"
KNOWN = {1: "C20-not-grouped-by-instance"}
RULE = ("a case is a reader QoS plus a sequence of 1-40 operations (add_reader_change of alive/filtered/disposed/"
        "unregistered changes from 1-3 writers over 1-4 instances, read/take with random sample/view/instance-state "
        "masks, max_samples in {-1, 0, 1, 2, 3, 10, i32::MAX} and an optional (sometimes unknown) instance argument, "
        "read/take_next_instance, match/unmatch) run on a fresh real UserDefinedDataReader; the state before every "
        "read/take is observed on a replayed copy; distinct = distinct operation line; non-trivial = at least two "
        "adds, one read/take and one stored sample")
gen = _reader.gen_for("readtake")


def corpus():
    return [
        # witness of the recorded finding C20-not-grouped-by-instance: instances 1,2,1 are returned interleaved
        parse_line("Q 0 0 -1 -1 -1 0 0 ; A 1 1 0 1 100 10 ; A 1 2 0 2 101 20 ; A 1 1 0 3 102 30 ; R -1 3 3 7 -1"),
        # ranks over a dispose/rebirth inside one collection (absolute_generation_rank defect, fixed in aa0de23)
        parse_line("Q 0 0 -1 -1 -1 0 0 ; A 1 1 0 1 100 10 ; A 1 1 2 2 101 20 ; A 1 1 0 3 102 30 ; A 1 2 0 4 103 40 ; "
                   "A 1 1 0 5 104 50 ; R 3 3 3 7 -1 ; T -1 2 3 7 1 ; R 2147483647 3 3 7 -1"),
        # max_samples 0 / 1, masks that exclude everything, unknown instance argument
        parse_line("Q 0 0 -1 -1 -1 0 0 ; A 1 1 0 1 100 10 ; A 1 2 0 2 101 20 ; R 0 3 3 7 -1 ; R 1 3 3 7 -1 ; "
                   "R 10 2 3 7 -1 ; R 10 1 3 7 2 ; T 10 3 2 7 -1 ; T 10 3 3 6 -1 ; R 10 3 3 7 9 ; T 1 3 3 7 2"),
        # unregister / no-writers rebirth, take then read of the rest
        parse_line("Q 0 0 -1 -1 -1 0 0 ; A 1 1 0 1 100 10 ; A 1 1 3 2 101 20 ; A 1 1 0 3 102 30 ; T 2 3 3 7 -1 ; "
                   "A 1 1 0 4 103 40 ; R -1 3 3 7 1"),
    ]


MANIFEST = {
    "text": ("Coq proofs over the model of create_sample_collection (the retain_mut loop, rank fill-in, mark_viewed), "
             "for EVERY cache state (so for every QoS and every history) and all max_samples / masks / instance "
             "arguments: the result is the SampleInfo list of the first max_samples stored samples whose sample "
             "state, and whose instance's view and instance state, are in the masks (and of the requested instance), "
             "in storage order; read sets exactly those samples READ and keeps everything, take removes exactly "
             "those and keeps the order of the rest; only the instances in the collection become NOT_NEW; NoData iff "
             "nothing matches or max_samples = 0, BadParameter iff the instance argument is unknown, and then nothing "
             "changes; sample_rank / generation_rank / absolute_generation_rank equal the DDS 1.4 definitions; "
             "sample_state in the info is the state before the call. By induction over histories (all QoS): every "
             "stored sample has an instance record, instance handles are distinct, a sample's generation never "
             "exceeds its instance's and (BY_RECEPTION_TIMESTAMP) generations are non-decreasing along the cache, "
             "hence 0 <= generation_rank <= absolute_generation_rank in every collection. The model is tied to the code by "
             "exact comparison on generated histories inside Coq, and an independent oracle (expected collection "
             "computed from the observed pre-state, ranks, read/take effects, grouping) judges every collection "
             "the real reader returned."),
    "note": ("Trusted: Coq kernel, hand model ReaderModel.v (correspondence-checked each run), harness, generator. "
             "Axioms: none. Known finding C20-not-grouped-by-instance: collections are returned in storage order, so "
             "samples of one instance are not consecutive when instances interleave in the cache (DDS 1.4 2.2.2.5.3.8 "
             "requires it for access_scope INSTANCE); proved grouped on the complement (matching samples contiguous "
             "per instance, or an instance argument) and refuted by a witness. Defect fixed earlier: "
             "absolute_generation_rank (aa0de23)."),
    "technique": "Coq proof (loop specification by induction, invariants over operation histories) + differential correspondence",
}
