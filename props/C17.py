"""C17 — participant discovery, domain isolation, ignore and lease expiry (whole-stack simulation)."""
import json
from vlib.core import cz, clist

PID = "C17"
PROPS_FILE = "Props/C17.v"
CORR = "Disc.LeaseCorr"
CORR_MODULES = ["Disc.LeaseCorr"]
PREFIX = "C17"
CASE_TYPE = "C17_case"
HARNESS = "disc"
KNOWN = {}
RULE = ("one case = one simulated scenario (real stack, 2-4 participants with domain id 0/1 and domain tag ''/'a', "
        "lease durations rewritten in the SPDP datagrams, simulated clock moved in explicit steps incl. the exact "
        "lease boundary, SPDP datagram loss / mute / cross-domain delivery, ignore_participant, delete_participant); "
        "every get_discovered_participants reply of every participant is compared; distinct = distinct scenario line; "
        "non-trivial = some participant discovered another one and some lease expired or an announcement was refused")
TRUSTED = ["theories/Disc/LeaseModel.v is a hand transcription of add_discovered_participant, remove_discovered_participant, "
           "remove_stale_participants, ignore_participant and the last_communication_timestamp refresh points",
           "harness/src/bin/disc.rs + harness/src/sim.rs; the harness moves the simulated clock by 1 ns when the worker "
           "busy-loops on a zero delay at the exact lease boundary (reported and compared with the model)",
           "props/C17.py maps delivered datagrams (reported by the harness) to model events"]
ASSUMPTIONS = ["time is modelled as integer nanoseconds (Time/Duration arithmetic and normalisation: C14)",
               "the worker wakes at least every 50 ms (the timer requests are C31); the removal upper bound is lease + the gap between wakes",
               "lease durations are > 0 and normalized on the wire (dust-dds itself always announces 100 s)"]

S = 10**9
MS = 10**6
TAGS = {"": 0, "a": 1}
LEASES = [None, 1 * S, 2 * S, 3 * S, 700 * MS, 2 * S]
JUMPS = [1, 2, 50 * MS, 300 * MS, 500 * MS, 700 * MS, S - 1, S, S + 1, 2 * S - 1, 2 * S, 2 * S + 1, 3 * S, 1]


def compile_case(c):
    """c = {parts: [[dom, tag, lease|None], ...], ann: ms, ev: [...]} -> (ops, plan)"""
    ops, plan = [], []

    def op(o, what=None):
        ops.append(o)
        plan.append(what)

    op("# " + json.dumps(c, separators=(",", ":")))
    cur_tag = ""
    op("cfg ann=%d" % c["ann"])
    for i, (dom, tag, lease) in enumerate(c["parts"]):
        if tag != cur_tag:
            op("cfg ann=%d tag=%s" % (c["ann"], tag))
            cur_tag = tag
        op("P %d" % dom)
        if lease is not None:
            op("lease %d %d" % (i, lease))
    op("now", ("time",))
    n = len(c["parts"])
    alive = list(range(n))
    ntop = 0
    for e in c["ev"]:
        k = e[0]
        if k == "net":
            op("net", ("net",))
        elif k == "loss":
            op("mfault drop %d %d SPDP %d" % (e[1], e[2], e[3]))
        elif k == "jump":
            op("jump %d" % e[1], ("jump", e[1]))
            op("wake %d" % (alive[0] if alive else 0), ("wake",))
            op("now", ("time",))
        elif k == "mute":
            op("mute %d %d" % (e[1], e[2]))
        elif k == "ign":
            if e[1] in alive:
                op("ign %d %d" % (e[1], e[2]), ("ign", e[1], e[2]))
                op("now", ("time",))
        elif k == "delP":
            if e[1] in alive and len(alive) > 1:
                op("delP %d" % e[1], ("del", e[1]))
                op("now", ("time",))
                alive.remove(e[1])
        elif k == "xd":
            if e[1] in alive and e[2] in alive:
                op("xdeliver %d %d" % (e[1], e[2]), ("xd", e[1], e[2]))
        elif k == "topic":
            if e[1] in alive:
                op("T %d n%d" % (e[1], ntop))
                op("now", ("time",))
                ntop += 1
        elif k == "obs":
            for p in alive:
                op("dp %d" % p, ("obs", p))
    return ops, plan


def case_line(c):
    return " ; ".join(compile_case(c)[0])


def parse_line(line):
    return json.loads(line.split(";")[0].strip()[2:])


def ann_term(c, q):
    dom, tag, lease = c["parts"][q]
    return "(mkAnn %d (Some %d) %d %s)" % (q, dom, TAGS[tag], cz(100 * S if lease is None else lease))


def case_term(c, out):
    ops, plan = compile_case(c)
    if out is None or out.startswith("PANIC") or out.startswith("ABORT") or out.startswith("HANG"):
        return None   # reported as a violation with the scenario as replay
    stuck = out.endswith("| STUCK zero-delay-spin")
    if stuck:
        # the worker never left a zero-delay loop; the harness finished the scenario in stuck mode:
        # judge the observations (oracle) and make the model comparison fail in any case (see below)
        out = out[:-len("| STUCK zero-delay-spin")].rstrip()
    outs = [x.strip() for x in out.split(" | ")]
    if len(outs) != len(ops):
        return None
    items = []
    now = None
    pend_jump = None
    for o, w in zip(outs, plan):
        if w is None:
            continue
        t = o.split()
        if w[0] == "time":
            now = int(t[1])
        elif w[0] == "net":
            for tok in t[1:]:
                cls, rest = tok[0], tok[1:]
                q, p = (int(x) for x in rest.split(">"))
                if cls == "S":
                    items.append("LEv %d (ESpdp %s) %d" % (p, ann_term(c, q), now))
                elif cls == "X":
                    items.append("LEv %d (EDispose %d) %d" % (p, q, now))
                elif cls in "EU":
                    items.append("LEv %d (EData %d) %d" % (p, q, now))
        elif w[0] == "jump":
            pend_jump = (now + w[1], int(t[1]))
        elif w[0] == "wake":
            if pend_jump is None or len(t) < 2:
                return None
            items.append("LWake %d %d" % (pend_jump[0], pend_jump[1] + int(t[1])))
            pend_jump = None
        elif w[0] == "ign":
            if o != "ign 0":
                return None
            items.append("LEv %d (EIgnore %d) %d" % (w[1], w[2], now))
        elif w[0] == "del":
            if o == "delP 0":
                items.append("LDel %d" % w[1])
            elif not o.startswith("delP E"):   # E4: it still owns a topic and stays alive
                return None
        elif w[0] == "xd":
            if o == "xd 1":
                items.append("LEv %d (ESpdp %s) %d" % (w[2], ann_term(c, w[1]), now))
        elif w[0] == "obs":
            if t[0] != "dp" or any(not (x[0] == "p" and x[1:].isdigit()) for x in t[1:]):
                return None
            items.append("LObs %d %s" % (w[1], clist([x[1:] for x in t[1:]])))
    if stuck:
        items.append("LWake 0 (-1)")   # no model run has a negative bump count: always a model disagreement
    parts = clist(["(%d, %d, %d)" % (i, p[0], TAGS[p[1]]) for i, p in enumerate(c["parts"])])
    return "mkC17 %s %s" % (parts, clist(items))


# ------------------------------------------------------------------ generator
def gen_case(r, tier):
    n = r.choice([2, 3, 3, 4])
    style = r.random()
    parts = []
    for i in range(n):
        if style < 0.5:
            dom, tag = 0, ""
        else:
            dom = 0 if r.random() < 0.7 else 1
            tag = "" if r.random() < 0.7 else "a"
        parts.append([dom, tag, r.choice(LEASES)])
    ann = r.choice([400, 1000, 1000, 5000])
    ev = [["net"], ["obs"]]
    muted = set()
    if n >= 3 and r.random() < 0.3:
        # staggered silence: a long-lease participant goes silent first, a short-lease one is heard later and
        # then goes silent too: the short lease must expire although an older-heard participant is still alive
        a, b = r.sample(range(1, n), 2)
        parts[0][:2] = parts[a][:2] = parts[b][:2] = [0, ""]
        parts[a][2] = None
        parts[b][2] = r.choice([700 * MS, S, 2 * S])
        ann = r.choice([200, 400])
        ev += [["mute", a, 1], ["jump", r.choice([300 * MS, 450 * MS, 600 * MS])], ["net"], ["obs"], ["mute", b, 1],
               ["jump", parts[b][2] + r.choice([1, 50 * MS, S])], ["obs"]]
        muted |= {a, b}
    m = r.randint(6, 16 if tier == "quick" else 30) + len(ev)
    while len(ev) < m:
        k = r.random()
        if k < 0.30:
            ev.append(["jump", r.choice(JUMPS)])
            if r.random() < 0.6:
                ev.append(["obs"])
        elif k < 0.45:
            ev.append(["net"])
            ev.append(["obs"])
        elif k < 0.55:
            p = r.randrange(n)
            on = 0 if p in muted else 1
            (muted.add if on else muted.discard)(p)
            ev.append(["mute", p, on])
        elif k < 0.63:
            ev.append(["loss", r.randrange(n), r.choice([-1] + list(range(n))), r.choice([1, 2, 3, -1])])
        elif k < 0.71:
            p, q = r.randrange(n), r.randrange(n)
            ev.append(["ign", p, q])
            ev.append(["obs"])
        elif k < 0.76:
            ev.append(["delP", r.randrange(n)])
        elif k < 0.86:
            # a datagram that crosses the domain / tag boundary when the scenario has one
            pairs = [(q, p) for q in range(n) for p in range(n) if q != p and parts[q][:2] != parts[p][:2]]
            q, p = r.choice(pairs) if pairs and r.random() < 0.8 else (r.randrange(n), r.randrange(n))
            ev.append(["xd", q, p])
            ev.append(["obs"])
        elif k < 0.90:
            ev.append(["topic", r.randrange(n)])
        elif k < 0.96:
            # traffic keeps arriving within the lease while the total time exceeds it (refresh points)
            for _ in range(r.randint(2, 4)):
                ev.append(["jump", r.choice([400 * MS, 700 * MS, 900 * MS])])
                ev.append(["net"])
            ev.append(["obs"])
        else:
            ev.append(["obs"])
    ev += [["net"], ["obs"]]
    return {"parts": parts, "ann": ann, "ev": ev}


def gen(r, tier):
    n = {"quick": 36, "search": 200, "thorough": 1200}[tier]
    return [gen_case(r, tier) for _ in range(n)]


def corpus():
    return [
        # lease boundary: still there at last+lease-1ns and at last+lease (the worker spins until the clock moves), gone 1 ns later
        {"parts": [[0, "", None], [0, "", 2 * S]], "ann": 5000,
         "ev": [["net"], ["obs"], ["mute", 1, 1], ["jump", 2 * S - 1], ["obs"], ["jump", 1], ["obs"], ["jump", 1], ["obs"]]},
        # isolation: other domain id (cross delivery) and other tag
        {"parts": [[0, "", None], [1, "", None], [0, "a", None], [0, "", None]], "ann": 1000,
         "ev": [["net"], ["obs"], ["xd", 1, 0], ["xd", 0, 1], ["xd", 2, 0], ["obs"], ["jump", S], ["net"], ["obs"]]},
        # ignore: never rediscovered although it keeps announcing
        {"parts": [[0, "", None], [0, "", None]], "ann": 400,
         "ev": [["net"], ["obs"], ["ign", 0, 1], ["obs"], ["jump", S], ["net"], ["obs"], ["xd", 1, 0], ["obs"]]},
        # announcement loss then eventual discovery; expiry and rediscovery after unmute
        {"parts": [[0, "", S], [0, "", S]], "ann": 400,
         "ev": [["loss", 1, 0, 2], ["net"], ["obs"], ["jump", 500 * MS], ["net"], ["obs"], ["mute", 1, 1], ["jump", S + 1], ["obs"],
                ["mute", 1, 0], ["jump", 500 * MS], ["net"], ["obs"]]},
        # the periodic announcement refreshes last_communication: still there 2.5 s after discovery (lease 2 s), gone 2 s after the last one
        {"parts": [[0, "", None], [0, "", 2 * S]], "ann": 400,
         "ev": [["net"], ["obs"], ["jump", 1500 * MS], ["net"], ["obs"], ["jump", S], ["obs"], ["mute", 1, 1], ["jump", S + 1], ["obs"]]},
        # different leases: A (100 s) heard at t0, B (1 s) heard at t0 + 0.3 s, both silent, 2 s later B must be gone and A present
        # (the oldest-heard participant is not the one that expires)
        {"parts": [[0, "", None], [0, "", None], [0, "", S]], "ann": 200,
         "ev": [["net"], ["obs"], ["mute", 1, 1], ["jump", 300 * MS], ["net"], ["obs"], ["mute", 2, 1], ["jump", 2 * S], ["obs"],
                ["jump", 50 * MS], ["obs"]]},
        # graceful departure
        {"parts": [[0, "", None], [0, "", None], [0, "", None]], "ann": 1000,
         "ev": [["net"], ["obs"], ["delP", 1], ["net"], ["obs"]]},
    ]


def nontrivial(c, out):
    if out and ("dp p0 p1" in out or "dp p1 p0" in out or " p1 " in out):
        return case_line(c)
    return None


def distribution(cases, outs):
    d = {}
    for c in cases:
        for e in c["ev"]:
            d[e[0]] = d.get(e[0], 0) + 1
    return d


MANIFEST = {
    "text": ("Machine-checked proof (Coq) over a model of add_discovered_participant / remove_discovered_participant / "
             "remove_stale_participants / ignore_participant and the last-communication refresh, for ALL event histories: "
             "every discovered participant carries the local domain id (or none) and the local domain tag; an ignored "
             "participant is never in the list again; a participant that stops communicating stays while every wake has "
             "now - last <= lease and is removed by the first wake with now - last > lease, i.e. within (lease, lease + gap "
             "between wakes]; an accepted announcement puts the sender in the list and it stays there while traffic keeps "
             "arriving within the lease. Tied to the code by whole-stack simulation with a controlled clock (incl. the exact "
             "nanosecond of the lease boundary), SPDP loss, cross-domain datagrams, ignore and delete; every "
             "get_discovered_participants reply is compared with the model inside Coq and checked against an independent "
             "set-level specification."),
    "note": ("Holds on the unchanged tree. Side observation (not part of the property): at now - last == lease exactly the "
             "worker asks the timer for a zero delay in a loop until the clock moves. Trusted: Coq kernel + vm_compute, hand "
             "model, simulator harness, datagram-to-event mapping in props/C17.py."),
    "technique": "Coq invariant proofs over all histories + whole-stack simulation correspondence",
}
