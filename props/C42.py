"""C42 — standard runtime timers and blocking helpers behave as specified (PARTIAL by nature)."""
from vlib.core import cz, cbool, clist

PID = "C42"
PROPS_FILE = "Props/C42.v"
CORR = "Sched.TimerCorr"
CORR_MODULES = ["Sched.TimerCorr"]
PREFIX = "C42"
CASE_TYPE = "C42_case"
HARNESS = "c42"
KNOWN = {}
RULE = ("one case = one run of the real std_runtime code: a script of sleep/poll/drop/is_elapsed/reset/wait/barrier "
        "operations on one TimerDriver (recording wakers, recorded Instants), or one block_timeout / block_on call on a "
        "scripted multi-stage future, or a set of tasks on one Executor; all random choices from one PRNG; distinct = "
        "distinct input line; non-trivial = at least one timer wake-up / one wake of the blocked future was observed")
TRUSTED = ["theories/Sched/TimerModel.v, TimerBlockModel.v and TimerExecModel.v are hand transcriptions of "
           "std_runtime/timer.rs and executor.rs (block_timeout, block_on, the join handshake); the timer and "
           "block_timeout/block_on models are replayed against the real code on every check, the join-handshake "
           "model is not (executor runs are checked by the trace oracle only)",
           "harness/src/bin/c42.rs: recording RawWaker (clone/wake/drop callbacks), the Debug output of Sleep/Instant is "
           "parsed to observe id and deadline exactly (if that fails the trace is marked inexact and only the oracle is applied)",
           "std::sync::mpsc (FIFO per sender, recv_timeout returns a message if one is there), thread::park/unpark and "
           "Instant monotonicity are taken as specified"]
ASSUMPTIONS = ["PARTIAL: OS scheduling latency, park/unpark and the accuracy of recv_timeout are runtime behaviour the "
               "model cannot exhibit; 'always completes after the deadline' is proved as: the timer thread never blocks "
               "while an entry is due, computes its timeout from the earliest deadline, and from any state its own "
               "steps wake every due entry (no bound on how long the OS takes to run it)",
               "'a dropped sleep never wakes its task' is proved from the moment the Cancel message has been consumed; "
               "between drop and consumption a wake-up is possible (witness theorem)",
               "block_timeout: futures are taken to be well behaved (completion wakes the waker)",
               "Duration so large that Instant::checked_add overflows is replaced by one day by the code; "
               "'not before the duration' is claimed when now + duration is representable"]

DUR_MAX = (2**64 - 1) * 10**9 + 999999999
NEAR = [0, 1, 50, 200, 500, 1000, 1000, 1500, 2000, 2000, 3000, 5000, 8000]
FAR = [2000000, 3600000000, "M"]


# --------------------------------------------------------------------- generator
def gen_timer(r, big):
    ops = []
    n = 0           # slots created so far (barriers take one too)
    live = []       # slots created by 'n' and not dropped
    steps = r.randint(4, 26 if big else 16)
    for _ in range(steps):
        k = r.random()
        if k < 0.24 or not live:
            d = r.choice(FAR) if r.random() < 0.12 else r.choice(NEAR)
            ops.append("n%s" % d)
            live.append(n)
            n += 1
        elif k < 0.60:
            ops.append("p%d" % r.choice(live))
        elif k < 0.70:
            x = r.choice(live)
            ops.append("d%d" % x)
            if r.random() < 0.9:
                live.remove(x)
        elif k < 0.77:
            ops.append("e%d" % r.choice(live))
        elif k < 0.82:
            ops.append("r%d" % r.choice(live))
        elif k < 0.94:
            ops.append("w%d" % r.choice([20, 100, 300, 700, 1200, 2500, 4000]))
        else:
            ops.append("s")
            n += 1
    return "t " + " ".join(ops)


# y = wakes once from inside poll, Y = wakes twice from inside one poll
STG_OK = ["s0", "s200", "s1000", "s3000", "e0", "e0", "e100", "e1000", "e4000", "y", "y", "Y"]


def stages(r, n, never=False):
    st = [r.choice(STG_OK) for _ in range(n)]
    if never:
        st.append("x")
    return "+".join(st) if st else "-"


def gen_bt(r):
    k = r.random()
    v = r.randint(-1000, 1000)
    if k < 0.55:
        # completes long before the (large) duration
        return "bt %d %d 0 %s" % (r.choice([2000000, 3000000, 5000000]), v, stages(r, r.randint(0, 4)))
    if k < 0.90:
        # never completes: Timeout, not before the duration
        return "bt %d %d 0 %s" % (r.choice([0, 1, 100, 1000, 3000, 8000, 15000]), v,
                                  stages(r, r.randint(0, 2), never=True))
    if k < 0.95:
        # completes only long after the duration
        return "bt %d %d 0 e400000" % (r.choice([500, 2000, 5000]), v)
    # regression family of the fixed finding C42-timeout-unseen-wake (8591c31): the poll that saw "not complete" ends
    # after the duration (stall inside poll) while the future completed in time -> must return Ok
    return "bt %d %d %d e%d" % (r.choice([20000, 25000, 30000]), v, r.choice([70000, 90000]), r.choice([1000, 3000]))


def gen_bo(r):
    return "bo %d %s" % (r.randint(-1000, 1000), stages(r, r.randint(0, 5)))


def gen_ex(r):
    return "ex " + " ".join(stages(r, r.randint(0, 3)) for _ in range(r.randint(1, 6)))


def gen(r, tier):
    n = {"quick": 1400, "search": 3000, "thorough": 12000}[tier]
    cases = []
    while len(cases) < n:
        k = r.random()
        if k < 0.70:
            cases.append(gen_timer(r, tier != "quick"))
        elif k < 0.86:
            cases.append(gen_bt(r))
        elif k < 0.95:
            cases.append(gen_bo(r))
        else:
            cases.append(gen_ex(r))
    return cases


def corpus():
    return [
        "t n3000 n1000 n2000 p0 p1 p2",                 # pop order = deadline order
        "t n2000000 p0 n1000 p1 nM p2 n500 p3",         # far entries stay, near ones fire
        "t n5000 p0 p0 p0 d0 s w6000",                  # cancel removes every entry of the id
        "t n2000 n2000 p0 p1 d0 s",                     # cancel one of two equal deadlines
        "t n0 p0 p0 e0",                                # zero duration: first poll is Pending
        "t nM p0 e0 n1000 p1",                          # Duration::MAX: one-day fallback
        "t n1000 p0 r0 p0 e0",                          # reset moves the deadline
        "t n3000 r0 e0 p0 w3500 e0",
        "t n1000 d0 s",                                 # drop before any poll
        "t n300 p0 w1500 d0 s",                         # drop after the wake
        "t n1500 p0 w1400 d0 s w500",                   # drop near the deadline (window)
        "t n1000 p0 n1000 p1 n1000 p2 d1 s",
        "bt 3000000 7 0 y+e1000+s500",
        "bt 3000000 7 0 -",
        "bt 2000 7 0 x",
        "bt 0 7 0 x",
        "bt 1000 7 0 y+x",
        # regression for the fixed finding C42-timeout-unseen-wake (8591c31): completed after 3 ms, the poll that saw
        # "not complete" returns after 70 ms > 25 ms: used to be Timeout, must be Ok(7) (try_recv + last poll)
        "bt 25000 7 70000 e3000",
        "bt 20000 -5 90000 y+e1000",
        "bt 5000 3 30000 e500+x",                       # same stall, but the future never completes: Timeout
        # regression for the fixed finding C42-block-timeout-self-wake-deadlock (7de0553): these hung
        # (always / when the e0 completer won the race) while the waker did a blocking send
        "bt 1000 1 0 Y",
        "bt 3000000 1 0 Y+Y+e0+Y",
        "bt 100 -627 0 e0+y+x",
        "bt 15000 236 0 e0+y+x",
        "bt 3000000 7 0 e0+y+e0+Y+s0+y",
        "bo 9 s1000+e1000+y",
        "bo 9 -",
        "ex s1000+e2000 y+s3000 -",
    ]


def case_line(c):
    return c


def parse_line(line):
    return line


# --------------------------------------------------------------------- Coq terms
def _stage_terms(s):
    out = []
    for w in s.split("+"):
        if w in ("", "-"):
            continue
        if w[0] == "s":
            out.append("GSleep %d" % (int(w[1:]) * 1000))
        elif w[0] == "e":
            out.append("GExt")
        elif w[0] in ("y", "Y"):
            out.append("GYield")
        else:
            out.append("GNever")
    return clist(out)


def _timer_term(out):
    parts = [p.strip() for p in out.split("|")]
    if not parts or not parts[0].startswith("T "):
        return None
    exact = parts[0].split()[1] == "1"
    evs = []
    ok, alive = False, []
    for p in parts[1:]:
        f = p.split()
        if not f:
            continue
        k, a = f[0], [int(x) for x in f[1:]]
        if k == "N":
            evs.append("VNew %s %s %s" % (cz(a[0]), cz(a[1]), cz(DUR_MAX if a[2] < 0 else a[2])))
        elif k == "P":
            evs.append("VPoll %s %s %s %s %s %s" % (cz(a[0]), cz(a[1]), cz(a[2]), cbool(a[3] == 1), cz(a[4]), cz(a[5])))
        elif k == "D":
            evs.append("VDrop %s %s" % (cz(a[0]), cz(a[1])))
        elif k == "E":
            evs.append("VElapsed %s %s %s %s" % (cz(a[0]), cz(a[1]), cz(a[2]), cbool(a[3] == 1)))
        elif k == "R":
            evs.append("VReset %s %s %s %s" % (cz(a[0]), cz(a[1]), cz(a[2]), cz(a[3])))
        elif k == "F":
            evs.append("VFire %s %s" % (cz(a[0]), cz(a[1])))
        elif k == "F2":
            evs.append("VFire2 %s %s" % (cz(a[0]), cz(a[1])))
        elif k == "X":
            evs.append("VGone %s %s" % (cz(a[0]), cz(a[1])))
        elif k == "S":
            evs.append("VSync %s" % cz(a[0]))
        elif k == "L":
            evs.append("VLost %s" % cz(a[0]))
        elif k == "Z":
            ok = a[0] == 1
            alive = a[1:]
        else:
            return None
    return "CTimer %s %s %s %s" % (cbool(exact), clist(evs), cbool(ok), clist([cz(x) for x in alive]))


def _block_events(out, polls=True):
    parts = [p.strip() for p in out.split("|")]
    evs = []
    pb = None      # (index in evs of the placeholder, t0)
    for p in parts[1:]:
        f = p.split()
        if not f:
            continue
        k, a = f[0], [int(x) for x in f[1:]]
        if k == "B":
            evs.append("XStart %s" % cz(a[0]))
        elif k == "Pb":
            pb = (len(evs), a[0])
            evs.append(None)
        elif k == "Pe":
            if pb is None:
                return None
            i, t0 = pb
            if a[1] == 1:
                evs.append("XPollR %s %s" % (cz(t0), cz(a[0])))
            else:
                evs[i] = "XPollP %s %s" % (cz(t0), cz(a[0]))
            pb = None
        elif k == "W":
            evs.append("XWake %s %s" % (cz(a[0]), cz(a[1])))
        elif k == "C":
            evs.append("XWoke %s %s" % (cz(a[0]), cz(a[1])))
        elif k == "Ts":
            evs.append("XTs %s %s %s" % (cz(a[0]), cz(a[1]), cz(a[2])))
        elif k == "Te":
            evs.append("XTe %s %s" % (cz(a[0]), cz(a[1])))
        elif k == "Ret":
            evs.append("XRet %s %s %s" % (cz(a[0]), cz(a[1]), cz(a[2])))
        elif k == "Sp":
            evs.append("XSpawn %s %s" % (cz(a[0]), cz(a[1])))
        elif k == "Done":
            evs.append("XTaskDone %s %s" % (cz(a[0]), cz(a[1])))
        elif k == "J":
            evs.append("XJoin %s %s" % (cz(a[0]), cz(a[1])))
        else:
            return None
    evs = [e for e in evs if e is not None]
    if not polls:
        evs = [e for e in evs if not e.startswith("XPoll")]
    return evs


def case_term(c, out):
    if out is None or out.startswith(("PANIC", "ABORT", "HANG", "BADOP")) or len(out) > 300000:
        return None      # crash, hang, or a runaway trace (busy loop)
    w = c.split()
    if w[0] == "t":
        return _timer_term(out)
    if w[0] == "bt":
        evs = _block_events(out)
        if evs is None or not out.startswith("BT"):
            return None
        st = w[4] if len(w) > 4 else "-"
        return "CBt %s %s %s %s" % (cz(int(w[1]) * 1000), cz(int(w[2])), _stage_terms(st), clist(evs))
    if w[0] == "bo":
        evs = _block_events(out)
        if evs is None or not out.startswith("BO"):
            return None
        st = w[2] if len(w) > 2 else "-"
        return "CBo %s %s %s" % (cz(int(w[1])), _stage_terms(st), clist(evs))
    if w[0] == "ex":
        evs = _block_events(out, polls=False)
        if evs is None or not out.startswith("EX"):
            return None
        return "CEx %d %s" % (len(w) - 1, clist(evs))
    return None


def nontrivial(c, out):
    if out is None:
        return None
    if c.startswith("t "):
        return c if " F " in out else None
    return c if (" W " in out or " Ret " in out or " Done " in out) else None


def distribution(cases, outs):
    d = {}

    def add(k):
        d[k] = d.get(k, 0) + 1
    for c, o in zip(cases, outs):
        o = o or ""
        kind = c.split()[0]
        add(kind)
        if kind == "t":
            add("t/wakeups=%s" % min(o.count(" F "), 9))
            if " X " in o:
                add("t/cancel-removed-entry")
            if " D " in o:
                add("t/with-drop")
            # wake-up logged after the drop of its sleep (the window)
            if " R " in o:
                add("t/with-reset")
        elif kind == "bt":
            if " Ret " in o:
                add("bt/" + {"1": "ok", "0": "timeout"}.get(o.split(" Ret ")[1].split()[1], "other"))
    return d


MANIFEST = {
    "text": ("PARTIAL. Machine-checked proof (Coq) over a state-machine model of std_runtime/timer.rs (Sleep futures, "
             "FIFO message channel, timer thread with its deadline heap and its loop position, clock; a list of steps "
             "= an interleaving, clock advances = thread timings) and of executor.rs block_timeout/block_on: for ALL "
             "interleavings a Sleep returns Ready only at a clock reading strictly after its deadline (= reset time + "
             "duration), the timer thread wakes a waker only strictly after its deadline, never blocks in recv while an "
             "entry is due and always waits exactly until the earliest deadline, no Wake message is ever lost, every due "
             "entry is woken by the thread's own next steps, a polled Sleep whose deadline has passed returns Ready, "
             "after the Cancel message of a dropped Sleep has been consumed no wake-up for it is ever issued (a witness "
             "shows the window between drop and consumption), the executor's join handshake never loses the wake-up and a "
             "finished task is never polled again, block_on returns exactly the future's output, "
             "block_timeout returns Timeout only after the whole duration and only if the future had not completed by "
             "then (a wake that arrived when the duration ran out is seen: try_recv + one last poll), a wake from inside "
             "poll never blocks. The model is tied to the code by running the real public "
             "std_runtime API under recording wakers with recorded Instants and replaying every trace through the "
             "model's step functions inside Coq; the property oracle (ordering facts between recorded Instants only) "
             "is applied to the implementation's own traces."),
    "note": ("Not covered (runtime behaviour a model cannot exhibit): OS scheduling latency of the timer/executor "
             "threads, park/unpark, accuracy of recv_timeout - so 'always completes after the deadline' has no time "
             "bound. Executor spawn/join: the join handshake is proved on its own small model; real executor runs are "
             "checked by the trace oracle only. Trusted: Coq kernel + vm_compute, the "
             "hand models, the harness (recording RawWaker, Debug parsing of Sleep/Instant), std mpsc semantics. "
             "Axioms: none. Both findings of this property (C42-timeout-unseen-wake, C42-block-timeout-self-wake-deadlock) "
             "are fixed in /repo; the model follows the fixed code and their inputs are regression cases."),
    "technique": "Coq proof (invariants over all interleavings) + trace replay of the real runtime inside Coq + oracle on recorded Instants",
}
