"""Shared by props/C07.py and props/C08.py: text format of RTPS messages (the one the
harness bins c07/c08 read and print, see harness/src/wire_common.rs), random message
generation, and printing as Coq terms of Wire.WireCorr."""
from vlib.core import cz

I64MIN, I64MAX = -2**63, 2**63 - 1
I32MIN, I32MAX, U32MAX = -2**31, 2**31 - 1, 2**32 - 1

# ------------------------------------------------------------------ byte strings


def bx_decode(s):
    s = s.strip()
    if s in ("-", ""):
        return b""
    out = bytearray()
    for item in s.split("."):
        if "*" in item:
            h, n = item.split("*")
            out += bytes.fromhex(h) * int(n)
        else:
            out += bytes.fromhex(item)
    return bytes(out)


PERIODS = (1, 2, 3, 4, 6, 8, 12, 16, 20, 24, 28, 32, 36, 40, 48)


def bx_chunks(b, minrun=24):
    """[(bytes literal)] / [(pattern, n)] chunks; long runs of one byte and, for long inputs,
    long repetitions of a short pattern are compressed"""
    chunks = []
    lit = bytearray()
    i = 0
    n = len(b)
    periodic = n > 1500
    while i < n:
        best = (0, 1)
        for p in (PERIODS if periodic else (1,)):
            if i + 2 * p > n:
                break
            pat = b[i:i + p]
            k = 1
            while b[i + k * p:i + (k + 1) * p] == pat:
                k += 1
            if k * p > best[0] and k >= 2:
                best = (k * p, p)
            if p == 1 and k >= minrun:
                break
        cover, p = best
        if cover >= (minrun if p == 1 else max(64, 4 * p)):
            if lit:
                chunks.append(bytes(lit))
                lit = bytearray()
            chunks.append((bytes(b[i:i + p]), cover // p))
            i += cover
        else:
            lit.append(b[i])
            i += 1
    if lit:
        chunks.append(bytes(lit))
    return chunks


def bx_encode(b):
    if not b:
        return "-"
    return ".".join(c.hex() if isinstance(c, bytes) else "%s*%d" % (c[0].hex(), c[1]) for c in bx_chunks(b))


def bx_text_chunks(s):
    """chunks straight from bx text (keeps the `pattern*N` items of the input)"""
    s = s.strip()
    if s in ("-", ""):
        return []
    out = []
    for item in s.split("."):
        if "*" in item:
            h, n = item.split("*")
            out.append((bytes.fromhex(h), int(n)))
        else:
            out.append(bytes.fromhex(item))
    return out


def coq_chunks(chunks):
    if not chunks:
        return "[]"
    if len(chunks) == 1 and isinstance(chunks[0], bytes):
        return "[" + ";".join(str(x) for x in chunks[0]) + "]"
    parts = []
    for c in chunks:
        if isinstance(c, bytes):
            parts.append("L [" + ";".join(str(x) for x in c) + "]")
        else:
            parts.append("R %d [%s]" % (c[1], ";".join(str(x) for x in c[0])))
    return "(X [" + "; ".join(parts) + "])"


def coq_bytes(b):
    return coq_chunks(bx_chunks(b))


def coq_bx(s):
    return coq_chunks(bx_text_chunks(s))


def coq_hexarr(h):
    return "[" + ";".join(str(x) for x in (bytes.fromhex(h) if h != "-" else b"")) + "]"


# ---------------------------------------------------------------- message texts
# a message is (version_hex, vendor_hex, prefix_hex, [sub, ...]); a sub is a list of text
# tokens exactly as in the harness format, e.g. ["AN","1","01020304","06070809","100","102,200","-3"]


def msg_text(m):
    return "H %s %s %s" % (m[0], m[1], m[2]) + "".join(" ; " + " ".join(s) for s in m[3])


def parse_msg_text(t):
    parts = [p.strip() for p in t.split(";")]
    h = parts[0].split()
    assert h[0] == "H", t
    return (h[1], h[2], h[3], [p.split() for p in parts[1:] if p])


def cbool(c):
    return "true" if c == "1" else "false"


def coq_nums(s):
    return "[]" if s == "-" else "[" + ";".join(cz(int(x)) for x in s.split(",")) + "]"


def coq_qos(s):
    if s == "-":
        return "[]"
    out = []
    for p in s.split(","):
        pid, v = p.split(":")
        out.append("mk_param %s %s" % (cz(int(pid)), coq_bx(v.replace("+", "."))))
    return "[" + "; ".join(out) + "]"


def coq_locs(s):
    if s == "-":
        return "[]"
    out = []
    for p in s.split(","):
        k, port, a = p.split(":")
        out.append("mk_loc %s %s %s" % (cz(int(k)), cz(int(port)), coq_hexarr(a)))
    return "[" + "; ".join(out) + "]"


def coq_sub(t):
    k = t[0]
    if k == "AN":
        return "AckNack %s %s %s (mk_nset %s %s) %s" % (cbool(t[1]), coq_hexarr(t[2]), coq_hexarr(t[3]), cz(int(t[4])), coq_nums(t[5]), cz(int(t[6])))
    if k == "DA":
        f = t[1]
        return "Data %s %s %s %s %s %s %s %s %s" % (cbool(f[0]), cbool(f[1]), cbool(f[2]), cbool(f[3]), coq_hexarr(t[2]), coq_hexarr(t[3]), cz(int(t[4])), coq_qos(t[5]), coq_bx(t[6]))
    if k == "DF":
        f = t[1]
        return "DataFrag %s %s %s %s %s %s %s %s %s %s %s %s" % (cbool(f[0]), cbool(f[1]), cbool(f[2]), coq_hexarr(t[2]), coq_hexarr(t[3]), cz(int(t[4])), cz(int(t[5])), cz(int(t[6])), cz(int(t[7])), cz(int(t[8])), coq_qos(t[9]), coq_bx(t[10]))
    if k == "GP":
        return "Gap %s %s %s (mk_nset %s %s)" % (coq_hexarr(t[1]), coq_hexarr(t[2]), cz(int(t[3])), cz(int(t[4])), coq_nums(t[5]))
    if k == "HB":
        f = t[1]
        return "Heartbeat %s %s %s %s %s %s %s" % (cbool(f[0]), cbool(f[1]), coq_hexarr(t[2]), coq_hexarr(t[3]), cz(int(t[4])), cz(int(t[5])), cz(int(t[6])))
    if k == "HF":
        return "HeartbeatFrag %s %s %s %s %s" % (coq_hexarr(t[1]), coq_hexarr(t[2]), cz(int(t[3])), cz(int(t[4])), cz(int(t[5])))
    if k == "ID":
        return "InfoDst %s" % coq_hexarr(t[1])
    if k == "IR":
        return "InfoReply %s %s %s" % (cbool(t[1]), coq_locs(t[2]), coq_locs(t[3]))
    if k == "IS":
        return "InfoSrc %s %s %s" % (coq_hexarr(t[1]), coq_hexarr(t[2]), coq_hexarr(t[3]))
    if k == "IT":
        return "InfoTs %s %s %s" % (cbool(t[1]), cz(int(t[2])), cz(int(t[3])))
    if k == "NF":
        return "NackFrag %s %s %s (mk_nset %s %s) %s" % (coq_hexarr(t[1]), coq_hexarr(t[2]), cz(int(t[3])), cz(int(t[4])), coq_nums(t[5]), cz(int(t[6])))
    if k == "PD":
        return "Pad"
    raise ValueError(k)


def coq_hdr(m):
    return "(mk_hdr %s %s %s)" % (coq_hexarr(m[0]), coq_hexarr(m[1]), coq_hexarr(m[2]))


def coq_subs(subs):
    return "[" + "; ".join("(%s : usub)" % coq_sub(s) for s in subs) + "]"


def coq_dec(text):
    """decoded-message text of the harness (`H .. ; sub ; ITERPANIC ..`, `ERR n`, `PANIC`) -> Coq `dec`"""
    text = text.strip()
    if text.startswith("ERR"):
        return "(Err %s)" % text.split()[1]
    if text.startswith("PANIC"):
        return "(Panic 0)"
    m = parse_msg_text(text)
    items = ["(Panic 0 : res usub)" if s[0] == "ITERPANIC" else "Ok (%s : usub)" % coq_sub(s) for s in m[3]]
    # long runs of identical submessages (floods) as `repeat`
    groups = []
    i = 0
    while i < len(items):
        j = i
        while j < len(items) and items[j] == items[i]:
            j += 1
        if j - i >= 16:
            groups.append("repeat (%s) (Z.to_nat %d)" % (items[i], j - i))
        elif groups and groups[-1].startswith("["):
            groups[-1] = groups[-1][:-1] + "; " + "; ".join(items[i:j]) + "]"
        else:
            groups.append("[" + "; ".join(items[i:j]) + "]")
        i = j
    lst = " ++ ".join(groups) if groups else "[]"
    return "(Ok (%s, (%s : list (res usub))))" % (coq_hdr(m), lst)


# ------------------------------------------------------------------- generators
SN_EDGE = [0, 1, -1, 2**31 - 1, 2**31, 2**32 - 1, 2**32, 2**32 + 1, 2**63 - 1, -2**63, 2**63 - 256, 2**63 - 300, 7, 1 << 40]
U32_EDGE = [0, 1, 2, 255, 256, 257, 65535, 65536, 2**31 - 1, 2**31, U32MAX, U32MAX - 1, U32MAX - 255, U32MAX - 256]
I32_EDGE = [0, 1, -1, 2, I32MAX, I32MIN, 255, 256, -256]
U16_EDGE = [0, 1, 2, 255, 256, 32767, 32768, 65535, 1344]


def rhex(r, n):
    k = r.random()
    if k < 0.15:
        return "00" * n
    if k < 0.25:
        return "ff" * n
    return bytes(r.randrange(256) for _ in range(n)).hex()


def rsn(r):
    return r.choice(SN_EDGE) if r.random() < 0.5 else r.randint(I64MIN, I64MAX) if r.random() < 0.3 else r.randint(0, 10000)


def ru32(r):
    return r.choice(U32_EDGE) if r.random() < 0.5 else r.randint(0, U32MAX)


def ri32(r):
    return r.choice(I32_EDGE) if r.random() < 0.5 else r.randint(I32MIN, I32MAX)


def ru16(r):
    return r.choice(U16_EDGE) if r.random() < 0.5 else r.randint(0, 65535)


def rset(r, lo, hi):
    """(base, members) of a valid set within [lo, hi]; 0..256 bits"""
    base = r.choice([x for x in SN_EDGE + U32_EDGE if lo <= x <= hi]) if r.random() < 0.5 else r.randint(lo, hi)
    span = min(256, hi - base + 1)
    k = r.random()
    if k < 0.15 or span <= 0:
        ds = []
    elif k < 0.3:
        ds = [r.choice([0, 31, 32, 63, 255, 254, 224, 223, span - 1])]
    elif k < 0.4:
        ds = list(range(span))
    else:
        ds = [r.randrange(span) for _ in range(r.randint(1, 12))]
    ds = [d for d in ds if 0 <= d < span]
    if r.random() < 0.7:
        ds = sorted(set(ds))
    members = [base + d for d in ds]
    return base, ("-" if not members else ",".join(str(x) for x in members))


def rbytes_bx(r, n):
    """n payload bytes as bx text: random edges around long constant runs"""
    if n == 0:
        return "-"
    if n <= 48:
        return bytes(r.randrange(256) for _ in range(n)).hex()
    head = bytes(r.randrange(256) for _ in range(r.randint(1, 8)))
    tail = bytes(r.randrange(256) for _ in range(r.randint(1, 8)))
    mid = n - len(head) - len(tail)
    return "%s.%02x*%d.%s" % (head.hex(), r.randrange(256), mid, tail.hex())


def rqos(r, big=False):
    if r.random() < 0.15:
        return "-"
    ps = []
    for _ in range(r.randint(1, 4)):
        pid = r.choice([0, 2, 3, 0x70, 0x71, -1, -32768, 32767, 0x8001 - 65536, 5]) if r.random() < 0.6 else r.randint(-32768, 32767)
        if pid == 1:
            pid = 2
        n = r.choice([0, 1, 2, 3, 4, 5, 7, 8, 16, 24]) if not big or r.random() < 0.7 else r.choice([32764, 32767, 32768, 32769, 65528, 65532])
        ps.append("%d:%s" % (pid, rbytes_bx(r, n).replace(".", "+")))
    return ",".join(ps)


def rloc(r):
    return "%d:%d:%s" % (ri32(r), ru32(r), rhex(r, 16))


def rlocs(r):
    n = r.choice([0, 0, 1, 2, 3])
    return "-" if n == 0 else ",".join(rloc(r) for _ in range(n))


KINDS = ["AN", "DA", "DF", "GP", "HB", "HF", "ID", "IR", "IS", "IT", "NF", "PD"]


def rsub(r, kind=None, payload=None, reply_flag=False):
    k = kind or r.choice(KINDS)
    rid, wid = rhex(r, 4), rhex(r, 4)
    if k == "AN":
        b, ms = rset(r, I64MIN, I64MAX - 1)   # i64::MAX is never a set member (not round-trippable)
        return ["AN", str(r.randint(0, 1)), rid, wid, str(b), ms, str(ri32(r))]
    if k == "DA":
        fl = "".join(str(r.randint(0, 1)) for _ in range(4))
        n = payload if payload is not None else r.choice([0, 1, 3, 4, 8, 17, 100, 1400])
        return ["DA", fl, rid, wid, str(rsn(r)), rqos(r), rbytes_bx(r, n)]
    if k == "DF":
        fl = "".join(str(r.randint(0, 1)) for _ in range(3))
        n = payload if payload is not None else r.choice([0, 1, 4, 17, 1344])
        return ["DF", fl, rid, wid, str(rsn(r)), str(ru32(r)), str(ru16(r)), str(ru16(r)), str(ru32(r)), rqos(r), rbytes_bx(r, n)]
    if k == "GP":
        b, ms = rset(r, I64MIN, I64MAX - 1)   # i64::MAX is never a set member (not round-trippable)
        return ["GP", rid, wid, str(rsn(r)), str(b), ms]
    if k == "HB":
        return ["HB", "%d%d" % (r.randint(0, 1), r.randint(0, 1)), rid, wid, str(rsn(r)), str(rsn(r)), str(ri32(r))]
    if k == "HF":
        return ["HF", rid, wid, str(rsn(r)), str(ru32(r)), str(ri32(r))]
    if k == "ID":
        return ["ID", rhex(r, 12)]
    if k == "IR":
        return ["IR", "1" if reply_flag else "0", rlocs(r), rlocs(r)]
    if k == "IS":
        return ["IS", rhex(r, 2), rhex(r, 2), rhex(r, 12)]
    if k == "IT":
        return ["IT", str(r.randint(0, 1)), str(ru32(r)), str(ru32(r))]
    if k == "NF":
        b, ms = rset(r, 0, U32MAX)
        return ["NF", rid, wid, str(rsn(r)), str(b), ms, str(ri32(r))]
    return ["PD"]


def rmsg(r, nsub=None, kinds=None):
    n = nsub if nsub is not None else r.choice([0, 1, 1, 2, 3, 4, 6])
    return (rhex(r, 2), rhex(r, 2), rhex(r, 12), [rsub(r, r.choice(kinds) if kinds else None) for _ in range(n)])
