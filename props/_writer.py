"""Shared by C27 and C28: scenario lines for harness bin `wrt`, their translation into the
event list of WriterHist/WriterModel.v (events + observed replies) and the Coq term printer.

A case is the scenario line itself.  Conventions of a scenario:
  * exactly one data writer (index 0), created by the first `W` op on the first topic;
  * readers 0.. may be matched with it; `mark ; SUB ; R .. dur=1 ; net ; adv ; net ; hist 0` is the
    late-joining TRANSIENT_LOCAL history probe (`hist` must be the last op touching the writer: it
    reports the sequence numbers the writer sent to the late joiner), `tr` is the final take of the
    matched KEEP_ALL reliable reader.
"""
from vlib.core import cz, cbool, clist, copt

CORR = "WriterHist.WriterCorr"
CORR_MODULES = ["WriterHist.WriterCorr"]
CASE_TYPE = "W_case"
HARNESS = "wrt"

W_DEFAULTS = {"rel": 1, "mbt": 100_000_000, "dur": 0, "hist": 0, "ms": -1, "mi": -1, "mspi": -1,
              "ls": -1, "ad": 1}


def kv(tokens):
    m = {}
    for t in tokens:
        if "=" in t:
            k, v = t.split("=", 1)
            try:
                m[k] = int(v)
            except ValueError:
                pass
    return m


def rc_code(s):
    if s == "0":
        return 0
    if s.startswith("E"):
        return int(s[1:])
    raise ValueError(s)


def handle_int(hexs):
    b = bytes.fromhex(hexs)
    return int.from_bytes(b, "little")


class Untranslatable(Exception):
    pass


def translate(line, out):
    """-> dict(keyed, en0, qos, evs=[(now, op, imm, dones)], hist, recv, results) or raises."""
    ops = [o.strip() for o in line.split(";") if o.strip()]
    if out.startswith("PANIC") or out.startswith("ABORT") or out.startswith("HANG"):
        raise Untranslatable(out)
    outs = [o.strip() for o in out.split(" | ")]
    if len(ops) != len(outs):
        raise Untranslatable("op/output count")
    keyed, en0, qos = True, True, None
    evs = []
    hist = recv = None
    matched = set()
    reader_rel = {}
    nreaders = 0
    nwriters = 0
    slot_key = {}
    created = True

    def split_out(o):
        toks = o.split()
        if not toks or not toks[-1].startswith("@"):
            raise Untranslatable("no time in " + o)
        return toks[:-1], int(toks[-1][1:])

    def dones_of(toks):
        d = []
        for t in toks:
            if t.startswith("!"):
                s, r, tm = t[1:].split(":")
                d.append((int(s), rc_code(r), int(tm)))
        return d

    for op, o in zip(ops, outs):
        t = op.split()
        toks, now = split_out(o)
        name = t[0]
        if toks[0] != name and not (name in ("fault",) and toks[0] == "f") and not (name == "cfg" and toks[0] == "c"):
            raise Untranslatable("unexpected output %r for %r" % (o, op))
        ev_toks = [x for x in toks[1:] if x[0] in "!AM" and (":" in x or "=" in x)]
        if name == "W" and len(toks) >= 2 and toks[1] == "E8" and nwriters == 0:
            # create_datawriter refused the QoS (InconsistentPolicy): nothing else can happen
            nwriters += 1
            created = False
            m = dict(W_DEFAULTS)
            m.update(kv(t[3:]))
            qos = m
            continue
        if not created:
            if len(toks) >= 2 and toks[1] == "NOENT":
                continue
            if name in ("SUB", "R", "net", "adv", "mark", "clr", "rel", "fault", "t", "r", "tr", "th", "sent", "cfg", "sm", "delR", "pm"):
                continue
            raise Untranslatable("op on a writer that was not created: " + o)
        if name in ("P", "T", "PUB", "SUB", "W", "R"):
            if len(toks) < 2 or toks[1] != "0":
                raise Untranslatable("setup failed: " + o)
            if name == "P" and kv(t[2:]).get("auto", 1) == 0:
                en0 = False
            if name == "PUB" and kv(t[2:]).get("auto", 1) == 0:
                en0 = False
            if name == "T" and len(t) > 3 and t[3] == "nokey":
                keyed = False
            if name == "W":
                if nwriters > 0:
                    raise Untranslatable("more than one writer")
                nwriters += 1
                m = dict(W_DEFAULTS)
                m.update(kv(t[3:]))
                qos = m
            if name == "R":
                reader_rel[nreaders] = kv(t[3:]).get("rel", 1) == 1
                nreaders += 1
            continue
        if name == "hist":
            # must be the last op that concerns the writer: the model is ticked to this instant
            evs.append((now, "OTick", None, dones_of(toks)))
            hist = [] if toks[1] == "-" else sorted(int(x) for x in toks[1].split(","))
            continue
        if name in ("fault", "clr", "rel", "sent", "mark", "cfg", "pm", "sm", "wfa", "t", "r", "th"):
            if dones_of(toks):
                evs.append((now, "OTick", None, dones_of(toks)))
            continue
        if name == "en":
            evs.append((now, "OEnable", ("rc", rc_code(toks[1])), dones_of(toks)))
            continue
        if name in ("reg", "lk"):
            k = int(t[2])
            ts = int(t[3]) if len(t) > 3 else now
            r = toks[1]
            if r.startswith("h="):
                imm = ("h", handle_int(r[2:]))
            elif r == "none":
                imm = ("h", None)
            else:
                imm = ("rc", rc_code(r))
            opn = "ORegister %s %s" % (cz(k), cz(ts)) if name == "reg" else "OLookup %s" % cz(k)
            evs.append((now, opn, imm, dones_of(toks)))
            continue
        if name in ("u", "d"):
            k = int(t[2])
            ts = int(t[3]) if len(t) > 3 else now
            opn = ("OUnregister" if name == "u" else "ODispose") + " %s %s" % (cz(k), cz(ts))
            evs.append((now, opn, ("rc", rc_code(toks[1])), dones_of(toks)))
            continue
        if name == "w":
            k = int(t[2])
            ts = int(t[4]) if len(t) > 4 else now
            slot = int(toks[1])
            slot_key[slot] = k
            ds = dones_of(toks)
            if toks[2] == "PENDING":
                imm = ("blocked",)
            elif rc_code(toks[2]) == 10:
                # Timeout is only ever answered to a parked write: here it was parked and answered
                # within the same worker iteration (max_blocking_time 0)
                imm = ("blocked",)
                ds = [(slot, 10, now)] + ds
            else:
                imm = ("rc", rc_code(toks[2]))
            evs.append((now, "OWrite %d %s %s" % (slot, cz(k), cz(ts)), imm, ds))
            continue
        if name in ("net", "adv", "ms", "delR"):
            # event tokens in order; a completion belongs to the event before it.  `adv`: the
            # completions happened at timer wake-ups of the worker (one tick carries them)
            cur = []
            if name == "adv":
                cur.append([now, "OTick", None, []])
            for x in ev_toks:
                if x[0] == "A":
                    r, w, base, count = [int(y) for y in x[1:].split(":")]
                    if w != 0:
                        continue
                    cur.append([now, "OAck %d %s %s" % (r, cz(base), cz(count)), None, []])
                elif x[0] == "M":
                    w, lst = x[1:].split("=")
                    if int(w) != 0:
                        continue
                    new = set() if lst == "-" else set(int(y) for y in lst.split(","))
                    for r in sorted(matched - new):
                        # losing a match also deletes the RTPS reader proxy (repo commit 6603216;
                        # before it the proxy of a deleted reader stayed behind, DESIGN D19)
                        cur.append([now, "OUnmatch %d" % r, None, []])
                    for r in sorted(new - matched):
                        cur.append([now, "OMatch %d %s" % (r, cbool(reader_rel.get(r, True))), None, []])
                    matched = new
                else:
                    s_, r_, tm = x[1:].split(":")
                    d = (int(s_), rc_code(r_), int(tm))
                    if not cur:
                        cur.append([now, "OTick", None, []])
                    cur[0 if name == "adv" else -1][3].append(d)
            evs += [tuple(c) for c in cur]
            continue
        if name == "tr":
            if len(toks) < 2 or not toks[1].isdigit():
                raise Untranslatable("take failed: " + o)
            n = int(toks[1])
            vals = toks[2:2 + 5 * n]
            slots = sorted(int(vals[5 * i + 1]) for i in range(n) if int(vals[5 * i + 1]) >= 0)
            recv = slots
            continue
        if name in ("delW", "delPUB", "delSUB", "delT", "delP", "delall"):
            raise Untranslatable("deletion of the writer's entities is not modelled")
        raise Untranslatable("unknown op " + name)
    if qos is None:
        raise Untranslatable("no writer")
    return {"created": created, "keyed": keyed, "en0": en0, "qos": qos, "evs": evs, "hist": hist, "recv": recv,
            "slot_key": slot_key, "matched": matched}


def lim(v):
    return "None" if v < 0 else "(Some %d)" % v


def qos_term(q):
    h = q["hist"]
    hist = "KeepAll" if h == 0 else "(KeepLast %d)" % (0 if h < 0 else h)
    return "(mkQos %s %s %s %s %s %s %s %s)" % (
        hist, cbool(q["rel"] == 1), lim(q["ms"]), lim(q["mi"]), lim(q["mspi"]), lim(q["ls"]), lim(q["mbt"]),
        cbool(q["ad"] == 1))


def imm_term(imm):
    if imm is None:
        return "None"
    if imm[0] == "blocked":
        return "(Some RBlocked)"
    if imm[0] == "h":
        return "(Some (RHandle %s))" % ("None" if imm[1] is None else "(Some %d)" % imm[1])
    return "(Some ROk)" if imm[1] == 0 else "(Some (RErr %d))" % imm[1]


def case_term(c, out):
    try:
        tr = translate(c, out)
    except (Untranslatable, ValueError, IndexError):
        return None
    evs = []
    for now, op, imm, dones in tr["evs"]:
        d = clist(["(%d, %d, %s)" % (s, r, cz(t)) for s, r, t in dones])
        evs.append("(mkEv %s (%s), mkOut %s %s)" % (cz(now), op, imm_term(imm), d))
    hist = "None" if tr["hist"] is None else "(Some %s)" % clist([cz(x) for x in tr["hist"]])
    recv = "None" if tr["recv"] is None else "(Some %s)" % clist([cz(x) for x in tr["recv"]])
    return "mkWC %s %s %s %s %s %s %s" % (cbool(tr["created"]), cbool(tr["keyed"]), cbool(tr["en0"]), qos_term(tr["qos"]),
                                       clist(evs), hist, recv)


def case_line(c):
    return c


def parse_line(line):
    return line.strip()


def w_opts(q):
    return " ".join("%s=%d" % (k, v) for k, v in q.items())
