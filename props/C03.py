"""C03 — wait_for_acknowledgments is sound and eventually completes."""
from props._rel import *  # noqa
from props import _rel, _multi

PID = "C03"
PROPS_FILE = "Props/C03.v"
PREFIX = "C03"
CORR = "Proto.MultiCorr"
CORR_MODULES = ["Proto.RelCorr", "Proto.MultiCorr"]
CASE_TYPE = "C03_case"
KNOWN = {}
TRUSTED = _rel.TRUSTED + ["theories/Proto/MultiModel.v: the product of single-pair machines (poke order = writers in creation "
                          "order, reader proxies in match order; one datagram queue; wait list per writer tested over all "
                          "its reader proxies; reader cache filled in arrival order) is a hand model of several endpoints"]
ASSUMPTIONS = ["several endpoints: every reader lives in a participant of its own (one locator per reader), writers are "
               "RELIABLE KEEP_ALL; the independence of the (writer, reader) pairs in the code is checked by the "
               "correspondence run, the projection onto single pairs is proved for the model"] + _rel.ASSUMPTIONS[1:]
RULE = ("a case is one scenario on the simulated real stack. Single pair (75 %): one RELIABLE writer, one RELIABLE "
        "reader, KEEP_ALL / KEEP_LAST 1-3, 1-3 instances, fragment size 64/128/1344: writes interleaved with network "
        "faults on the queued user datagrams, wait_for_acknowledgments calls that are either answered at once or stay "
        "parked (each followed by a take that shows what the reader has), in 20 % of the scenarios delete_datareader "
        "on the peer or deletion of the peer participant, then healing rounds, a poll of the parked callers, a fresh "
        "call and a take. Several endpoints (25 %): one KEEP_ALL writer with 2-3 RELIABLE readers in participants of "
        "their own, or two writers of one publisher with 1-2 readers (fragmented samples included): per-reader loss or "
        "hold-back of the traffic, wait_for_acknowledgments issued while the last sample is unacknowledged, the "
        "ACKNACK of one reader delivered while another reader lags, every call and every poll followed by a take on "
        "EVERY reader, late joiners, at least three healing rounds, poll, fresh calls, takes; distinct = distinct "
        "scenario line; non-trivial = at least two writes, one fault/delivery event and a take that returned something")


def is_multi(c):
    return c[0] == "M"


def gen(r, tier):
    n = {"quick": 140, "search": 600, "thorough": 5000}[tier]
    return [_multi.gen_case(r) if r.random() < 0.25 else _rel.gen_case(r, "C03") for _ in range(n)]


def case_line(c):
    return _multi.case_line(c) if is_multi(c) else _rel.case_line(c)


def parse_line(line):
    return _multi.parse_line(line) if _multi.is_multi_line(line) else _rel.parse_line(line)


def case_term(c, out):
    if is_multi(c):
        return _multi.case_term(c, out)
    t = _rel.case_term(c, out)
    return None if t is None else "C3S (%s)" % t


def nontrivial(c, out):
    return _multi.nontrivial(c, out) if is_multi(c) else _rel.nontrivial(c, out)


def distribution(cases, outs):
    single = [(c, o) for c, o in zip(cases, outs) if not is_multi(c)]
    d = _rel.distribution([c for c, _ in single], [o for _, o in single])
    for c in cases:
        if is_multi(c):
            k = _multi.dist_key(c)
            d[k] = d.get(k, 0) + 1
    return d


def corpus():
    return [
        # the schedule that exposed C03-gap-skip-ack (repaired by 91937ff): acknowledged only after 1 and 3 were delivered
        parse_line(PRE % (1344, 1, 1, 1) + " ; w 0 1 10 11 ; w 0 2 10 22 ; w 0 2 10 33 ; R 0 1 rel=1 dur=1 ; netm ; wa 0 ; "
                   "t 0 0 ; dr 0 ; adv 250000000 ; pu ; adv 250000000 ; pu ; adv 250000000 ; pu ; wp ; t 0 0 ; wa 0 ; t 0 0 ; q"),
        # the schedules that exposed C03-stale-waiter (repaired by 66b3297): the matched reader / its participant is
        # deleted while a caller is parked: the caller is answered at once
        parse_line(PRE % (1344, 1, 0, 0) + " ; R 0 1 rel=1 dur=0 ; netm ; w 0 1 10 1 ; dr 0 ; wa 0 ; delR 0 ; netm ; "
                   "adv 250000000 ; pu ; adv 250000000 ; pu ; adv 250000000 ; pu ; wp ; wa 0 ; q"),
        parse_line(PRE % (1344, 1, 0, 0) + " ; R 0 1 rel=1 dur=0 ; netm ; w 0 1 10 1 ; dr 0 ; wa 0 ; delall 1 ; delP 1 ; netm ; "
                   "adv 250000000 ; pu ; adv 250000000 ; pu ; adv 250000000 ; pu ; wp ; wa 0 ; q"),
        # a parked caller is answered by the healing round, never before delivery
        parse_line(PRE % (64, 1, 0, 0) + " ; R 0 1 rel=1 dur=0 ; netm ; w 0 1 10 11 ; w 0 2 10 22 ; w 0 1 10 33 ; dr 0 ; "
                   "dl 1 ; du 0 ; wa 0 ; t 0 0 ; adv 250000000 ; pu ; adv 250000000 ; pu ; wp ; t 0 0 ; wa 0 ; t 0 0 ; q"),
        # several readers: the caller is parked while the sample is unacknowledged; reader 0's DATA is lost, reader 1
        # receives and acknowledges: the caller must stay parked (is_change_acknowledged ranges over ALL reader
        # proxies) until reader 0 has the sample too
        parse_line(" ; ".join(_multi.pre(1344, 0, 1, 2)) + " ; R 0 1 rel=1 dur=0 ; netm ; R 1 2 rel=1 dur=0 ; netm ; "
                   "w 0 1 10 1 ; q ; wa 0 ; t 0 0 ; t 1 0 ; dr 0 ; dl 0 ; q ; dl 0 ; wp ; t 0 0 ; t 1 0 ; q ; "
                   "adv 250000000 ; pu ; adv 250000000 ; pu ; adv 250000000 ; pu ; wp ; t 0 0 ; t 1 0 ; wa 0 ; t 0 0 ; t 1 0 ; q"),
        # three readers, one late TRANSIENT_LOCAL joiner that lags on the history while the others acknowledge
        parse_line(" ; ".join(_multi.pre(1344, 1, 1, 3)) + " ; R 0 1 rel=1 dur=0 ; netm ; R 1 2 rel=1 dur=1 ; netm ; "
                   "w 0 1 10 1 ; w 0 2 10 2 ; pu ; R 2 3 rel=1 dur=1 ; netm ; q ; w 0 1 10 3 ; q ; dr 0 ; dr 0 ; wa 0 ; "
                   "t 0 0 ; t 1 0 ; t 2 0 ; dl 0 ; dl 0 ; dl 0 ; dl 0 ; wp ; t 0 0 ; t 1 0 ; t 2 0 ; q ; "
                   "adv 250000000 ; pu ; adv 250000000 ; pu ; adv 250000000 ; pu ; wp ; t 0 0 ; t 1 0 ; t 2 0 ; wa 0 ; "
                   "t 0 0 ; t 1 0 ; t 2 0 ; q"),
        # two writers of one publisher, one reader: a NACK_FRAG for writer 0's fragmented sample must not be answered
        # by writer 1 (regression for C03-nackfrag-writer-id: writer 1 announced a GAP for its own next sequence
        # number, its next sample was never delivered and yet acknowledged)
        parse_line(" ; ".join(_multi.pre(64, 0, 2, 1)) + " ; R 0 1 rel=1 dur=0 ; netm ; w 0 1 117 1 ; q ; dr 1 ; "
                   "adv 250000000 ; pu ; q ; adv 250000000 ; pu ; t 0 0 ; w 1 1 4 2 ; q ; adv 250000000 ; pu ; "
                   "adv 250000000 ; pu ; adv 250000000 ; pu ; wp ; t 0 0 ; wa 0 ; wa 1 ; t 0 0 ; q"),
    ]


MANIFEST = {
    "text": ("Machine-checked proofs (Coq) over the protocol model shared with C01 (RTPS writer/reader state machines, "
             "DCPS glue, notify_acknowledgments and the wait list drained by accepted ACKNACKs, network of queued "
             "datagrams). SOUNDNESS, unbounded, for every history QoS (KEEP_ALL, KEEP_LAST with any "
             "number of instances) and EVERY schedule (all faults, fragmented samples, removals, late joiners, "
             "deletions): whenever the acknowledgement test of wait_for_acknowledgments succeeds - when it is "
             "called or when a parked caller is answered - the reliable matched reader has been given every change "
             "the writer holds and that is relevant for it; by induction with the invariant that a GAP in flight "
             "only covers sequence numbers at which nothing relevant is held, a HEARTBEAT's first sequence number is at or "
             "below everything held, and whatever an ACKNACK acknowledges, the reader accounts for or the writer "
             "recorded as acknowledged has been presented as far as it is still held and relevant (needs the contiguity "
             "test of 91937ff; former finding C03-gap-skip-ack). NO STALE WAITER, unbounded, every schedule: whenever the "
             "test holds nobody is parked, in particular once the reader proxy is gone (delete_datareader on the peer, "
             "deletion of its participant) every caller has been answered (repair 66b3297 of the former finding "
             "C03-stale-waiter). SEVERAL ENDPOINTS: a product model (W writers of one publisher x R readers in participants of "
             "their own; every (writer, reader) pair is a single-pair machine, shared: one datagram queue, every "
             "writer's wait list whose test ranges over ALL its reader proxies, every reader's sample cache) with a "
             "projection theorem - the state of every pair in any reachable product state is a reachable state of the "
             "single-pair model - from which soundness for any number of matched readers follows: whenever the test of "
             "a writer succeeds, and whenever a parked caller is answered while ONE reader's ACKNACK is processed, EVERY "
             "matched reader has been given everything relevant. COMPLETION while the reader stays matched, proved part (ANY history QoS incl. KEEP_LAST histories with holes, unfragmented, no explicit removal, no deletion, at most 256 samples, "
             "at least one relevant sample): after healing rounds that drain the network plus one more, the "
             "acknowledgement test holds and no caller is parked (k + 2 heartbeat periods). The model is tied to the code by differential "
             "correspondence on a deterministic whole-stack simulation; the oracle (a success is followed by a take "
             "that contains every retained relevant sample; after healing no caller is parked) judges the real "
             "observations."),
    "note": ("Trusted: Coq kernel, hand model RelModel.v (correspondence-checked on every run), simulation harness, "
             "generator. Axioms: none. That the pairs of the product are independent in the CODE (ACKNACK / NACK_FRAG filtered "
             "by writer id, submessages looked up by writer guid) is checked by the correspondence run on the "
             "several-endpoint scenarios (it found C03-nackfrag-writer-id, repaired by 1001a3e). "
             "Former findings C03-gap-skip-ack, C03-stale-waiter are repaired (91937ff, 66b3297); their "
             "schedules are in the corpus. Bounded time of completion is "
             "expressed in healing rounds (one heartbeat period each). One writer/reader pair."),
    "technique": "Coq proof (invariants over all schedules, healing invariant) + differential correspondence on a deterministic whole-stack simulation",
}
