"""C03 — wait_for_acknowledgments is sound and eventually completes."""
from props._rel import *  # noqa
from props import _rel

PID = "C03"
PROPS_FILE = "Props/C03.v"
PREFIX = "C03"
KNOWN = {1: "C03-stale-waiter", 2: "C03-gap-skip-ack"}
RULE = ("a case is one scenario on the simulated real stack (one RELIABLE writer, one RELIABLE reader, KEEP_ALL / "
        "KEEP_LAST 1-3, 1-3 instances, fragment size 64/128/1344): writes interleaved with network faults on the "
        "queued user datagrams, wait_for_acknowledgments calls that are either answered at once or stay parked "
        "(each followed by a take that shows what the reader has), in 20 % of the scenarios delete_datareader on "
        "the peer or deletion of the peer participant, then healing rounds, a poll of the parked callers, a fresh "
        "call and a take; distinct = distinct scenario line; non-trivial = at least two writes, one fault event "
        "and a take that returned something")
gen = _rel.gen_for("C03")


def corpus():
    return [
        # C03-gap-skip-ack: acknowledged although sample 1 was never delivered
        parse_line(PRE % (1344, 1, 1, 1) + " ; w 0 1 10 11 ; w 0 2 10 22 ; w 0 2 10 33 ; R 0 1 rel=1 dur=1 ; netm ; wa 0 ; "
                   "t 0 0 ; dr 0 ; adv 250000000 ; pu ; adv 250000000 ; pu ; adv 250000000 ; pu ; wp ; t 0 0 ; wa 0 ; t 0 0 ; q"),
        # C03-stale-waiter: the matched reader / its participant is deleted while a caller is parked
        parse_line(PRE % (1344, 1, 0, 0) + " ; R 0 1 rel=1 dur=0 ; netm ; w 0 1 10 1 ; dr 0 ; wa 0 ; delR 0 ; netm ; "
                   "adv 250000000 ; pu ; adv 250000000 ; pu ; adv 250000000 ; pu ; wp ; wa 0 ; q"),
        parse_line(PRE % (1344, 1, 0, 0) + " ; R 0 1 rel=1 dur=0 ; netm ; w 0 1 10 1 ; dr 0 ; wa 0 ; delall 1 ; delP 1 ; netm ; "
                   "adv 250000000 ; pu ; adv 250000000 ; pu ; adv 250000000 ; pu ; wp ; wa 0 ; q"),
        # a parked caller is answered by the healing round, never before delivery
        parse_line(PRE % (64, 1, 0, 0) + " ; R 0 1 rel=1 dur=0 ; netm ; w 0 1 10 11 ; w 0 2 10 22 ; w 0 1 10 33 ; dr 0 ; "
                   "dl 1 ; du 0 ; wa 0 ; t 0 0 ; adv 250000000 ; pu ; adv 250000000 ; pu ; wp ; t 0 0 ; wa 0 ; t 0 0 ; q"),
    ]


MANIFEST = {
    "text": ("Machine-checked proofs (Coq) over the protocol model shared with C01 (RTPS writer/reader state machines, "
             "DCPS glue, notify_acknowledgments and the wait list drained by accepted ACKNACKs, network of queued "
             "datagrams). SOUNDNESS, for every KEEP_ALL writer and EVERY schedule (all faults, fragmented samples, "
             "late joiners): whenever the acknowledgement test of wait_for_acknowledgments succeeds - when it is "
             "called or when a parked caller is answered - the reliable matched reader has been given every change "
             "the writer holds and that is relevant for it; by induction with the invariant that GAPs only cover "
             "irrelevant samples, highest_acked <= highest_received and nothing relevant below highest_received is "
             "skipped. The statement for every history QoS is refuted by a witness (known finding C03-gap-skip-ack). "
             "COMPLETION at full strength is refuted by witnesses (known finding C03-stale-waiter: after "
             "delete_datareader on the peer or deletion of its participant the reader proxy is removed but the wait "
             "list is only re-evaluated when an ACKNACK is accepted, so a caller parked earlier is never answered). "
             "Proved part of completion (stage 1: KEEP_ALL, unfragmented, no removal, no deletion, at most 256 samples, "
             "at least one relevant sample): after healing rounds that drain the network plus one more, the "
             "acknowledgement test holds and no caller is parked (k + 2 heartbeat periods). The model is tied to the code by differential "
             "correspondence on a deterministic whole-stack simulation; the oracle (a success is followed by a take "
             "that contains every retained relevant sample; after healing no caller is parked) judges the real "
             "observations."),
    "note": ("Trusted: Coq kernel, hand model RelModel.v (correspondence-checked on every run), simulation harness, "
             "generator. Axioms: none. Known findings C03-gap-skip-ack, C03-stale-waiter. Bounded time of completion is "
             "expressed in healing rounds (one heartbeat period each). One writer/reader pair."),
    "technique": "Coq proof (invariants over all schedules, refutation witnesses) + differential correspondence on a deterministic whole-stack simulation",
}
