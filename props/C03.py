"""C03 — wait_for_acknowledgments is sound and eventually completes."""
from props._rel import *  # noqa
from props import _rel

PID = "C03"
PROPS_FILE = "Props/C03.v"
PREFIX = "C03"
KNOWN = {}
RULE = ("a case is one scenario on the simulated real stack (one RELIABLE writer, one RELIABLE reader, KEEP_ALL / "
        "KEEP_LAST 1-3, 1-3 instances, fragment size 64/128/1344): writes interleaved with network faults on the "
        "queued user datagrams, wait_for_acknowledgments calls that are either answered at once or stay parked "
        "(each followed by a take that shows what the reader has), in 20 % of the scenarios delete_datareader on "
        "the peer or deletion of the peer participant, then healing rounds, a poll of the parked callers, a fresh "
        "call and a take; distinct = distinct scenario line; non-trivial = at least two writes, one fault event "
        "and a take that returned something")
gen = _rel.gen_for("C03")


def corpus():
    return [
        # the schedule that exposed C03-gap-skip-ack (repaired by 91937ff): acknowledged only after 1 and 3 were delivered
        parse_line(PRE % (1344, 1, 1, 1) + " ; w 0 1 10 11 ; w 0 2 10 22 ; w 0 2 10 33 ; R 0 1 rel=1 dur=1 ; netm ; wa 0 ; "
                   "t 0 0 ; dr 0 ; adv 250000000 ; pu ; adv 250000000 ; pu ; adv 250000000 ; pu ; wp ; t 0 0 ; wa 0 ; t 0 0 ; q"),
        # the schedules that exposed C03-stale-waiter (repaired by 66b3297): the matched reader / its participant is
        # deleted while a caller is parked: the caller is answered at once
        parse_line(PRE % (1344, 1, 0, 0) + " ; R 0 1 rel=1 dur=0 ; netm ; w 0 1 10 1 ; dr 0 ; wa 0 ; delR 0 ; netm ; "
                   "adv 250000000 ; pu ; adv 250000000 ; pu ; adv 250000000 ; pu ; wp ; wa 0 ; q"),
        parse_line(PRE % (1344, 1, 0, 0) + " ; R 0 1 rel=1 dur=0 ; netm ; w 0 1 10 1 ; dr 0 ; wa 0 ; delall 1 ; delP 1 ; netm ; "
                   "adv 250000000 ; pu ; adv 250000000 ; pu ; adv 250000000 ; pu ; wp ; wa 0 ; q"),
        # a parked caller is answered by the healing round, never before delivery
        parse_line(PRE % (64, 1, 0, 0) + " ; R 0 1 rel=1 dur=0 ; netm ; w 0 1 10 11 ; w 0 2 10 22 ; w 0 1 10 33 ; dr 0 ; "
                   "dl 1 ; du 0 ; wa 0 ; t 0 0 ; adv 250000000 ; pu ; adv 250000000 ; pu ; wp ; t 0 0 ; wa 0 ; t 0 0 ; q"),
    ]


MANIFEST = {
    "text": ("Machine-checked proofs (Coq) over the protocol model shared with C01 (RTPS writer/reader state machines, "
             "DCPS glue, notify_acknowledgments and the wait list drained by accepted ACKNACKs, network of queued "
             "datagrams). SOUNDNESS, unbounded, for every history QoS (KEEP_ALL, KEEP_LAST with any "
             "number of instances) and EVERY schedule (all faults, fragmented samples, removals, late joiners, "
             "deletions): whenever the acknowledgement test of wait_for_acknowledgments succeeds - when it is "
             "called or when a parked caller is answered - the reliable matched reader has been given every change "
             "the writer holds and that is relevant for it; by induction with the invariant that a GAP in flight "
             "only covers sequence numbers at which nothing relevant is held, a HEARTBEAT's first sequence number is at or "
             "below everything held, and whatever an ACKNACK acknowledges, the reader accounts for or the writer "
             "recorded as acknowledged has been presented as far as it is still held and relevant (needs the contiguity "
             "test of 91937ff; former finding C03-gap-skip-ack). NO STALE WAITER, unbounded, every schedule: whenever the "
             "test holds nobody is parked, in particular once the reader proxy is gone (delete_datareader on the peer, "
             "deletion of its participant) every caller has been answered (repair 66b3297 of the former finding "
             "C03-stale-waiter). COMPLETION while the reader stays matched, proved part (ANY history QoS incl. KEEP_LAST histories with holes, unfragmented, no explicit removal, no deletion, at most 256 samples, "
             "at least one relevant sample): after healing rounds that drain the network plus one more, the "
             "acknowledgement test holds and no caller is parked (k + 2 heartbeat periods). The model is tied to the code by differential "
             "correspondence on a deterministic whole-stack simulation; the oracle (a success is followed by a take "
             "that contains every retained relevant sample; after healing no caller is parked) judges the real "
             "observations."),
    "note": ("Trusted: Coq kernel, hand model RelModel.v (correspondence-checked on every run), simulation harness, "
             "generator. Axioms: none. Former findings C03-gap-skip-ack, C03-stale-waiter are repaired (91937ff, 66b3297); their "
             "schedules are in the corpus. Bounded time of completion is "
             "expressed in healing rounds (one heartbeat period each). One writer/reader pair."),
    "technique": "Coq proof (invariants over all schedules, healing invariant) + differential correspondence on a deterministic whole-stack simulation",
}
