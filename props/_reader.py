"""Shared generator / printer for the reader-cache properties C18..C25."""
from vlib.core import cz, cbool

CORR = "Cache.ReaderCorr"
CORR_MODULES = ["Cache.ReaderCorr"]
CASE_TYPE = "Rdr_case"
HARNESS = "rdr"
TRUSTED = ["theories/Cache/ReaderModel.v is a hand transcription of data_reader_entity.rs and "
           "user_defined_data_reader.rs (add_reader_change, create_sample_collection, next_instance, "
           "read/take_next_instance, add/remove_matched_publication); checked by exact comparison of every "
           "return value, the final cache and the state before every read/take against the real code"]
ASSUMPTIONS = ["handles/GUIDs/payloads are small integers mapped to 16-byte big-endian arrays; times are "
               "non-negative nanoseconds far from i32 saturation", "generation counters do not reach 2^31",
               "KEEP_LAST depth >= 1 (depth 0 panics in the code and is excluded)"]

KINDS = ["KAlive", "KAliveFiltered", "KDisposed", "KUnregistered", "KDisposedUnregistered"]


def lim(x):
    return "None" if x < 0 else "(Some %d)" % x


def qos_term(q):
    o, hist, ms, mi, mspi, own, sep = q
    return "(mkQ %s %s %s %s %s %s %s)" % (cbool(o == 1), "None" if hist == 0 else "(Some %d)" % hist,
                                           lim(ms), lim(mi), lim(mspi), cbool(own == 1), lim(sep))


def masks_term(ss, vs, is_):
    return "(mkM %s %s %s %s %s %s %s)" % (cbool(ss & 1), cbool(ss & 2), cbool(vs & 1), cbool(vs & 2),
                                           cbool(is_ & 1), cbool(is_ & 2), cbool(is_ & 4))


def opt(x):
    return "None" if x < 0 else "(Some %d)" % x


def op_term(o):
    n, v = o
    if n == "A":
        return "OpAdd %d %d %s %s %d %d" % (v[0], v[1], KINDS[v[2]], opt(v[3]), v[4], v[5])
    if n in ("R", "T"):
        return "%s %s %s %s" % ("OpRead" if n == "R" else "OpTake", cz(v[0]), masks_term(v[1], v[2], v[3]), opt(v[4]))
    if n in ("RN", "TN"):
        return "%s %s %s %s" % ("OpReadNext" if n == "RN" else "OpTakeNext", cz(v[0]), opt(v[1]), masks_term(v[2], v[3], v[4]))
    if n == "M":
        return "OpMatch %d %s" % (v[0], cz(v[1]))
    if n == "U":
        return "OpUnmatch %d" % v[0]
    raise ValueError(n)


def case_line(c):
    q, ops = c
    return "Q " + " ".join(str(x) for x in q) + " ; " + " ; ".join(n + " " + " ".join(str(x) for x in v) for n, v in ops)


def parse_line(line):
    parts = [p.strip() for p in line.split(";")]
    q = [int(x) for x in parts[0].split()[1:]]
    ops = []
    for p in parts[1:]:
        if not p:
            continue
        t = p.split()
        ops.append((t[0], [int(x) for x in t[1:]]))
    return (q, ops)


SS = {1: "SRead", 2: "SNotRead"}
VS = {1: "VNew", 2: "VNotNew"}
IS = {1: "IAlive", 2: "IDisposed", 4: "INoWriters"}


def coll_term(tok):
    t = tok.split()
    if t[0] == "rN":
        return "NoData"
    if t[0] == "rB":
        return "BadParameter"
    if t[0] == "rX":
        return "NotEnabled"
    if t[0] != "r":
        return None
    n = int(t[1])
    f = [int(x) for x in t[2:]]
    if len(f) != 13 * n:
        return None
    infos = []
    for i in range(n):
        x = f[13 * i:13 * i + 13]
        infos.append("mkInfo %d %d %s %s %s %s %s %s %s %s %s %s %d" % (
            x[0], x[1], cbool(x[2]), SS[x[3]], VS[x[4]], IS[x[5]], cz(x[6]), cz(x[7]), cz(x[8]), cz(x[9]), cz(x[10]),
            opt(x[11]), x[12]))
    return "(CollOk [%s])" % "; ".join(infos)


def case_term(c, out):
    q, ops = c
    if out.startswith("PANIC") or out.startswith("ABORT") or out.startswith("HANG"):
        return None
    toks = [t.strip() for t in out.split("|")]
    evs = []
    k = 0
    try:
        for n, v in ops:
            if n == "A":
                t = toks[k].split()
                k += 1
                code = int(t[1])
                evs.append("EvAdd " + {0: "Added", 1: "NotAdded", 9: "AddError"}.get(code, "(Rejected %s %s)" % (t[2], t[3]) if code == 2 else "AddPanic"))
            elif n in ("R", "T", "RN", "TN"):
                pre = coll_term(toks[k][2:])
                cur = coll_term(toks[k + 1])
                k += 2
                if pre is None or cur is None:
                    return None
                evs.append("EvColl %s %s" % (pre, cur))
            else:
                k += 1
                evs.append("EvUnit")
        st = toks[k].split()
        probe = coll_term(toks[k + 1][2:])
        assert st[0] == "S" and probe is not None
        ns = int(st[1])
        f = st[2:2 + 8 * ns]
        samples = []
        for i in range(ns):
            x = [int(y) for y in f[8 * i:8 * i + 8]]
            samples.append("mkS %s %d %d %s %d %s %s %s" % (KINDS[x[0]], x[1], x[2], opt(x[3]), x[4], SS[x[5]], cz(x[6]), cz(x[7])))
        rest = st[2 + 8 * ns:]
        assert rest[0] == "I"
        ni = int(rest[1])
        insts = [int(y) for y in rest[2:2 + ni]]
        rest = rest[2 + ni:]
        assert rest[0] == "O"
        no = int(rest[1])
        owns = ["mkO %s %s %s" % tuple(rest[2 + 3 * i:5 + 3 * i]) for i in range(no)]
    except (IndexError, ValueError, AssertionError, KeyError):
        return None
    return "mkRdr %s [%s] [%s] [%s] [%s] [%s] %s" % (
        qos_term(q), "; ".join(op_term(o) for o in ops), "; ".join(evs), "; ".join(samples),
        "; ".join(str(i) for i in insts), "; ".join(owns), probe)


# ------------------------------------------------------------------ generation
def gen_case(r, focus):
    """focus selects the QoS emphasis: keeplast, limits, readtake, order, lifecycle, next, ownership, filter"""
    ord_ = 1 if (focus == "order" or r.random() < 0.25) else 0
    hist = r.choice([1, 1, 2, 3, 4]) if (focus == "keeplast" or r.random() < 0.4) else 0
    ms = mi = mspi = -1
    if focus == "limits" or (focus == "keeplast" and r.random() < 0.6) or r.random() < 0.15:
        if r.random() < 0.7:
            mspi = r.choice([1, 2, 3, 4])
            if hist and mspi < hist:
                mspi = hist
            if focus == "keeplast" and hist and r.random() < 0.6:
                mspi = hist
        if r.random() < 0.6:
            ms = r.choice([1, 2, 3, 4, 6])
            if mspi > 0 and ms < mspi:
                ms = mspi
        elif mspi > 0 and r.random() < 0.0:
            ms = mspi
        if r.random() < 0.5:
            mi = r.choice([1, 2, 3])
    own = 1 if (focus == "ownership" or r.random() < 0.1) else 0
    if focus == "filter":
        sep = r.choice([5, 10, 10, 20, 1000000000])
    else:
        sep = 0 if r.random() < 0.9 else r.choice([-1, 5, 10])
    if focus in ("lifecycle", "ownership", "next", "readtake") and r.random() < 0.8:
        ms = mi = mspi = -1
        sep = 0
    q = [ord_, hist, ms, mi, mspi, own, sep]
    nops = r.randint(1, 14) if r.random() < 0.7 else r.randint(15, 40)
    ninst = r.choice([1, 2, 3, 4])
    nwr = r.choice([1, 1, 2, 3])
    ops = []
    data = 100
    clock = 10
    tsbase = 10
    if own:
        for w in range(1, nwr + 1):
            if r.random() < 0.9:
                ops.append(("M", [w, r.choice([0, 1, 1, 2, 5])]))
    for _ in range(nops):
        x = r.random()
        clock += r.randint(0, 5)
        p_add = 0.6 if focus not in ("readtake", "next") else 0.45
        if x < p_add:
            w = r.randint(1, nwr)
            h = r.randint(1, ninst)
            if focus in ("keeplast",) and r.random() < 0.8:
                k = 0
            elif focus == "lifecycle":
                k = r.choice([0, 0, 0, 0, 2, 3, 4, 0, 2, 3])
            else:
                k = r.choice([0, 0, 0, 0, 0, 0, 1, 2, 3, 4])
            if focus in ("order", "filter") or r.random() < 0.5:
                if r.random() < 0.7:
                    tsbase += r.randint(0, 12)
                    ts = tsbase
                else:
                    ts = r.randint(0, tsbase + 10)
                if r.random() < 0.05:
                    ts = -1
            else:
                tsbase += r.randint(0, 12)
                ts = tsbase
            data += 1
            ops.append(("A", [w, h, k, ts, data, clock]))
        elif x < p_add + 0.3:
            mx = r.choice([-1, -1, 10, 1, 2, 3, 0]) if r.random() < 0.5 else 2147483647
            ss = r.choice([3, 3, 3, 1, 2])
            vs = r.choice([3, 3, 3, 1, 2])
            is_ = r.choice([7, 7, 7, 1, 2, 4, 3, 6])
            if focus == "next" or r.random() < 0.25:
                prev = r.choice([-1, -1, 0, 1, 2, 3, 4])
                ops.append((r.choice(["RN", "TN"]) if focus != "lifecycle" else "RN", [mx, prev, ss, vs, is_]))
            else:
                inst = -1 if r.random() < 0.7 else r.randint(1, ninst + 1)
                ops.append((r.choice(["R", "R", "T"]), [mx, ss, vs, is_, inst]))
        else:
            if own and r.random() < 0.7:
                w = r.randint(1, nwr)
                if r.random() < 0.5:
                    ops.append(("U", [w]))
                else:
                    ops.append(("M", [w, r.choice([0, 1, 2, 5, 7])]))
            else:
                ops.append(("R", [2147483647, 3, 3, 7, -1]))
    return (q, ops)


def gen_for(focus, mix=0.75):
    others = ["keeplast", "limits", "readtake", "order", "lifecycle", "next", "ownership", "filter"]

    def gen(r, tier):
        n = {"quick": 1200, "search": 4000, "thorough": 25000}[tier]
        return [gen_case(r, focus if r.random() < mix else r.choice(others)) for _ in range(n)]
    return gen


def nontrivial(c, out):
    q, ops = c
    adds = sum(1 for n, _ in ops if n == "A")
    colls = sum(1 for n, _ in ops if n in ("R", "T", "RN", "TN"))
    if adds >= 2 and colls >= 1 and "a 0" in out:
        return case_line(c)
    return None


def distribution(cases, outs):
    d = {"ops": 0, "adds": 0, "reads": 0, "takes": 0, "next": 0, "match": 0, "added": 0, "not_added": 0,
         "rejected": 0, "errors": 0, "nodata": 0, "keep_last_cases": 0, "exclusive_cases": 0, "by_source_cases": 0,
         "limited_cases": 0, "filter_cases": 0}
    for (q, ops), o in zip(cases, outs):
        d["ops"] += len(ops)
        for n, v in ops:
            d["adds" if n == "A" else "reads" if n == "R" else "takes" if n == "T" else "next" if n in ("RN", "TN") else "match"] += 1
        d["added"] += o.count("a 0")
        d["not_added"] += o.count("a 1")
        d["rejected"] += o.count("a 2")
        d["errors"] += o.count("a 9")
        d["nodata"] += o.count("rN")
        d["keep_last_cases"] += q[1] > 0
        d["exclusive_cases"] += q[5] == 1
        d["by_source_cases"] += q[0] == 1
        d["limited_cases"] += (q[2] >= 0 or q[3] >= 0 or q[4] >= 0)
        d["filter_cases"] += q[6] != 0
    return d


def shrink(ctx, binary, case):
    return case
