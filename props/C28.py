"""C28 — Writer instance-management calls honour their documented contract
(+ the writer half of C19: a write beyond the resource limits is refused and stores nothing)."""
from props._writer import *  # noqa: F401,F403
from props import _writer as W

PID = "C28"
PROPS_FILE = "Props/C28.v"
PREFIX = "C28"
KNOWN = {}
RULE = ("a case is one simulator scenario: a data writer on a keyed or keyless topic, created enabled or "
        "not (publisher / participant entity_factory.autoenable_created_entities=false) with random history / "
        "resource-limit / lifespan QoS, then 10-60 calls of register_instance, unregister_instance, dispose, "
        "lookup_instance, write, enable through the real DataWriterAsync API, optionally followed by a late-joining "
        "TRANSIENT_LOCAL reader that shows the writer history; distinct = distinct scenario line; non-trivial = at "
        "least four different replies")
TRUSTED = ["theories/WriterHist/WriterModel.v is a hand transcription of data_writer_entity.rs and the writer "
           "service methods of writer_methods.rs (checked against the code by the correspondence run)",
           "harness/src/bin/wrt.rs (scenario interpreter on the simulated stack vh::sim) and props/_writer.py "
           "(translation of a scenario and its output into model events)"]
ASSUMPTIONS = ["instance identity is the instance handle (key <-> handle is C11/C12); the harness key is one byte, so the "
               "handle read as a little-endian integer is the key value, and a keyless type has the single handle 0",
               "the QoS of the writer is not changed after creation; timestamps stay far from the i32-seconds saturation (C14)",
               "'instance operations on a keyless type' is read as register_instance / unregister_instance / dispose; "
               "lookup_instance on a keyless type is judged by the lookup clause (it returns the handle of the single "
               "instance once something was written)",
               "the `handle` argument of write / dispose / unregister_instance is always None (the async API ignores it)",
               "get_key_value and assert_liveliness are todo!() on this tree and are not called"]

KEYS = [1, 2, 3, 4]


def gen_qos(r, probe):
    q = {}
    q["rel"] = 1 if probe or r.random() < 0.8 else 0
    q["dur"] = 1 if probe else r.choice([0, 1])
    h = r.choice([0, 0, 1, 2, 3])
    q["hist"] = h
    mspi = r.choice([-1, -1, 1, 2, 3])
    if h > 0 and 0 <= mspi < h:
        mspi = h
    q["mspi"] = mspi
    if mspi < 0:
        q["ms"] = -1
    else:
        q["ms"] = r.choice([-1, mspi, mspi + 1, mspi + 2, 2 * mspi + 1])
    q["mi"] = r.choice([-1, -1, 0, 1, 2, 3])
    q["ls"] = r.choice([-1, -1, -1, -1, 50_000_000, 10_000_000_000])
    q["ad"] = r.choice([0, 1])
    return q


def gen_scenario(r, big=False):
    keyed = r.random() < 0.75
    mode = r.choice(["on", "on", "on", "pub", "pub", "part"])
    # the probe reader lives in the writer's participant: it must be created enabled
    probe = mode != "part" and r.random() < 0.4
    q = gen_qos(r, probe)
    if r.random() < 0.04:
        # an inconsistent QoS: create_datawriter must refuse it (InconsistentPolicy), nothing else happens
        x = r.random()
        if x < 0.4:
            q["hist"] = -1                      # KEEP_LAST(0)
        elif x < 0.7 and q["mspi"] >= 1:
            q["ms"] = q["mspi"] - 1             # max_samples < max_samples_per_instance
        else:
            q["mspi"] = max(q["mspi"], 1)
            q["ms"] = max(q["ms"], q["mspi"]) if q["ms"] >= 0 else -1
            q["hist"] = q["mspi"] + 1           # depth > max_samples_per_instance
        return " ; ".join(["P 0", "T 0 t" + ("" if keyed else " nokey"), "PUB 0", "W 0 0 " + W.w_opts(q),
                           "reg 0 1", "w 0 1 10", "lk 0 1"])
    ops = ["P 0" + (" auto=0" if mode == "part" else ""),
           "T 0 t" + ("" if keyed else " nokey"),
           "PUB 0" + (" auto=0" if mode == "pub" else ""),
           "W 0 0 " + W.w_opts(q)]
    n = r.randint(10, 60 if not big else 150)
    en_at = None if mode == "on" else (r.randint(0, n) if r.random() < 0.85 else None)
    now = 1_000_000_000
    keys = KEYS if r.random() < 0.8 else KEYS + [0, 255, 77]
    hot = r.choice(keys)
    for i in range(n):
        if en_at is not None and i == en_at:
            ops.append("en 0")
        k = hot if r.random() < 0.4 else r.choice(keys)
        x = r.random()
        if x < 0.20:
            ops.append("reg 0 %d" % k + (" %d" % (now - r.randint(0, 5) * 1000) if r.random() < 0.3 else ""))
        elif x < 0.45:
            ops.append("lk 0 %d" % k)
        elif x < 0.57:
            ops.append("u 0 %d" % k)
        elif x < 0.67:
            ops.append("d 0 %d" % k)
        elif x < 0.93:
            if q["ls"] >= 0 and r.random() < 0.5:
                ts = now - r.choice([20_000_000_000, 0, 1000])
                ops.append("w 0 %d %d %d" % (k, r.choice([2, 10, 40]), ts))
            elif r.random() < 0.15:
                ops.append("w 0 %d %d %d" % (k, r.choice([2, 10, 40]), r.choice([0, 1, now - 10_000_000_000, now + 5_000_000_000])))
            else:
                ops.append("w 0 %d %d" % (k, r.choice([2, 10, 40])))
        elif x < 0.96:
            ops.append("en 0")
        else:
            dt = r.choice([1_000_000, 100_000_000, 150_000_000])
            now += dt
            ops.append("adv %d" % dt)
    if probe:
        ops += ["mark", "SUB 0", "R 0 0 rel=1 dur=1", "net", "adv 10000000", "net", "hist 0"]
    return " ; ".join(ops)


def gen(r, tier):
    n = {"quick": 70, "search": 250, "thorough": 800}[tier]
    return [gen_scenario(r, big=(tier != "quick" and i % 5 == 0)) for i in range(n)]


def corpus():
    hdr = "P 0 ; T 0 t ; PUB 0 ; "
    return [
        # the sentences of the property, one by one
        hdr + "W 0 0 rel=1 ; lk 0 1 ; reg 0 1 ; reg 0 1 ; lk 0 1 ; lk 0 2 ; u 0 7 ; d 0 7 ; d 0 1 ; w 0 3 10 ; lk 0 3",
        "P 0 ; T 0 t nokey ; PUB 0 ; W 0 0 rel=1 ; lk 0 1 ; reg 0 1 ; u 0 1 ; d 0 1 ; w 0 3 10 ; lk 0 3 ; lk 0 9 ; u 0 1 ; d 0 1",
        "P 0 ; T 0 t ; PUB 0 auto=0 ; W 0 0 rel=1 ; lk 0 1 ; reg 0 1 ; u 0 1 ; d 0 1 ; w 0 3 10 ; en 0 ; lk 0 1 ; reg 0 1 ; w 0 3 10 ; en 0 ; lk 0 3",
        "P 0 auto=0 ; T 0 t ; PUB 0 ; W 0 0 rel=1 ; lk 0 1 ; reg 0 1 ; en 0 ; reg 0 1",
        # regression, fixed finding C28-unregister-keeps-record (D31, b9f60de): lookup / unregister / dispose after unregister_instance
        hdr + "W 0 0 rel=1 ; reg 0 1 ; u 0 1 ; lk 0 1",
        hdr + "W 0 0 rel=1 ; w 0 1 10 ; u 0 1 ; u 0 1",
        hdr + "W 0 0 rel=1 ; reg 0 1 ; u 0 1 ; d 0 1",
        # regression, fixed finding C28-refused-write-registers-instance (3010f06): a refused write must not register the instance
        hdr + "W 0 0 rel=1 ms=1 mspi=1 mi=2 ; w 0 1 10 ; lk 0 2 ; w 0 2 10 ; lk 0 2 ; reg 0 3 ; d 0 2",
        # regression: KEEP_LAST(0) and other inconsistent QoS are refused at creation
        hdr + "W 0 0 rel=1 hist=-1 ; w 0 1 10 ; lk 0 1",
        hdr + "W 0 0 rel=1 hist=3 mspi=2 ms=5 ; w 0 1 10",
        hdr + "W 0 0 rel=1 mspi=3 ms=2 ; w 0 1 10",
        # a write parked, its instance unregistered meanwhile, then completed: the instance is registered again
        "P 0 ; T 0 t ; PUB 0 ; SUB 0 ; W 0 0 rel=1 hist=1 mbt=200000000 ; R 0 0 rel=1 ; net ; fault hold ACKNACK -1 -1 -1 ; "
        "w 0 1 10 ; net ; w 0 1 10 ; u 0 1 ; lk 0 1 ; rel ; clr ; net ; lk 0 1 ; u 0 1",
        # each resource limit at its boundary, with the history probe
        hdr + "W 0 0 rel=1 dur=1 mi=2 ms=3 mspi=2 ; w 0 1 10 ; w 0 1 10 ; w 0 1 10 ; w 0 2 10 ; w 0 2 10 ; w 0 3 10 ; reg 0 3 ; lk 0 3 ; "
              "mark ; SUB 0 ; R 0 0 rel=1 dur=1 ; net ; adv 10000000 ; net ; hist 0",
        # a sample that is already expired when written is counted but never stored
        hdr + "W 0 0 rel=1 dur=1 ls=50000000 ms=2 mspi=2 ; w 0 1 10 100000000 ; w 0 1 10 ; w 0 2 10 ; "
              "mark ; SUB 0 ; R 0 0 rel=1 dur=1 ; net ; adv 10000000 ; net ; hist 0",
        # KEEP_LAST replacement seen by the probe
        hdr + "W 0 0 rel=1 dur=1 hist=2 ; w 0 1 10 ; w 0 1 10 ; w 0 2 10 ; w 0 1 10 ; w 0 1 10 ; d 0 2 ; "
              "mark ; SUB 0 ; R 0 0 rel=1 dur=1 ; net ; adv 10000000 ; net ; hist 0",
    ]


def nontrivial(c, out):
    kinds = set()
    for o in out.split(" | "):
        t = o.split()
        if t and t[0] in ("reg", "lk", "u", "d", "w", "en"):
            kinds.add((t[0], t[-2][:2] if t[0] != "w" else t[2]))
    return c if len(kinds) >= 4 else None


def distribution(cases, outs):
    d = {}
    for c, o in zip(cases, outs):
        k = ("keyless" if " nokey" in c else "keyed") + ("/late-enable" if "auto=0" in c else "") + \
            ("/probe" if " hist " in c else "")
        d[k] = d.get(k, 0) + 1
        for x in o.split(" | "):
            t = x.split()
            if t and t[0] in ("reg", "lk", "u", "d", "w", "en"):
                r = t[2] if t[0] == "w" else t[1]
                kk = "reply:%s:%s" % (t[0], "handle" if r.startswith("h=") else r)
                d[kk] = d.get(kk, 0) + 1
    return d


MANIFEST = {
    "text": ("Machine-checked proof (Coq) over a model of DataWriterEntity and the writer service methods: for every "
             "sequence of register/unregister/dispose/lookup/write/enable calls, acknowledgements, match changes and timer "
             "ticks, on keyed and keyless types, every reply honours the documented contract: register_instance is idempotent "
             "and returns the key's handle; lookup_instance returns the handle exactly for the instances registered by a "
             "successful register/write (also a parked write that completes later) and not unregistered since; dispose / "
             "unregister of an unknown (or unregistered) instance is BadParameter; instance operations on a keyless type are "
             "IllegalOperation; everything on a not-yet-enabled writer is NotEnabled. A write that would exceed max_samples / "
             "max_instances / max_samples_per_instance is refused with OutOfResources and leaves the state unchanged. The model "
             "is tied to the code by running the real DataWriterAsync API in the deterministic whole-stack simulator and "
             "comparing every reply (and the history a late-joining reader receives, and whether create_datawriter accepts the "
             "QoS) with the model inside Coq; the contract oracle is applied to the implementation's replies."),
    "note": ("Trusted: Coq kernel + vm_compute; hand model WriterModel.v (checked by the correspondence run on every check); "
             "simulator harness and the scenario translator. Axioms: none. Findings C28-unregister-keeps-record (b9f60de) and "
             "C28-refused-write-registers-instance (3010f06) are fixed in /repo; their inputs are regression cases of the corpus."),
    "technique": "Coq proof (invariant over all event sequences) + simulator-driven differential correspondence with oracle evaluated in Coq",
}
