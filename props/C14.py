"""C14 — timestamps/durations survive wire conversion; arithmetic normalized, monotone."""
from vlib.core import cz

PID = "C14"
PROPS_FILE = "Props/C14.v"
CORR = "Time.TimeCorr"
CORR_MODULES = ["Time.TimeCorr"]
PREFIX = "C14"
CASE_TYPE = "C14_case"
HARNESS = "c14"
KNOWN = {1: "C14-saturation"}
RULE = ("cases are calls of the real conversions / arithmetic on boundary-biased (sec, nanosec) values "
        "drawn from one PRNG; distinct = distinct input line; non-trivial = result is not the zero duration "
        "and the input has a non-zero nanosecond part")
TRUSTED = ["theories/Time/TimeModel.v is a hand transcription of time.rs, rtps_messages/types.rs (Time), "
           "transport/types.rs (Time::new), rtps/behavior_types.rs (Duration)"]
ASSUMPTIONS = ["dds Duration/Time values can only be built through new(), hence are normalized",
               "monotonicity is claimed outside the recorded saturation class only (known finding C14-saturation)"]

I32MIN, I32MAX, U32MAX, NS = -2**31, 2**31 - 1, 2**32 - 1, 10**9
SECS = [0, 1, -1, 2, 13, 1700000000, I32MAX, I32MAX - 1, I32MIN, I32MIN + 1, 2**30, -2**30]
NANOS = [0, 1, 2, 3, 4, 5, 232, 233, 499999999, 500000000, 500000001, 999999998, 999999999, 250000000, 123456789]


def rsec(r):
    return r.choice(SECS) if r.random() < 0.5 else r.randint(I32MIN, I32MAX)


def rns(r):
    return r.choice(NANOS) if r.random() < 0.4 else r.randint(0, NS - 1)


def rdur(r):
    return (rsec(r), rns(r))


def rsmall(r):
    # durations far away from the clamping region
    return (r.randint(-2**29, 2**29), rns(r))


def gen(r, tier):
    n = {"quick": 6000, "search": 30000, "thorough": 200000}[tier]
    cases = []
    # systematic part: every boundary nanosecond value through the three round trips
    for ns in NANOS + [r.randint(0, NS - 1) for _ in range(200)]:
        for s in (0, 1700000000, I32MAX, I32MIN, -1):
            for op in ("rtdur", "rttime", "rtts"):
                cases.append((op, [s, ns]))
    while len(cases) < n:
        k = r.random()
        if k < 0.30:
            cases.append((r.choice(["rtdur", "rttime", "rtts"]), list(rdur(r))))
        elif k < 0.40:
            f = r.choice([0, 1, 4, 5, U32MAX, U32MAX - 1, 2**31, 2**31 - 1]) if r.random() < 0.5 else r.randint(0, U32MAX)
            if r.random() < 0.5:
                cases.append(("wiredur", [rsec(r), f]))
            else:
                cases.append(("wirets", [r.randint(0, U32MAX) if r.random() < 0.5 else r.choice([0, 1, 2**31 - 1]), f]))
        elif k < 0.45:
            cases.append(("new", [rsec(r), r.choice([0, NS - 1, NS, NS + 1, 2 * NS, 4 * NS, U32MAX]) if r.random() < 0.6 else r.randint(0, U32MAX)]))
        elif k < 0.75:
            a, b = (rdur(r), rdur(r)) if r.random() < 0.5 else (rsmall(r), rsmall(r))
            cases.append((r.choice(["add", "sub", "tsub", "tadd"]), list(a) + list(b)))
        else:
            if r.random() < 0.8:
                a, b, c = rsmall(r), rsmall(r), rsmall(r)
            else:
                a, b, c = rdur(r), rdur(r), rdur(r)
            if r.random() < 0.3:
                b = (a[0], rns(r))
            if (a[0], a[1]) > (b[0], b[1]):
                a, b = b, a
            cases.append((r.choice(["monoadd", "monosub"]), list(a) + list(b) + list(c)))
    return cases


def corpus():
    # minimised regression cases: the 1 ns witness of the old truncating conversion
    return [("rtdur", [0, 1]), ("rttime", [0, 1]), ("rtts", [0, 1]), ("rtts", [1700000000, 999999999]),
            ("monoadd", [I32MAX, 500000000, I32MAX, 900000000, 0, 200000000])]


def case_line(c):
    return c[0] + " " + " ".join(str(x) for x in c[1])


def parse_line(line):
    p = line.split()
    return (p[0], [int(x) for x in p[1:]])


def mk(s, n):
    return "(mkdur %s %s)" % (cz(s), cz(n))


def case_term(c, out):
    op, v = c
    if op in ("rtdur", "rttime", "rtts"):
        o = {"rtdur": "RtDur", "rttime": "RtTime", "rtts": "RtTs"}[op] + " " + mk(v[0], v[1])
    elif op == "wiredur":
        o = "OfWireDur (mkwire %s %s)" % (cz(v[0]), cz(v[1]))
    elif op == "wirets":
        o = "OfWireTs (mkwire %s %s)" % (cz(v[0]), cz(v[1]))
    elif op == "new":
        o = "New %s %s" % (cz(v[0]), cz(v[1]))
    elif op in ("add", "sub", "tsub", "tadd"):
        # operands pass through Duration::new / Time::new in the harness (already normalized inputs)
        o = {"add": "Add", "sub": "Sub", "tsub": "TSub", "tadd": "TAdd"}[op] + " " + mk(v[0], v[1]) + " " + mk(v[2], v[3])
    elif op in ("monoadd", "monosub"):
        o = {"monoadd": "MonoAdd", "monosub": "MonoSub"}[op] + " " + " ".join(mk(v[i], v[i + 1]) for i in (0, 2, 4))
    else:
        return None
    p = out.split()
    if p[0] == "PANIC":
        r = "(Panic 0)"
    elif p[0] == "OK":
        xs = [int(x) for x in p[1:]]
        r = "(Ok [%s])" % "; ".join(mk(xs[i], xs[i + 1]) for i in range(0, len(xs), 2))
    else:
        return None
    return "mkC14 (%s) %s" % (o, r)


def nontrivial(c, out):
    op, v = c
    if out.startswith("OK") and out != "OK 0 0" and any(v[i] != 0 for i in range(1, len(v), 2)):
        return case_line(c)
    return None


def distribution(cases, outs):
    d = {}
    for c, o in zip(cases, outs):
        k = c[0] + ("/panic" if o.startswith("PANIC") else "")
        d[k] = d.get(k, 0) + 1
    return d

MANIFEST = {
    "text": ("Machine-checked proof (Coq) over a model of time.rs / types.rs: the three wire round trips are the "
             "identity for every normalized value (all 10^9 nanosecond values, all i32 seconds, by arithmetic not by "
             "sweep); new/add/sub always return normalized values; add/sub are monotone whenever the i32 seconds do "
             "not clamp, and a witness shows they are not monotone inside that class (known finding). The model is "
             "tied to the code by running the real conversions and operators on thousands of boundary-biased inputs "
             "and comparing every output with the model inside Coq; the property oracle is applied to the "
             "implementation's own outputs."),
    "note": ("Trusted: Coq kernel + vm_compute; hand model TimeModel.v (checked against the code by the correspondence "
             "run on every check); harness and comparator. Axioms: none (Closed under the global context). "
             "Monotonicity is not claimed where seconds saturate (known finding C14-saturation)."),
    "technique": "Coq proof (lia over div/mod) + differential correspondence with oracle evaluated in Coq",
}
