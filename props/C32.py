"""C32 — WaitSet wakes whenever an attached condition becomes true."""
from vlib.core import cz

PID = "C32"
PROPS_FILE = "Props/C32.v"
CORR = "Sched.StatusCondCorr"
CORR_MODULES = ["Sched.StatusCondCorr"]
PREFIX = "C32"
CASE_TYPE = "C32_case"
HARNESS = "c32"
KNOWN = {}
RULE = ("one case = one operation sequence (5-60 ops) on 1-3 real DcpsStatusCondition objects with 1-3 real "
        "notification channels (D cases) or on real WaitSetAsync::wait futures polled by hand (W cases); after "
        "every op the trigger value of every condition and the wake count of every waker are observed; distinct = "
        "distinct input line; non-trivial = at least one registration/wait and at least one trigger value true")
TRUSTED = ["theories/Sched/StatusCondModel.v is a hand transcription of status_condition.rs, status_mask.rs, "
           "channels/notification.rs and the await points of dds_async/wait_set.rs"]
ASSUMPTIONS = ["every mail is handled atomically by the single DCPS worker and every NotificationReceiver poll is one "
               "critical section (this is what makes a list of steps an interleaving)",
               "attached conditions belong to entities that are not deleted during the wait",
               "the no-lost-wake-up theorems exclude histories containing a set_enabled_statuses that makes the "
               "trigger value true while a notification is registered (known finding C32-enable-no-notify); they "
               "hold for all histories of the patched code (fx = true)"]

KNAMES = ["InconsistentTopic", "OfferedDeadlineMissed", "RequestedDeadlineMissed", "OfferedIncompatibleQos",
          "RequestedIncompatibleQos", "SampleLost", "SampleRejected", "DataOnReaders", "DataAvailable",
          "LivelinessLost", "LivelinessChanged", "PublicationMatched", "SubscriptionMatched"]


# ------------------------------------------------------------------ generator
class Mirror:
    """abstract state used only to steer the generator (clean vs. D6 cases)"""

    def __init__(self, nc):
        self.en = [set(range(13)) for _ in range(nc)]
        self.chg = [set() for _ in range(nc)]
        self.live = [0 for _ in range(nc)]  # number of registrations waiting on the condition

    def trig(self, c):
        return bool(self.en[c] & self.chg[c])

    def add(self, c, k):
        self.chg[c].add(k)
        if self.trig(c):
            self.live[c] = 0

    def remove(self, c, k):
        self.chg[c].discard(k)

    def d6(self, c, ks):
        return self.live[c] > 0 and bool(set(ks) & self.chg[c])

    def set_enabled(self, c, ks):
        self.en[c] = set(ks)

    def register(self, c):
        if not self.trig(c):
            self.live[c] += 1


def rmask(r, pool):
    k = r.random()
    if k < 0.12:
        return []
    if k < 0.22:
        return list(range(13))
    if k < 0.30:
        return [r.choice(pool)] * 2 + [r.choice(pool)]
    n = r.randint(1, min(4, len(pool)))
    ks = r.sample(pool, n)
    if r.random() < 0.2:
        ks.append(r.choice([0, 12, r.randint(0, 12)]))
    return ks


def gen_direct(r, clean):
    nc = r.choice([1, 1, 2, 2, 3])
    nch = r.choice([1, 2, 2, 3])
    pool = r.sample(range(13), r.randint(2, 4))
    if r.random() < 0.3:
        pool = list(set(pool + [0, 12]))
    n = r.randint(5, 45)
    m = Mirror(nc)
    ops = []
    held = [True] * nch
    for _ in range(n):
        c = r.randrange(nc)
        ch = r.randrange(nch)
        x = r.random()
        if x < 0.22:
            k = r.choice(pool)
            ops.append(("a", c, k))
            m.add(c, k)
        elif x < 0.36:
            k = r.choice(pool)
            ops.append(("r", c, k))
            m.remove(c, k)
        elif x < 0.52:
            ks = rmask(r, pool)
            if clean and m.d6(c, ks):
                ks = [k for k in ks if k not in m.chg[c]]
            ops.append(("s", c, ks))
            m.set_enabled(c, ks)
        elif x < 0.57:
            ops.append(("t", c))
        elif x < 0.61:
            ops.append(("e", c))
        elif x < 0.80:
            ops.append(("g", c, ch))
            if held[ch]:
                m.register(c)
        elif x < 0.97:
            ops.append(("p", ch))
        else:
            ops.append(("x", ch))
            held[ch] = False
    # every channel is polled at the end: an owed notification must be there
    for ch in range(nch):
        ops.append(("p", ch))
    return ("D", nc, nch, ops)


def gen_d6_direct(r):
    """the D6 shape with random padding: registered, polled (parked), then enabled"""
    nc, nch = r.choice([1, 2]), r.choice([1, 2])
    c, ch = r.randrange(nc), r.randrange(nch)
    k = r.randrange(13)
    other = [x for x in range(13) if x != k]
    ops = [("s", c, r.sample(other, r.randint(0, 3))), ("a", c, k), ("g", c, ch)]
    if r.random() < 0.7:
        ops.append(("p", ch))
    ops.append(("s", c, [k] + r.sample(other, r.randint(0, 2))))
    ops.append(("t", c))
    if r.random() < 0.5:
        ops.append(("a", c, r.choice(other)))
    for x in range(nch):
        ops.append(("p", x))
    return ("D", nc, nch, ops)



# ---- W cases: the real WaitSetAsync::wait futures ------------------------------------
ODM = 1  # OfferedDeadlineMissed: the only status the harness can make a DataWriter change


def tag(c):
    """condition c carries c+1 in the four highest kinds of every mask (never changing
    statuses), so that the harness can tell which conditions wait() returned"""
    return [9 + i for i in range(4) if ((c + 1) >> i) & 1]


class WMirror:
    """steering copy of the protocol (which registrations exist), not part of the check"""

    def __init__(self, nc, nw):
        self.en = [set(range(13)) for _ in range(nc)]
        self.chg = [set() for _ in range(nc)]
        self.reg = [[] for _ in range(nc)]
        self.chans = []
        self.w = [{"pc": "idle", "att": []} for _ in range(nw)]

    def trig(self, c):
        return bool(self.en[c] & self.chg[c])

    def add(self, c):
        self.chg[c].add(ODM)
        if self.trig(c):
            for ch in self.reg[c]:
                self.chans[ch] = True
            self.reg[c] = []

    def remove(self, c):
        self.chg[c].discard(ODM)

    def d6(self, c, ks):
        return bool(self.reg[c]) and bool(set(ks) & self.chg[c])

    def start(self, i, cs):
        self.w[i] = {"pc": "c1", "j": 0, "acc": [], "att": list(cs)} if cs else {"pc": "done", "att": []}

    def cancel(self, i):
        self.w[i] = {"pc": "idle", "att": []}

    def step(self, i):
        w = self.w[i]
        pc = w["pc"]
        if pc == "done":
            self.cancel(i)
        elif pc in ("c1", "c2"):
            c = w["att"][w["j"]]
            if self.trig(c):
                w["acc"].append(c)
            w["j"] += 1
            if w["j"] == len(w["att"]):
                if pc == "c2" or w["acc"]:
                    w["pc"] = "done"
                else:
                    self.chans.append(False)
                    w["ch"] = len(self.chans) - 1
                    w["pc"], w["j"] = "reg", 0
        elif pc == "reg":
            c = w["att"][w["j"]]
            if self.trig(c):
                self.chans[w["ch"]] = True
            else:
                self.reg[c].append(w["ch"])
            w["j"] += 1
            if w["j"] == len(w["att"]):
                w["pc"] = "await"
        elif pc == "await":
            if self.chans[w["ch"]]:
                self.chans[w["ch"]] = False
                w["pc"], w["j"], w["acc"] = "c2", 0, []
                self.step(i)
            else:
                w["parked"] = True

    def blocked(self, i):
        w = self.w[i]
        return w["pc"] == "await" and w.get("parked", False) and not self.chans[w["ch"]]


def rmask_w(r, c, want=None):
    low = [k for k in (0, 2, 3, 4, 5, 6, 7, 8) if r.random() < 0.2]
    has = (r.random() < 0.6) if want is None else want
    ks = low + ([ODM] if has else []) + tag(c)
    r.shuffle(ks)
    return ks


def gen_wait(r, clean):
    # conditions 0..nwr-1 are DataWriters (their OfferedDeadlineMissed can change); the last
    # three are a Topic, a Subscriber and a DataReader whose statuses never change
    nwr = r.choice([1, 1, 2, 2, 3])
    nc = nwr + 3
    nw = r.choice([1, 2, 2, 3])
    m = WMirror(nc, nw)
    ops = []
    for c in range(nc):
        ks = rmask_w(r, c)
        ops.append(("s", c, ks))
        m.en[c] = set(ks)
    n = r.randint(8, 60)
    for _ in range(n):
        idle = [i for i in range(nw) if m.w[i]["pc"] == "idle"]
        blocked = [i for i in range(nw) if m.blocked(i)]
        moving = [i for i in range(nw) if m.w[i]["pc"] != "idle" and not m.blocked(i)]
        acts = [("add", 1.0), ("remove", 1.2), ("set", 2.0), ("get", 0.5), ("cancel", 0.25), ("anystep", 0.3)]
        if idle:
            acts.append(("start", 3.0))
        if moving:
            acts.append(("step", 6.0))
        if blocked:
            acts += [("wake", 2.5), ("repoll", 0.4), ("restart", 0.2)]
        x = r.random() * sum(w for _, w in acts)
        for a, w in acts:
            x -= w
            if x < 0:
                break
        c = r.randrange(nwr)
        if a == "wake":
            # change a status a blocked waiter is waiting for
            cand = [k for i in blocked for k in m.w[i]["att"] if k < nwr]
            if cand:
                c = r.choice(cand)
            a = "add"
        if a == "add":
            ops.append(("a", c, ODM))
            m.add(c)
        elif a == "remove":
            ops.append(("r", c, ODM))
            m.remove(c)
        elif a == "set":
            if r.random() < 0.2:
                c = r.randrange(nc)
            ks = rmask_w(r, c)
            if clean and m.d6(c, ks):
                ks = [k for k in ks if k != ODM]
            ops.append(("s", c, ks))
            m.en[c] = set(ks)
        elif a == "get":
            ops.append((r.choice(["t", "t", "e"]), r.randrange(nc)))
        elif a in ("start", "restart"):
            i = r.choice(idle if a == "start" else blocked)
            k = r.choice([0, 1, 1, 1, 2, 2, 3])
            cs = [r.randrange(nwr) if r.random() < 0.75 else r.randrange(nc) for _ in range(k)]
            ops.append(("w", i, cs))
            m.start(i, cs)
        elif a in ("step", "repoll", "anystep"):
            i = r.choice(moving if a == "step" else blocked if a == "repoll" else list(range(nw)))
            ops.append(("n", i))
            m.step(i)
        else:
            i = r.randrange(nw)
            ops.append(("c", i))
            m.cancel(i)
    # let every call run to its end: a waiter left blocked must have nothing to report
    if r.random() < 0.85:
        for i in range(nw):
            if m.w[i]["pc"] != "idle":
                for _ in range(2 * len(m.w[i]["att"]) + 3):
                    ops.append(("n", i))
                    m.step(i)
    return ("W", nc, nw, ops)


def gen_d6_wait(r):
    """waiter parked, then the status that already changed gets enabled"""
    nwr, nw = r.choice([1, 2]), r.choice([1, 2])
    nc = nwr + 3
    c, i = r.randrange(nwr), r.randrange(nw)
    ops = [("s", x, rmask_w(r, x, want=(x != c))) for x in range(nc)]
    ops.append(("a", c, ODM))
    cs = [c] if r.random() < 0.6 else [r.randrange(nc), c]
    ops.append(("w", i, cs))
    for _ in range(r.randint(1, 2 * len(cs) + 2)):
        ops.append(("n", i))
    ops.append(("s", c, rmask_w(r, c, want=True)))
    ops.append(("t", c))
    for _ in range(r.randint(0, 3)):
        ops.append(("n", i))
    if r.random() < 0.4:
        ops.append(("a", c, ODM))
        for _ in range(4):
            ops.append(("n", i))
    return ("W", nc, nw, ops)


def gen(r, tier):
    n = {"quick": 2000, "search": 8000, "thorough": 16000}[tier]
    cases = []
    while len(cases) < n:
        x = r.random()
        if x < 0.36:
            cases.append(gen_direct(r, clean=True))
        elif x < 0.46:
            cases.append(gen_direct(r, clean=False))
        elif x < 0.50:
            cases.append(gen_d6_direct(r))
        elif x < 0.86:
            cases.append(gen_wait(r, clean=True))
        elif x < 0.96:
            cases.append(gen_wait(r, clean=False))
        else:
            cases.append(gen_d6_wait(r))
    return cases


def corpus():
    return [
        # plain wake-up: registered, parked, status changes, woken once, poll ready, then pending again
        ("D", 1, 1, [("g", 0, 0), ("p", 0), ("a", 0, 1), ("p", 0), ("p", 0)]),
        # D6: enabling a status that already changed does not notify the parked waiter
        ("D", 1, 1, [("s", 0, []), ("a", 0, 1), ("g", 0, 0), ("p", 0), ("s", 0, [1]), ("t", 0), ("p", 0),
                     ("a", 0, 2), ("p", 0)]),
        # sender bookkeeping: dropped original sender, closed channel
        ("D", 2, 2, [("e", 0), ("s", 1, [3, 5]), ("e", 1), ("x", 0), ("g", 0, 0), ("p", 0), ("x", 1), ("p", 1)]),
        # one channel registered twice on one condition and once on another
        ("D", 2, 1, [("g", 0, 0), ("g", 0, 0), ("g", 1, 0), ("p", 0), ("a", 0, 8), ("p", 0), ("p", 0),
                     ("a", 1, 8), ("p", 0)]),
        # real wait(): check, register, park, status changes -> woken, collect, result [c0]
        ("W", 4, 1, [("s", 0, [9, 1]), ("w", 0, [0]), ("n", 0), ("n", 0), ("n", 0), ("a", 0, 1), ("n", 0), ("n", 0),
                     ("n", 0)]),
        # D6 on the real wait(): parked, then the changed status is enabled: not woken, does not return
        ("W", 4, 1, [("s", 0, [9]), ("a", 0, 1), ("w", 0, [0]), ("n", 0), ("n", 0), ("n", 0), ("s", 0, [9, 1]),
                     ("t", 0), ("n", 0), ("n", 0), ("a", 0, 1), ("n", 0), ("n", 0)]),
        # two conditions, both true at the end -> result [c0; c1]; empty wait set -> PreconditionNotMet
        ("W", 5, 2, [("s", 0, [9, 1]), ("s", 1, [10, 1]), ("w", 0, [0, 1]), ("w", 1, []), ("n", 1), ("n", 0),
                     ("n", 0), ("n", 0), ("n", 0), ("n", 0), ("a", 1, 1), ("a", 0, 1), ("n", 0), ("n", 0), ("n", 0),
                     ("n", 0), ("r", 0, 1), ("t", 0), ("w", 1, [1, 0]), ("n", 1), ("n", 1), ("n", 1)]),
        # a wait set over a DataWriter, a Topic, a Subscriber and a DataReader condition
        ("W", 4, 1, [("s", 0, [9, 1]), ("s", 1, [10]), ("s", 2, [9, 10, 3]), ("s", 3, [11, 1]), ("e", 0), ("e", 1),
                     ("e", 2), ("e", 3), ("w", 0, [0, 1, 2, 3])] + [("n", 0)] * 9 + [("a", 0, 1)] + [("n", 0)] * 5),
    ]


# -------------------------------------------------------------------- printing
def op_line(o):
    if o[0] == "s":
        return "s %d %s" % (o[1], ",".join(str(k) for k in o[2]) if o[2] else "-")
    if o[0] == "w":  # wait start: waiter, condition list
        return "w %d %s" % (o[1], ",".join(str(k) for k in o[2]) if o[2] else "-")
    return " ".join(str(x) for x in o)


def case_line(c):
    return "%s %d %d | %s" % (c[0], c[1], c[2], " | ".join(op_line(o) for o in c[3]))


def parse_line(line):
    parts = [p.strip() for p in line.split("|")]
    h = parts[0].split()
    ops = []
    for p in parts[1:]:
        t = p.split()
        if t[0] in ("s", "w"):
            ops.append((t[0], int(t[1]), [] if t[2] == "-" else [int(x) for x in t[2].split(",")]))
        else:
            ops.append(tuple([t[0]] + [int(x) for x in t[1:]]))
    return (h[0], int(h[1]), int(h[2]), ops)


def nat(x):
    return "%d%%nat" % x


def kinds(ks):
    return "[" + "; ".join(KNAMES[k % 13] for k in ks) + "]"


def dop_term(o):
    t = o[0]
    if t == "a":
        return "DAdd %s %s" % (nat(o[1]), KNAMES[o[2] % 13])
    if t == "r":
        return "DRemove %s %s" % (nat(o[1]), KNAMES[o[2] % 13])
    if t == "s":
        return "DSetEnabled %s %s" % (nat(o[1]), kinds(o[2]))
    if t == "t":
        return "DGetTrigger %s" % nat(o[1])
    if t == "e":
        return "DGetEnabled %s" % nat(o[1])
    if t == "g":
        return "DRegister %s %s" % (nat(o[1]), nat(o[2]))
    if t == "p":
        return "DPoll %s" % nat(o[1])
    if t == "x":
        return "DDropSender %s" % nat(o[1])
    raise ValueError(t)


def wop_term(o):
    t = o[0]
    if t == "a":
        return "HAdd %s %s" % (nat(o[1]), KNAMES[o[2] % 13])
    if t == "r":
        return "HRemove %s %s" % (nat(o[1]), KNAMES[o[2] % 13])
    if t == "s":
        return "HSet %s %s" % (nat(o[1]), kinds(o[2]))
    if t == "t":
        return "HGet %s" % nat(o[1])
    if t == "e":
        return "HGetEn %s" % nat(o[1])
    if t == "w":
        return "HStart %s [%s]" % (nat(o[1]), "; ".join(nat(x) for x in o[2]))
    if t == "n":
        return "HStep %s" % nat(o[1])
    if t == "c":
        return "HCancel %s" % nat(o[1])
    raise ValueError(t)


def pack(row):
    """one step's observations as one number: 1 followed by base-65536 digits (value + 4)"""
    a = 1
    for x in row:
        if not -4 <= x < 65532:
            raise ValueError("observation out of range")
        a = a * 65536 + (x + 4)
    return a


def case_term(c, out):
    if not out.startswith("OK"):
        return None
    body = out[2:].strip()
    steps = [s.split() for s in body.split(";")] if body else []
    try:
        outs = "[" + "; ".join(str(pack([int(x) for x in s])) for s in steps) + "]"
    except ValueError:
        return None
    kind, n1, n2, ops = c
    if kind == "D":
        return "CDirect %s %s [%s] %s" % (nat(n1), nat(n2), "; ".join(dop_term(o) for o in ops), outs)
    return "CWait %s %s [%s] %s" % (nat(n1), nat(n2), "; ".join(wop_term(o) for o in ops), outs)


def nontrivial(c, out):
    if not out.startswith("OK"):
        return None
    if not any(o[0] in ("g", "w") for o in c[3]):
        return None
    nc = c[1]
    for s in out[2:].split(";"):
        t = s.split()
        if any(x == "1" for x in t[1:1 + nc]):
            return case_line(c)
    return None


def distribution(cases, outs):
    d = {}
    for c, o in zip(cases, outs):
        d["cases/" + c[0]] = d.get("cases/" + c[0], 0) + 1
        for op in c[3]:
            k = c[0] + "/" + op[0]
            d[k] = d.get(k, 0) + 1
    return d


MANIFEST = {
    "text": ("Machine-checked proof (Coq) over a model of StatusMask, DcpsStatusCondition, the notification channel and "
             "WaitSetAsync::wait in which one step is one mail handled by the DCPS worker or one poll of the notification "
             "receiver, so that a list of steps is an interleaving of status changes, status reads, set_enabled_statuses "
             "calls and any number of concurrent wait calls (with cancellation = timeout). Proved for ALL step lists: the "
             "trigger value equals 'a status enabled by the last set_enabled_statuses has changed since it was last read' "
             "(also for the u16 mask representation). Proved for all step lists outside one recorded class: a condition "
             "with a registered notification has trigger value false; no waiter sleeps while one of its conditions is "
             "true; a parked waiter is notified and its waker called exactly once at the very step that makes a condition "
             "true; wait returns exactly the attached conditions that are true, at once when one is true at the call and "
             "within 1+n own steps once one became true; a running call left alone always reaches its return or the "
             "parked state with all conditions false; it never returns AlreadyDeleted. The recorded class (known finding "
             "C32-enable-no-notify): set_enabled_statuses that enables an already changed status while a waiter is "
             "registered does not notify it, the waiter sleeps for ever with a true condition (witness theorem; confirmed "
             "on the real DcpsStatusCondition and on the real WaitSetAsync::wait future); the same theorems hold for "
             "all step lists of the patched code (proposed_fixes/C32-enable-no-notify.diff, model switch fx). The model "
             "is tied to the code by running (a) the real DcpsStatusCondition with real notification channels and "
             "counting wakers and (b) the real async API: real WaitSetAsync::wait futures, StatusConditionAsync calls "
             "and the real DCPS worker loop, polled by hand on a hand-made runtime, with DataWriter deadline misses as "
             "status changes and Topic/Subscriber/DataReader conditions attached as well; every observation (trigger "
             "value of every condition after every op, wake-ups, poll results, returned condition lists) is compared "
             "with the model inside Coq, and an oracle that only knows the abstract sets enabled/changed and who waits on "
             "what is applied to the implementation's observations."),
    "note": ("Trusted: Coq kernel + vm_compute; hand model StatusCondModel.v (checked against the code by the "
             "correspondence run on every check); harness (hand-made runtime, null transport, standing clock) and "
             "comparator. Axioms: none. Atomicity of a mail / of a receiver poll is an assumption of the model (single "
             "worker task, critical_section). Not covered: real threads and real timeouts of the sync WaitSet::wait "
             "(block_timeout is modelled as dropping the future at an arbitrary step), deletion of an entity while it is "
             "waited on, the mpsc mail channel itself (C34), status kinds other than OfferedDeadlineMissed at the "
             "wait-set level (all 13 kinds at the DcpsStatusCondition level)."),
    "technique": "Coq proof (invariants over all step lists) + differential correspondence with oracle evaluated in Coq",
}
