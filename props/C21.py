"""C21 — BY_SOURCE_TIMESTAMP readers present samples in source-timestamp order."""
from props._reader import *  # noqa
from props import _reader

PID = "C21"
PROPS_FILE = "Props/C21.v"
PREFIX = "C21"
KNOWN = {}
RULE = ("a case is a reader QoS plus a sequence of 1-40 operations (add_reader_change with arbitrary, equal, "
        "missing and out-of-order source timestamps from 1-3 writers over 1-4 instances, read/take/next_instance "
        "with random masks, match/unmatch) run on a fresh real UserDefinedDataReader; distinct = distinct "
        "operation line; non-trivial = at least two adds, one read/take and one stored sample")
gen = _reader.gen_for("order")


def corpus():
    return [parse_line("Q 1 0 -1 -1 -1 0 0 ; A 1 1 0 1 100 10 ; A 1 1 0 2 101 20 ; R 10 3 3 7 -1"),
            parse_line("Q 1 0 -1 -1 -1 0 0 ; A 1 1 0 5 100 10 ; A 2 1 0 5 101 20 ; A 1 1 0 3 102 30 ; A 1 1 0 -1 103 40 ; T 10 3 3 7 -1")]


MANIFEST = {
    "text": ("Coq proof over the model of the reader cache (add_reader_change with every branch, read/take, "
             "next_instance, match/unmatch): for every QoS with BY_SOURCE_TIMESTAMP and every operation history the "
             "stored sample list is sorted by source timestamp, hence every presented per-instance sequence is "
             "non-decreasing. The model is tied to the code by exact comparison (return values of every op, state "
             "before every read/take, final cache, ownership table) on generated histories, evaluated inside Coq; "
             "the ordering oracle is applied to every collection the real reader returned."),
    "note": ("Trusted: Coq kernel, hand model ReaderModel.v (correspondence-checked each run), harness, generator. "
             "Axioms: none. Defect fixed: insertion at index 0 when no later timestamp exists (fix commit abebb57)."),
    "technique": "Coq proof (sortedness invariant by induction over operation histories) + differential correspondence",
}
