"""C31 — the DDS worker never oversleeps its periodic duties; a blocked write times out in time."""
from vlib.core import cz, clist, copt

PID = "C31"
PROPS_FILE = "Props/C31.v"
CORR = "Sched.WorkerCorr"
CORR_MODULES = ["Sched.WorkerCorr"]
PREFIX = "C31"
CASE_TYPE = "C31_case"
HARNESS = "timing"
KNOWN = {}
RULE = ("one case = one whole-stack simulation scenario (real worker loop, simulated clock/timer/network) drawn from one "
        "PRNG: writers with deadline/lifespan, writes with current/old/future timestamps, clock advances, blocked "
        "writes; distinct = distinct scenario line; non-trivial = the worker requested at least 3 timer delays and at "
        "least one of them differs from the 50 ms poke period (a deadline/lifespan/announcement/timeout bound the sleep)")
TRUSTED = ["theories/Sched/WorkerModel.v is a hand transcription of the worker loop (domain_participant_factory.rs), the "
           "time_until_* functions (participant_entity.rs, dcps_participant_factory.rs), check_missed_writer_deadline / "
           "remove_stale_writer_samples (discovery_methods.rs) and Duration -> core::time::Duration (time.rs)",
           "harness/src/bin/timing.rs: simulated timer rounds a requested delay of 0 up to 1 ns (the simulated clock "
           "stands still while the worker runs)"]
ASSUMPTIONS = ["timers fire when due (the simulated timer is exact)",
               "the simulated clock stands still while the worker runs, so the harness rounds a requested delay of 0 up to "
               "1 ns: an item exactly at its boundary (time_until = 0 while the check uses a strict >) and an instance several "
               "periods behind make the real worker ask for delay(0) repeatedly until the clock moves; with a real clock this "
               "is a short busy loop, in the simulation it would be a livelock",
               "the blocked-write bound is stated for a worker whose iterations are at most one poke period apart (first "
               "clause)"]

MS = 1000000
NS = 1000000000
T0 = NS  # the simulation starts at t = 1 s
POKE = 50 * MS

DLS = [10 * MS, 33 * MS, 50 * MS, 100 * MS, 120 * MS, 250 * MS, NS, 7 * MS, 49999999, 50000001]
ADVS = [1, 10 * MS, 49999999, 50 * MS, 50000001, 100 * MS, 123456789, 500 * MS, NS, 2 * NS]
ANNS = [20, 50, 70, 200, 1000, 5000]


def gen_sim(r, big):
    ann = r.choice(ANNS)
    nw = r.choice([1, 1, 2])
    ops = []
    ws = []
    for _ in range(nw):
        dl = r.choice(DLS) if r.random() < 0.8 else None
        ls = r.choice(DLS + [2 * NS]) if r.random() < 0.5 else None
        ws.append((dl, ls))
        ops.append(("W", dl, ls))
    now = T0
    oldok = r.random() < 0.35  # instances several periods behind (regression of the fixed C31-negative-sleep)
    for _ in range(r.randint(3, 14 if big else 9)):
        k = r.random()
        if k < 0.45:
            w = r.randrange(nw)
            key = r.choice([1, 1, 2, 3])
            ts = None
            q = r.random()
            dl = ws[w][0] or 100 * MS
            if q < 0.15:
                ts = now + r.choice([1, dl, 10 * MS, NS])  # future source timestamp
            elif q < 0.30:
                ts = max(0, now - r.choice([1, dl // 2, dl - 1, dl]))  # a bit old, at most one period
            elif q < 0.40 and ws[w][1] is not None:
                # out-of-order expiry: older than the previous samples but not yet expired, so the
                # change that expires first is NOT the first of the history
                ls = ws[w][1]
                ts = max(0, now - r.choice([ls // 2, 3 * ls // 4, ls - 1, ls // 3 + 7]))
            elif q < 0.45 and oldok:
                ts = max(0, now - r.choice([dl + 1, 2 * dl, 2 * dl + 1, 3 * dl, NS, 5 * dl + 7]))
            ops.append(("w", w, key, ts))
        elif k < 0.9:
            dt = r.choice(ADVS) if r.random() < 0.8 else r.randint(1, 700 * MS)
            ops.append(("adv", dt))
            now += dt
        else:
            ops.append(("odm", r.randrange(nw)))
    return ("sim", ann, nw, tuple(ops))


def gen_block(r):
    mbt = r.choice([0, 1, 10 * MS, 49999999, 50 * MS, 50000001, 120 * MS, 333333333, NS, 1700 * MS]) \
        if r.random() < 0.7 else r.randint(0, 2 * NS)
    poisoned = r.random() < 0.25
    pre = r.choice([0, 0, 30 * MS, 100 * MS])
    return ("block", mbt, poisoned, pre)


def gen_free(r):
    """two or three participants, discovery, optional endpoints with deadlines, long advances
    (lease expiry of a participant whose announcements are never delivered again)"""
    ops = ["P 0", "P 0"]
    if r.random() < 0.5:
        ops.append("P 0")
    withep = r.random() < 0.6
    if withep:
        d = r.choice([50 * MS, 100 * MS, 70 * MS])
        ops += ["T 0 t", "T 1 t", "PUB 0", "SUB 1", "W 0 0 rel=1 dl=%d ls=%d" % (d, r.choice([60 * MS, 300 * MS])),
                "R 0 1 rel=1 dl=%d" % d]
    ops.append("net")
    for _ in range(r.randint(2, 6)):
        k = r.random()
        if k < 0.5:
            ops.append("adv %d" % r.choice([10 * MS, 50 * MS, 123456789, NS, 3 * NS]))
        elif k < 0.7:
            ops.append("net")
        elif withep:
            ops.append("w 0 %d 8 1" % r.choice([1, 2]))
            if r.random() < 0.7:
                ops.append("net")
    if r.random() < 0.12:
        # no more deliveries: the leases (100 s) of the discovered participants run out
        ops.append("adv %d" % (100 * NS + r.choice([-200 * MS, 0, 300 * MS])))
        ops.append("adv %d" % (300 * MS))
    return ("free", tuple(ops))


def gen(r, tier):
    n = {"quick": 200, "search": 1000, "thorough": 1500}[tier]
    cases = []
    nb = n // 8
    for _ in range(nb):
        cases.append(gen_block(r))
    for _ in range(n // 10):
        cases.append(gen_free(r))
    while len(cases) < n:
        cases.append(gen_sim(r, tier != "quick"))
    return cases


def corpus():
    return [
        # regression (fixed C31-negative-sleep): a write whose timestamp is ten periods old; the worker
        # catches up one period per iteration (delay 0) and keeps announcing
        ("sim", 200, 1, (("W", 100 * MS, None), ("adv", NS), ("w", 0, 1, T0), ("adv", 2 * NS), ("odm", 0))),
        # exactly due values (delay 0) and the one-period-old timestamp are fine
        ("sim", 200, 1, (("W", 100 * MS, None), ("w", 0, 1, None), ("adv", 100 * MS), ("adv", 250 * MS), ("odm", 0))),
        ("sim", 5000, 1, (("W", 100 * MS, 120 * MS), ("adv", 300 * MS), ("w", 0, 1, T0 + 200 * MS), ("adv", 300 * MS))),
        # out-of-order expiry: sample 2 is written after sample 1 with an older timestamp and expires
        # first (at 1.03 s, then sample 3 at 1.07 s, sample 1 at 1.2 s): the sleep is the minimum over
        # ALL changes of the history, and each is removed at its own expiry
        ("sim", 5000, 1, (("W", None, 200 * MS), ("w", 0, 1, None), ("w", 0, 2, T0 - 170 * MS), ("w", 0, 3, T0 - 130 * MS),
                          ("adv", 40 * MS), ("adv", 300 * MS))),
        ("block", 120 * MS, False, 0),
        ("block", 120 * MS, True, 0),
        ("block", 0, True, 30 * MS),
        ("block", 0, False, 0),
        # lease expiry of discovered participants (time_until_stale_participant reaches zero)
        ("free", ("P 0", "P 0", "net", "adv 99800000000", "adv 300000000")),
    ]


def kvs(dl, ls):
    s = ""
    if dl is not None:
        s += " dl=%d" % dl
    if ls is not None:
        s += " ls=%d" % ls
    return s


def case_line(c):
    if c[0] == "free":
        return " ; ".join(("cfg trace=1",) + c[1])
    if c[0] == "sim":
        _, ann, nw, ops = c
        parts = ["cfg trace=1 ann=%d" % ann, "P 0", "T 0 t", "PUB 0"]
        for o in ops:
            if o[0] == "W":
                parts.append("W 0 0 rel=1 lis=1" + kvs(o[1], o[2]))
            elif o[0] == "w":
                parts.append("w %d %d 8 1%s" % (o[1], o[2], "" if o[3] is None else " %d" % o[3]))
            elif o[0] == "adv":
                parts.append("adv %d" % o[1])
            elif o[0] == "odm":
                parts.append("odm %d" % o[1])
        for i in range(nw):
            parts.append("odm %d" % i)
        return " ; ".join(parts)
    _, mbt, poisoned, pre = c
    parts = ["cfg trace=1", "P 0", "P 0", "T 0 t", "T 1 t", "T 0 u", "PUB 0", "SUB 1",
             "W 0 0 rel=1 hist=1 mbt=%d" % mbt, "R 0 1 rel=1", "W 0 2 dl=100000000",
             "net", "adv 100000000", "net", "fault drop ACKNACK -1 -1 -1", "w 0 1 10 1", "net"]
    if pre:
        parts.append("adv %d" % pre)
    if poisoned:
        parts.append("w 1 1 10 1 500000000")
    parts.append("wb 0 1 10 2")
    return " ; ".join(parts)


def parse_line(line):
    # replay: rebuild the case from the scenario line
    ops = [o.strip() for o in line.split(";")]
    if ops[0] == "cfg trace=1" and not any(o.startswith("wb ") for o in ops):
        return ("free", tuple(ops[1:]))
    if len(ops) > 2 and ops[2] == "P 0":
        mbt = int([t for t in ops[8].split() if t.startswith("mbt=")][0][4:])
        poisoned = any(o.startswith("w 1 ") for o in ops)
        pre = 0
        for o in ops[17:]:
            if o.startswith("adv "):
                pre = int(o.split()[1])
        return ("block", mbt, poisoned, pre)
    ann = int([t for t in ops[0].split() if t.startswith("ann=")][0][4:])
    out = []
    nw = 0
    for o in ops[4:]:
        t = o.split()
        if t[0] == "W":
            kv = dict(x.split("=") for x in t[3:])
            out.append(("W", int(kv["dl"]) if "dl" in kv else None, int(kv["ls"]) if "ls" in kv else None))
            nw += 1
        elif t[0] == "w":
            out.append(("w", int(t[1]), int(t[2]), int(t[5]) if len(t) > 5 else None))
        elif t[0] == "adv":
            out.append(("adv", int(t[1])))
        elif t[0] == "odm":
            out.append(("odm", int(t[1])))
    return ("sim", ann, nw, tuple(out[:len(out) - nw]))


def split_out(out):
    """-> list of (result text, delays [(t, ns)], wsig [(n, last)], rsig) per op"""
    res = []
    for part in out.split(" | "):
        f = part.split("#")
        if len(f) != 4:
            return None
        ds = [tuple(int(x) for x in p.split(":")) for p in f[1].strip().split(",") if p.strip()]
        wsig = [tuple(int(x) for x in p.split(":")) for p in f[2].strip().split(",") if p.strip()]
        rsig = [tuple(int(x) for x in p.split(":")) for p in f[3].strip().split(",") if p.strip()]
        res.append((f[0].strip(), ds, wsig, rsig))
    return res


def pairs(l):
    return clist("(%s, %s)" % (cz(a), cz(b)) for a, b in l)


def case_term(c, out):
    if out.startswith(("PANIC", "ABORT", "HANG")):
        return None
    so = split_out(out)
    if so is None:
        return None
    if c[0] == "free":
        ops = c[1]
        so = so[1:]
        if len(so) != len(ops):
            return None
        terms = []
        for o, (res, ds, wsig, rsig) in zip(ops, so):
            if res.endswith("STUCK") or " E" in res and not res.startswith(("t ", "r ")):
                return None
            t = "SAdv %s" % o.split()[1] if o.startswith("adv ") else "SQuery"
            terms.append("(%s, mkObs %s %s %s 0)" % (t, pairs(ds), pairs(wsig), pairs(rsig)))
        return "CFree %s" % clist(terms)
    if c[0] == "sim":
        _, ann, nw, ops = c
        so = so[4:]
        ops = list(ops) + [("odm", i) for i in range(nw)]
        if len(so) != len(ops):
            return None
        terms = []
        for o, (res, ds, wsig, rsig) in zip(ops, so):
            rep = 0
            if o[0] == "W":
                if res != "W 0":
                    return None
                t = "SCreateW %s %s" % (copt(o[1], cz), copt(o[2], cz))
            elif o[0] == "w":
                if res != "w 0":
                    return None
                t = "SWrite %d %s %s" % (o[1], cz(o[2]), copt(o[3], cz))
            elif o[0] == "adv":
                t = "SAdv %s" % cz(o[1])
            else:
                p = res.split()
                if p[0] != "odm" or p[1].startswith("E") or p[1] == "STUCK":
                    return None
                t = "SOdm %d" % o[1]
                rep = int(p[1])
            terms.append("(%s, mkObs %s %s %s %s)" % (t, pairs(ds), pairs(wsig), pairs(rsig), cz(rep)))
        return "CSim %d %s" % (ann * MS, clist(terms))
    _, mbt, poisoned, pre = c
    res, ds, _, _ = so[-1]
    p = res.split()
    if p[0] != "wb":
        return None
    rc = -1 if p[1] == "STUCK" else (0 if p[1] == "0" else int(p[1][1:]))
    return "CBlock %s %s %s %s %s" % (cz(mbt), "true" if poisoned else "false", cz(rc), cz(int(p[2])), pairs(ds))


def nontrivial(c, out):
    so = split_out(out) if not out.startswith(("PANIC", "ABORT", "HANG")) else None
    if not so:
        return None
    ds = [d for _, l, _, _ in so for d in l]
    if len(ds) >= 3 and any(ns != POKE for _, ns in ds):
        return case_line(c)
    return None


def distribution(cases, outs):
    d = {}
    for c, o in zip(cases, outs):
        k = c[0]
        if c[0] == "block":
            k += "/poisoned" if c[2] else ""
        so = split_out(o) if not o.startswith(("PANIC", "ABORT", "HANG")) else None
        if so is None:
            k += "/unparsed"
        else:
            ds = [ns for _, l, _, _ in so for _, ns in l]
            if any(ns > POKE for ns in ds):
                k += "/oversleep"
            if c[0] == "sim" and any(o[0] == "w" and o[3] is not None and o[3] < T0 for o in c[3]):
                k += "/far-behind"
            if any(ns == 0 for ns in ds):
                k += "/zero-delay"
        d[k] = d.get(k, 0) + 1
    return d


MANIFEST = {
    "text": ("Machine-checked proof (Coq) over a model of the worker loop: the six time_until_* expressions over an abstract "
             "snapshot of all participants, next_task_time as the minimum under the derived (sec, nanosec) order clamped at "
             "zero, and the conversion `sec as u64`. Proved for all well-formed snapshots — including items already overdue "
             "when the sleep is computed — and all six clock readings: the requested delay is between 0 and 50 ms. A blocked "
             "write whose worker wakes at least once per poke period returns Timeout no later than max_blocking_time + 50 ms "
             "and not before max_blocking_time. The model is tied to the code by whole-stack simulation scenarios (real "
             "worker loop with simulated clock, timer and network): every delay requested from the timer, every "
             "deadline-missed listener call and the result/latency of blocked writes are compared with the model inside "
             "Coq, and the 50 ms / timeout bounds are checked on the implementation's own observations (also on "
             "multi-participant scenarios with discovery, reader deadlines and lease expiry, where only the oracle is "
             "applied). The scenarios of the fixed finding C31-negative-sleep are kept as regression cases."),
    "note": ("Trusted: Coq kernel + vm_compute; hand model WorkerModel.v (checked against the code by the correspondence "
             "run); harness timing.rs (simulated timer rounds delay 0 up to 1 ns, see assumptions) and comparator. "
             "Axioms: none."),
    "technique": "Coq proof (order/min/max lemmas, lia) + whole-stack deterministic simulation compared in Coq",
}
