"""C25 — Time-based filter drops samples closer than minimum_separation."""
from props._reader import *  # noqa
from props import _reader

PID = "C25"
PROPS_FILE = "Props/C25.v"
PREFIX = "C25"
KNOWN = {1: "C25-out-of-order", 2: "C25-forgotten"}
RULE = ("a case is a reader QoS with TIME_BASED_FILTER minimum_separation in {5, 10, 20, 1 s} ns-units (75 % of the "
        "cases; otherwise a mix of the other reader QoS) plus a sequence of 1-40 operations (add_reader_change with "
        "increasing, equal, missing and out-of-order source timestamps from 1-3 writers over 1-4 instances, "
        "read/take/next_instance with random masks, match/unmatch) run on a fresh real UserDefinedDataReader; "
        "distinct = distinct operation line; non-trivial = at least two adds, one read/take and one stored sample")
gen = _reader.gen_for("filter")


def corpus():
    return [
        # class 1: a late sample with an EARLIER timestamp (5 after 10, separation 8) is accepted
        parse_line("Q 0 0 -1 -1 -1 0 8 ; A 1 1 0 10 100 10 ; A 1 1 0 5 101 20 ; R 10 3 3 7 -1"),
        # class 2: the taken sample is forgotten (10 taken, 12 accepted, separation 8)
        parse_line("Q 0 0 -1 -1 -1 0 8 ; A 1 1 0 10 100 10 ; T 10 3 3 7 -1 ; A 1 1 0 12 101 20 ; R 10 3 3 7 -1"),
        # in order: 17 dropped (7 after 10), other instance unaffected, 18 accepted, 26 accepted, 33 dropped
        parse_line("Q 0 0 -1 -1 -1 0 8 ; A 1 1 0 10 100 10 ; A 1 1 0 17 101 20 ; A 1 2 0 17 102 25 ; A 1 1 0 18 103 30 ; "
                   "R 10 3 3 7 -1 ; A 2 1 0 26 104 40 ; A 1 1 0 33 105 50 ; R 10 3 3 7 -1"),
        # equal timestamps and a missing timestamp; BY_SOURCE_TIMESTAMP order
        parse_line("Q 1 0 -1 -1 -1 0 5 ; A 1 1 0 10 100 10 ; A 1 1 0 10 101 20 ; A 1 1 0 -1 102 30 ; A 1 1 0 15 103 40 ; "
                   "R 10 3 3 7 -1"),
        # a very large separation drops everything within one second of the first; infinite separation
        parse_line("Q 0 0 -1 -1 -1 0 1000000000 ; A 1 1 0 10 100 10 ; A 1 1 0 999999999 101 20 ; A 1 1 0 1000000010 102 30 ; "
                   "R 10 3 3 7 -1"),
        parse_line("Q 0 0 -1 -1 -1 0 -1 ; A 1 1 0 10 100 10 ; A 1 1 0 999999999 101 20 ; A 1 1 0 -1 102 30 ; R 10 3 3 7 -1"),
    ]


MANIFEST = {
    "text": ("Coq proof over the model of the reader cache (add_reader_change with every branch, read/take, "
             "next_instance, match/unmatch): for every QoS with minimum_separation s and every operation history "
             "whose changes arrive with per-instance non-decreasing source timestamps (stated both relative to the "
             "cache and on the input alone) no two samples of one instance in the cache are closer than s "
             "(invariant by induction over histories), hence every collection returned by read/take is separated; "
             "with KEEP_ALL and no take every sample ever presented is still in the final cache, so the separation "
             "holds between any two samples ever presented. No over-filtering: in any reader state a sample at least "
             "s after every stored sample of its instance passes the filter and is not answered NotAdded (SHARED "
             "ownership); the filter does drop a sample less than s after a stored earlier-or-equal one. The two "
             "hypotheses are necessary: witness theorems for both recorded deviations. The model is tied to the code "
             "by exact comparison on generated histories, evaluated inside Coq; the separation oracle is applied to "
             "every SampleInfo the real reader returned and to the cache before every read/take."),
    "note": ("Trusted: Coq kernel, hand model ReaderModel.v (correspondence-checked each run), harness, generator. "
             "Axioms: none. Recorded deviations of the real code: C25-out-of-order (only stored samples with an "
             "earlier-or-equal timestamp are consulted, so a late sample with an earlier timestamp is accepted next to "
             "a later one), C25-forgotten (taken samples, and samples evicted by KEEP_LAST after an out-of-order "
             "arrival, are forgotten by the filter). minimum_separation = infinite (q_sep = None) is covered by the model, the "
             "correspondence run and the generator; the theorems are stated for finite separations."),
    "technique": "Coq proof (separation invariant by induction over operation histories) + differential correspondence",
}
