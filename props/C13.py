"""C13 — discovery data round-trips through its parameter-list encoding."""
import json

from vlib.core import cz

PID = "C13"
PROPS_FILE = "Props/C13.v"
CORR = "Disc.DiscCorr"
CORR_MODULES = ["Disc.DiscCorr"]
PREFIX = "C13"
CASE_TYPE = "C13_case"
HARNESS = "c13"
KNOWN = {1: "C13-u16-param-length", 2: "C13-length-limited-max"}
RULE = ("cases are (a) announced values of the four discovery types, encoded and fed to the real from_bytes, "
        "(a') the same values as a big-endian vendor encodes them (PL_CDR_BE), (a'') announcements with look-alike unknown parameters inserted (ids 0x8000|pid, 0x4000|pid, 0xC000|pid, pid^1, pid+0x100 for every pid a reader looks up, carrying plausible values of different content; before, after, or instead of the genuine parameter; LE and BE) whose decoded value must equal the announced one, (b) structure-aware mutations of such encodings (unknown/vendor pids inserted, truncated or odd length "
        "fields, duplicated parameters, wrong enum/bool bytes, big-endian headers, cut tails), (c) calls of the real "
        "per-policy XCDR1 encoders on boundary values and (d) end-to-end SPDP announcements read back from the "
        "participant writer's history cache; distinct = distinct input line; non-trivial = the real decoder returned "
        "a value with at least three non-default parameters, or the case is an encoder / announcement call")
TRUSTED = ["theories/Disc/PlModel.v and DiscModel.v are hand transcriptions of rtps_data_representation*.rs, "
           "discovered_{topic,writer,reader}_data.rs, spdp_discovered_participant_data.rs and of the XCDR1 paths of "
           "xtypes/{serializer,deserializer}.rs specialised to the discovery types",
           "the implementation's values are observed through their derived Debug output (fields are pub(crate)); "
           "the Debug parser in props/C13.py"]
ASSUMPTIONS = ["TypeInformation (PID_TYPE_INFORMATION, XCDR2) is an abstract codec assumed to round-trip (property C09); "
               "the correspondence run only sends an empty type-information blob",
               "round trip is claimed for values whose padded parameter values fit 65535 bytes (known finding "
               "C13-u16-param-length) and whose resource limits are not Limited(i32::MAX) (known finding C13-length-limited-max)",
               "the redundant fields must be consistent: remote_{writer,reader}_guid = key, guid_prefix = key[0..12], "
               "discovered_participant_list = [] (it is never transmitted)",
               "Vec::with_capacity(wire length) of partition / representation sequences is not modelled (C07)",
               "big-endian input: the iterator, unknown-pid theorem and decoders cover PL_CDR_BE; the round trip is a theorem for "
               "the crate's own (little-endian) writer and is checked on big-endian encodings by the correspondence run only"]

I32MAX, I32MIN, U32MAX = 2**31 - 1, -2**31, 2**32 - 1

# ------------------------------------------------------------------ parameter ids
P = dict(LEASE=2, TBF=4, TOPIC_NAME=5, OWNSTR=6, TYPE_NAME=7, DOMAIN_ID=15, PROTO=21, VENDOR=22, RELIABILITY=26,
         LIVELINESS=27, DURABILITY=29, OWNERSHIP=31, PRESENTATION=33, DEADLINE=35, DESTORDER=37, LATENCY=39,
         PARTITION=41, LIFESPAN=43, USER_DATA=44, GROUP_DATA=45, TOPIC_DATA=46, UNICAST=47, MULTICAST=48,
         DEF_UNICAST=49, META_UNICAST=50, META_MULTICAST=51, MLC=52, HISTORY=64, RESLIMITS=65, EXPECTS_INLINE=67,
         DEF_MULTICAST=72, TRANSPRIO=73, PARTICIPANT_GUID=80, GROUP_ENTITYID=83, ENDPOINT_SET=88, ENDPOINT_GUID=90,
         DATAREP=115, TCE=116, TYPE_INFO=117, ENDPOINT_QOS=119, DOMAIN_TAG=0x4014)
KNOWN_PIDS = set(P.values()) | {0, 1}

# ------------------------------------------------------------------ python mirror of the encoder


ENDIAN = ["little"]   # switched to "big" while a big-endian list is produced (see encode_be)


def le(n, v):
    return list((v % (1 << (8 * n))).to_bytes(n, ENDIAN[0]))


class W:
    """value writer: position relative to the start of the value"""

    def __init__(self):
        self.b = []

    def pad(self, a):
        while len(self.b) % a:
            self.b.append(0)

    def u8(self, v):
        self.b.append(v % 256)

    def u16(self, v):
        self.pad(2)
        self.b += le(2, v)

    def u32(self, v):
        self.pad(4)
        self.b += le(4, v)

    def raw(self, bs):
        self.b += list(bs)

    def string(self, s):
        self.u32(len(s) + 1)
        self.raw(s)
        self.u8(0)

    def dur(self, d):
        if d is None:
            self.u32(0x7fffffff)
            self.u32(0xffffffff)
        else:
            self.u32(d[0])
            self.u32(d[1])


def x_key(v):
    w = W(); w.raw(v); return w.b


def x_str(v):
    w = W(); w.string(v); return w.b


def x_octets(v):
    w = W(); w.u32(len(v)); w.raw(v); return w.b


def x_i32(v):
    w = W(); w.u32(v); return w.b


def x_dur(v):
    w = W(); w.dur(v); return w.b


def x_pres(v):
    w = W(); w.u32(v[0]); w.u8(1 if v[1] else 0); w.u8(1 if v[2] else 0); return w.b


def x_kind_dur(v):
    w = W(); w.u32(v[0]); w.dur(v[1]); return w.b


def x_hist(v):
    w = W()
    if v is None:
        w.u32(1); w.u32(-1)
    else:
        w.u32(0); w.u32(v)
    return w.b


def len_i32(v):
    return I32MAX if v is None else v


def x_res(v):
    w = W()
    for x in v:
        w.u32(len_i32(x))
    return w.b


def x_part(v):
    w = W(); w.u32(len(v))
    for s in v:
        w.string(s)
    return w.b


def x_rep(v):
    w = W(); w.u32(len(v))
    for x in v:
        w.u16(x)
    return w.b


def x_tce(v):
    w = W(); w.u16(v[0])
    for b in v[1:]:
        w.u8(1 if b else 0)
    return w.b


def c_loc(v):
    w = W(); w.u32(v[0]); w.u32(v[1]); w.raw(v[2]); return w.b


def c_str(v):
    w = W(); w.string(v); return w.b


def c_dur(v):
    w = W(); w.u32(v[0]); w.u32(v[1]); return w.b


def param(pid, val):
    val = list(val)
    while len(val) % 4:
        val.append(0)
    return le(2, pid) + le(2, len(val)) + val      # length as u16: truncated


HEADER, SENTINEL = [0, 3, 0, 0], [1, 0, 0, 0]

# defaults
D_KEY = [0] * 16
D_LIV = [0, None]
D_REL_RT = [1, [0, 100000000]]
D_REL_W = [2, [0, 100000000]]
D_RES = [None, None, None]
D_PRES = [0, False, False]
D_TCE = [1, True, True, False, False, False]


def opt(pid, v, default, enc):
    return [] if v == default else [(pid, enc(v))]


def params_of(kind, v):
    """list of (pid, value bytes) in into_bytes order"""
    if kind == "t":
        ps = [(P["ENDPOINT_GUID"], x_key(v["key"])), (P["TOPIC_NAME"], x_str(v["name"])), (P["TYPE_NAME"], x_str(v["type_name"]))]
        ps += opt(P["DURABILITY"], v["durability"], 0, x_i32)
        ps += opt(P["DEADLINE"], v["deadline"], None, x_dur)
        ps += opt(P["LATENCY"], v["latency_budget"], [0, 0], x_dur)
        ps += opt(P["LIVELINESS"], v["liveliness"], D_LIV, x_kind_dur)
        ps += opt(P["RELIABILITY"], v["reliability"], D_REL_RT, x_kind_dur)
        ps += opt(P["TRANSPRIO"], v["transport_priority"], 0, x_i32)
        ps += opt(P["LIFESPAN"], v["lifespan"], None, x_dur)
        ps += opt(P["DESTORDER"], v["destination_order"], 0, x_i32)
        ps += opt(P["HISTORY"], v["history"], 1, x_hist)
        ps += opt(P["RESLIMITS"], v["resource_limits"], D_RES, x_res)
        ps += opt(P["OWNERSHIP"], v["ownership"], 0, x_i32)
        ps += opt(P["TOPIC_DATA"], v["topic_data"], [], x_octets)
        ps += opt(P["DATAREP"], v["representation"], [], x_rep)
        return ps
    if kind in ("w", "r"):
        ps = [(P["ENDPOINT_GUID"], x_key(v["key"])), (P["PARTICIPANT_GUID"], x_key(v["participant_key"])),
              (P["TOPIC_NAME"], x_str(v["topic_name"])), (P["TYPE_NAME"], x_str(v["type_name"]))]
        ps += opt(P["DURABILITY"], v["durability"], 0, x_i32)
        ps += opt(P["DEADLINE"], v["deadline"], None, x_dur)
        ps += opt(P["LATENCY"], v["latency_budget"], [0, 0], x_dur)
        ps += opt(P["LIVELINESS"], v["liveliness"], D_LIV, x_kind_dur)
        if kind == "w":
            ps += opt(P["RELIABILITY"], v["reliability"], D_REL_W, x_kind_dur)
            ps += opt(P["LIFESPAN"], v["lifespan"], None, x_dur)
            ps += opt(P["USER_DATA"], v["user_data"], [], x_octets)
            ps += opt(P["OWNERSHIP"], v["ownership"], 0, x_i32)
            ps += opt(P["OWNSTR"], v["ownership_strength"], 0, x_i32)
            ps += opt(P["DESTORDER"], v["destination_order"], 0, x_i32)
        else:
            ps += opt(P["RELIABILITY"], v["reliability"], D_REL_RT, x_kind_dur)
            ps += opt(P["OWNERSHIP"], v["ownership"], 0, x_i32)
            ps += opt(P["DESTORDER"], v["destination_order"], 0, x_i32)
            ps += opt(P["USER_DATA"], v["user_data"], [], x_octets)
            ps += opt(P["TBF"], v["time_based_filter"], [0, 0], x_dur)
        ps += opt(P["PRESENTATION"], v["presentation"], D_PRES, x_pres)
        ps += opt(P["PARTITION"], v["partition"], [], x_part)
        ps += opt(P["TOPIC_DATA"], v["topic_data"], [], x_octets)
        ps += opt(P["GROUP_DATA"], v["group_data"], [], x_octets)
        ps += opt(P["DATAREP"], v["representation"], [], x_rep)
        if kind == "r":
            ps += opt(P["TCE"], v["type_consistency"], D_TCE, x_tce)
        ps += opt(P["GROUP_ENTITYID"], v["group_entity_id"], [0, 0, 0, 0], list)
        ps += [(P["UNICAST"], c_loc(l)) for l in v["unicast"]]
        ps += [(P["MULTICAST"], c_loc(l)) for l in v["multicast"]]
        if kind == "r":
            ps += opt(P["EXPECTS_INLINE"], v["expects_inline_qos"], False, lambda b: [1 if b else 0])
        return ps
    if kind == "p":
        ps = opt(P["USER_DATA"], v["user_data"], [], x_octets)
        ps += [(P["PARTICIPANT_GUID"], x_key(v["key"]))]
        if v["domain_id"] is not None:
            ps += [(P["DOMAIN_ID"], x_i32(v["domain_id"]))]
        ps += opt(P["DOMAIN_TAG"], v["domain_tag"], [], c_str)
        ps += [(P["PROTO"], list(v["protocol_version"])), (P["VENDOR"], list(v["vendor_id"]))]
        ps += opt(P["EXPECTS_INLINE"], v["expects_inline_qos"], False, lambda b: [1 if b else 0])
        ps += [(P["META_UNICAST"], c_loc(l)) for l in v["mu"]]
        ps += [(P["META_MULTICAST"], c_loc(l)) for l in v["mm"]]
        ps += [(P["DEF_UNICAST"], c_loc(l)) for l in v["du"]]
        ps += [(P["DEF_MULTICAST"], c_loc(l)) for l in v["dm"]]
        ps += [(P["ENDPOINT_SET"], x_i32(v["endpoints"]))]
        ps += opt(P["MLC"], v["mlc"], 0, x_i32)
        ps += opt(P["ENDPOINT_QOS"], v["endpoint_qos"], 0, x_i32)
        ps += [(P["LEASE"], c_dur(v["lease"]))]
        return ps
    raise ValueError(kind)


def assemble(ps, header=None, sentinel=True):
    b = list(header if header is not None else HEADER)
    for pid, val in ps:
        b += param(pid, val)
    if sentinel:
        b += SENTINEL
    return b


def encode(kind, v):
    return assemble(params_of(kind, v))


def encode_be(kind, v):
    """the same parameter list as another vendor would send it in PL_CDR_BE"""
    ENDIAN[0] = "big"
    try:
        return assemble(params_of(kind, v), header=[0, 2, 0, 0], sentinel=False) + [0, 1, 0, 0]
    finally:
        ENDIAN[0] = "little"


# ------------------------------------------------------------------ value generators
ASCII = [ord(c) for c in "abcdefghijklmnopqrstuvwxyzABCXYZ0123456789_/*?[]-. "]
MULTI = ["é", "ß", "€", "日本", "😀", " ", "ࠀ", "퟿", "", "\U00010000", "\U0010ffff"]


def rstr(r, big=False):
    k = r.random()
    n = 0 if k < 0.1 else r.randint(1, 10) if k < 0.85 else r.randint(11, 40)
    if big and r.random() < 0.04:
        n = r.choice([255, 256, 600])
    out = []
    for _ in range(n):
        if r.random() < 0.06:
            out += list(r.choice(MULTI).encode("utf-8"))
        else:
            out.append(r.choice(ASCII))
    return out


def roctets(r):
    k = r.random()
    n = 0 if k < 0.35 else r.randint(1, 9) if k < 0.85 else r.randint(10, 90)
    return [r.choice([0, 1, 255, r.randint(0, 255)]) for _ in range(n)]


def rdur(r, default=None):
    k = r.random()
    if k < 0.35:
        return default
    if k < 0.45:
        return None
    s = r.choice([0, 1, -1, 5, I32MAX, I32MAX - 1, I32MIN, 100]) if r.random() < 0.6 else r.randint(I32MIN, I32MAX)
    n = r.choice([0, 1, 999999999, 100000000, 500000000]) if r.random() < 0.6 else r.randint(0, 999999999)
    return [s, n]


def ri32(r):
    return r.choice([0, 1, -1, I32MAX, I32MIN, 7, 1000]) if r.random() < 0.7 else r.randint(I32MIN, I32MAX)


def ru32(r):
    return r.choice([0, 1, U32MAX, 2**31, 2**31 - 1, 0x3000f03f]) if r.random() < 0.7 else r.randint(0, U32MAX)


def rkey(r):
    k = r.random()
    if k < 0.1:
        return [0] * 16
    if k < 0.2:
        return [255] * 16
    return [r.randint(0, 255) for _ in range(16)]


def rloc(r):
    kind = r.choice([1, 2, 0, -1, 16777216, I32MAX, I32MIN])
    port = r.choice([0, 7400, 7410, 65535, U32MAX, r.randint(0, U32MAX)])
    addr = [0] * 12 + [r.randint(0, 255) for _ in range(4)] if r.random() < 0.6 else [r.randint(0, 255) for _ in range(16)]
    return [kind, port, addr]


def rlocs(r):
    k = r.random()
    n = 0 if k < 0.45 else 1 if k < 0.7 else r.randint(2, 8)
    return [rloc(r) for _ in range(n)]


def rlen(r, allow_max=False):
    k = r.random()
    if k < 0.4:
        return None
    c = [0, 1, 10, -1, I32MAX - 1, I32MIN]
    if allow_max:
        c.append(I32MAX)
    return r.choice(c) if r.random() < 0.8 else r.randint(I32MIN, I32MAX - 1)


def rhist(r):
    k = r.random()
    if k < 0.4:
        return 1
    if k < 0.55:
        return None
    return r.choice([0, 2, 10, I32MAX, 2**31, U32MAX, r.randint(0, U32MAX)])


def rpart(r):
    k = r.random()
    n = 0 if k < 0.5 else 1 if k < 0.75 else r.randint(2, 5)
    return [rstr(r) for _ in range(n)]


def rrep(r):
    k = r.random()
    n = 0 if k < 0.5 else 1 if k < 0.8 else r.randint(2, 4)
    return [r.choice([0, 1, 2, 65535, 256]) for _ in range(n)]


def mb(r, default, f, p=0.5):
    return default if r.random() < p else f()


def gen_topic(r, allow_max=False):
    return dict(
        key=rkey(r), name=rstr(r, True), type_name=rstr(r),
        durability=mb(r, 0, lambda: r.randint(0, 3)), deadline=rdur(r, None), latency_budget=rdur(r, [0, 0]),
        liveliness=mb(r, D_LIV, lambda: [r.randint(0, 2), rdur(r, None)]),
        reliability=mb(r, D_REL_RT, lambda: [r.randint(1, 2), rdur(r, [0, 100000000])]),
        transport_priority=mb(r, 0, lambda: ri32(r)), lifespan=rdur(r, None),
        destination_order=mb(r, 0, lambda: r.randint(0, 1)), history=rhist(r),
        resource_limits=mb(r, D_RES, lambda: [rlen(r, allow_max), rlen(r, allow_max), rlen(r, allow_max)]),
        ownership=mb(r, 0, lambda: r.randint(0, 1)), topic_data=roctets(r), representation=rrep(r))


def gen_endpoint(r, kind):
    key = rkey(r)
    v = dict(
        key=key, participant_key=rkey(r), topic_name=rstr(r, True), type_name=rstr(r),
        durability=mb(r, 0, lambda: r.randint(0, 3)), deadline=rdur(r, None), latency_budget=rdur(r, [0, 0]),
        liveliness=mb(r, D_LIV, lambda: [r.randint(0, 2), rdur(r, None)]),
        reliability=mb(r, D_REL_W if kind == "w" else D_REL_RT, lambda: [r.randint(1, 2), rdur(r, [0, 100000000])]),
        user_data=roctets(r), ownership=mb(r, 0, lambda: r.randint(0, 1)),
        destination_order=mb(r, 0, lambda: r.randint(0, 1)),
        presentation=mb(r, D_PRES, lambda: [r.randint(0, 1), r.random() < 0.5, r.random() < 0.5]),
        partition=rpart(r), topic_data=roctets(r), group_data=roctets(r), representation=rrep(r),
        guid=list(key), group_entity_id=mb(r, [0, 0, 0, 0], lambda: [r.randint(0, 255) for _ in range(4)]),
        unicast=rlocs(r), multicast=rlocs(r))
    if kind == "w":
        v["lifespan"] = rdur(r, None)
        v["ownership_strength"] = mb(r, 0, lambda: ri32(r))
    else:
        v["time_based_filter"] = rdur(r, [0, 0])
        v["type_consistency"] = mb(r, D_TCE, lambda: [r.randint(0, 1)] + [r.random() < 0.5 for _ in range(5)])
        v["expects_inline_qos"] = r.random() < 0.3
    return v


def gen_participant(r):
    key = rkey(r)
    return dict(
        key=key, user_data=roctets(r), domain_id=mb(r, None, lambda: ri32(r), 0.2), domain_tag=mb(r, [], lambda: rstr(r)),
        protocol_version=r.choice([[2, 4], [2, 1], [0, 0], [255, 255]]), guid_prefix=key[:12],
        vendor_id=r.choice([[1, 20], [1, 1], [0, 0], [255, 254]]), expects_inline_qos=r.random() < 0.3,
        mu=rlocs(r), mm=rlocs(r), du=rlocs(r), dm=rlocs(r), endpoints=ru32(r), mlc=mb(r, 0, lambda: ri32(r)),
        endpoint_qos=mb(r, 0, lambda: ru32(r)), lease=mb(r, [100, 0], lambda: [ri32(r), ru32(r)], 0.3), dpl=[])


def gen_value(r, kind, allow_max=False):
    if kind == "t":
        return gen_topic(r, allow_max)
    if kind in ("w", "r"):
        return gen_endpoint(r, kind)
    return gen_participant(r)


# ------------------------------------------------------------------ mutations of an encoding (structure aware)
def rpid_unknown(r):
    while True:
        k = r.random()
        pid = r.randint(0x8000, 0xffff) if k < 0.5 else r.randint(0x4000, 0x7fff) if k < 0.6 else r.choice(
            [0, 3, 8, 9, 10, 11, 12, 13, 14, 16, 17, 18, 19, 20, 23, 24, 25, 28, 30, 32, 34, 36, 38, 40, 42, 53, 82, 89, 96, 98, 0x3fff])
        if pid not in KNOWN_PIDS or pid == 0:
            return pid


def mutate(r, kind, v):
    """returns (tag, bytes)"""
    ps = params_of(kind, v)
    k = r.random()
    if k < 0.05:
        return "be", encode_be(kind, v)
    if k < 0.09 and ps:
        # a parameter is missing (defaults / PidNotFound)
        del ps[r.randrange(len(ps))]
        return "drop", assemble(ps)
    if k < 0.12:
        # no sentinel: the last parameter ends exactly at the end of the data
        return "nosentinel", assemble(ps, sentinel=False)
    if k < 0.16:
        # parameters after the sentinel must not be seen
        other = params_of(kind, gen_value(r, kind))
        return "aftersentinel", assemble(ps) + [b for q in other for b in param(*q)] + (SENTINEL if r.random() < 0.5 else [])
    if k < 0.30:
        # unknown / vendor-specific parameters anywhere before the sentinel
        n = r.randint(1, 4)
        for _ in range(n):
            val = [r.randint(0, 255) for _ in range(4 * r.randint(0, 6))]
            ps.insert(r.randint(0, len(ps)), (rpid_unknown(r), val))
        return "unknown", assemble(ps)
    if k < 0.40:
        # duplicate a parameter (first one wins for seek, all count for locator lists)
        if ps:
            i = r.randrange(len(ps))
            other = gen_value(r, kind)
            ops = [q for q in params_of(kind, other) if q[0] == ps[i][0]] or [ps[i]]
            ps.insert(r.randint(0, len(ps)), ops[0])
        return "dup", assemble(ps)
    if k < 0.50:
        # shuffle the parameter order
        r.shuffle(ps)
        return "shuffle", assemble(ps)
    if k < 0.58:
        # cut the tail (with or without sentinel)
        b = assemble(ps, sentinel=r.random() < 0.5)
        return "cut", b[:r.randint(0, len(b))]
    if k < 0.64:
        # big-endian / bad representation identifier, options bytes
        hdr = r.choice([[0, 2, 0, 0], [0, 0, 0, 0], [0, 1, 0, 0], [1, 3, 0, 0], [0, 3, 0, 4], [0, 3, 4, 0], [0, 7, 0, 0]])
        return "hdr", assemble(ps, header=hdr)
    if k < 0.80:
        # corrupt one parameter's value or length field
        if not ps:
            return "plain", assemble(ps)
        i = r.randrange(len(ps))
        pid, val = ps[i]
        val = list(val)
        while len(val) % 4:
            val.append(0)
        m = r.random()
        if m < 0.35 and val:
            j = r.randrange(len(val))
            val[j] = r.choice([0, 1, 2, 255, 128, r.randint(0, 255)])
            ps[i] = (pid, val)
            return "flip", assemble(ps)
        if m < 0.6:
            # shorten the value (length field follows)
            ps[i] = (pid, val[:4 * r.randint(0, max(0, len(val) // 4))])
            return "short", assemble(ps)
        # raw length field that is not a multiple of 4 / larger than what follows
        b = list(HEADER)
        for q, (pp, vv) in enumerate(ps):
            if q == i:
                vv = list(vv)
                while len(vv) % 4:
                    vv.append(0)
                ln = r.choice([0, 1, 2, 3, 5, len(vv) + 4, len(vv) - 1 if vv else 0, 65535, 65532])
                b += le(2, pp) + le(2, ln) + vv
            else:
                b += param(pp, vv)
        return "len", b + SENTINEL
    if k < 0.88:
        # a parameter of this type with hand-made hostile content
        pid = r.choice([P["PARTITION"], P["DATAREP"], P["USER_DATA"], P["TOPIC_NAME"], P["DOMAIN_TAG"], P["TYPE_INFO"],
                        P["PRESENTATION"], P["TCE"], P["HISTORY"], P["RELIABILITY"], P["DOMAIN_ID"], P["LEASE"],
                        P["GROUP_ENTITYID"], P["UNICAST"], P["META_UNICAST"], P["EXPECTS_INLINE"]])
        if pid == P["TYPE_INFO"]:
            val = []
        elif pid in (P["PARTITION"], P["DATAREP"]):
            cnt = r.choice([0, 1, 2, 3, 1000, 70000])
            val = le(4, cnt) + [r.choice([0, 1, 3, 255, r.randint(0, 255)]) for _ in range(4 * r.randint(0, 5))]
        elif pid in (P["TOPIC_NAME"], P["DOMAIN_TAG"]):
            ln = r.choice([0, 1, 2, 5, 200, U32MAX])
            val = le(4, ln) + [r.choice([0, 65, 0xff, 0xc3, 0xa9, 0x80, 0xe2, 0x82, 0xac, 0xed, 0xa0, 0xf4, 0x90]) for _ in range(4 * r.randint(0, 3))]
        else:
            val = [r.choice([0, 1, 2, 255, r.randint(0, 255)]) for _ in range(4 * r.randint(0, 7))]
        ps.insert(r.randint(0, len(ps)), (pid, val))
        return "hostile", assemble(ps)
    return "plain", assemble(ps)


# ------------------------------------------------------------------ unknown parameters that resemble known ones
# the pids each from_bytes looks up
READ_PIDS = {
    "t": [P[k] for k in ("ENDPOINT_GUID", "TOPIC_NAME", "TYPE_NAME", "TYPE_INFO", "DURABILITY", "DEADLINE", "LATENCY", "LIVELINESS",
                         "RELIABILITY", "TRANSPRIO", "LIFESPAN", "DESTORDER", "HISTORY", "RESLIMITS", "OWNERSHIP", "TOPIC_DATA", "DATAREP")],
    "w": [P[k] for k in ("ENDPOINT_GUID", "PARTICIPANT_GUID", "TOPIC_NAME", "TYPE_NAME", "TYPE_INFO", "DURABILITY", "DEADLINE", "LATENCY",
                         "LIVELINESS", "RELIABILITY", "LIFESPAN", "USER_DATA", "OWNERSHIP", "OWNSTR", "DESTORDER", "PRESENTATION",
                         "PARTITION", "TOPIC_DATA", "GROUP_DATA", "DATAREP", "GROUP_ENTITYID", "UNICAST", "MULTICAST")],
    "r": [P[k] for k in ("ENDPOINT_GUID", "PARTICIPANT_GUID", "TOPIC_NAME", "TYPE_NAME", "TYPE_INFO", "DURABILITY", "DEADLINE", "LATENCY",
                         "LIVELINESS", "RELIABILITY", "OWNERSHIP", "DESTORDER", "USER_DATA", "TBF", "PRESENTATION", "PARTITION",
                         "TOPIC_DATA", "GROUP_DATA", "DATAREP", "TCE", "GROUP_ENTITYID", "UNICAST", "MULTICAST", "EXPECTS_INLINE")],
    "p": [P[k] for k in ("PARTICIPANT_GUID", "USER_DATA", "DOMAIN_ID", "DOMAIN_TAG", "PROTO", "VENDOR", "EXPECTS_INLINE", "META_UNICAST",
                         "META_MULTICAST", "DEF_UNICAST", "DEF_MULTICAST", "ENDPOINT_SET", "MLC", "ENDPOINT_QOS", "LEASE")],
}
FAMILIES = [lambda p: 0x8000 | p, lambda p: 0x4000 | p, lambda p: 0xC000 | p, lambda p: p ^ 1, lambda p: (p + 0x100) & 0xffff]
FAMILY_NAMES = ["vendor8000", "mustunderstand4000", "c000", "xor1", "plus100"]


def lookalikes(kind, pid, fams):
    """ids that resemble pid but are read by no row of this kind (and are not the sentinel)"""
    out = []
    for f in fams:
        i = FAMILIES[f](pid)
        if i != 1 and i not in READ_PIDS[kind] and i not in out:
            out.append(i)
    return out


def in_endian(be, f):
    ENDIAN[0] = "big" if be else "little"
    try:
        return f()
    finally:
        ENDIAN[0] = "little"


def inject(kind, v, alts, be, mode, fams):
    """the announcement of v (PL_CDR_BE if be) with look-alike parameters carrying plausible values of
    DIFFERENT content: mode 'before' / 'after' each genuine parameter, 'absent' for the read pids that
    v does not announce (elided defaults, empty locator lists)"""
    def f():
        ps = params_of(kind, v)
        alt_ps = [q for a in alts for q in params_of(kind, a)]

        def bogus(pid, genuine):
            vals = [val for (p2, val) in alt_ps if p2 == pid and val != genuine]
            if pid == P["TYPE_INFO"]:
                vals = [[0] * 8]
            if not vals:
                return []
            return [(i, vals[(i + k) % len(vals)]) for k, i in enumerate(lookalikes(kind, pid, fams))]
        out = []
        if mode in ("before", "after"):
            for (pid, val) in ps:
                b = bogus(pid, val)
                out += (b + [(pid, val)]) if mode == "before" else ([(pid, val)] + b)
        else:
            present = {pid for pid, _ in ps}
            missing = [pid for pid in READ_PIDS[kind] if pid not in present]
            front = [q for pid in missing[0::2] for q in bogus(pid, None)]
            back = [q for pid in missing[1::2] for q in bogus(pid, None)]
            out = front + ps + back
        hdr = [0, 2, 0, 0] if be else HEADER
        sen = [0, 1, 0, 0] if be else SENTINEL
        return assemble(out, header=hdr, sentinel=False) + sen
    return in_endian(be, f)


def unknown_cases(r, systematic):
    """systematic: every kind x family x mode x endianness, each case touching every pid the reader looks up"""
    cases = []
    for kind in "twrp":
        alts = [gen_value(r, kind) for _ in range(40)]
        cands = [gen_value(r, kind) for _ in range(30)]
        rich = max(cands, key=lambda c: len(params_of(kind, c)))
        poor = min(cands, key=lambda c: len(params_of(kind, c)))
        combos = [(f, m, be) for f in range(len(FAMILIES)) for m in ("before", "after", "absent") for be in (False, True)]
        if not systematic:
            combos = [r.choice(combos)]
        for (f, m, be) in combos:
            v = poor if m == "absent" else (rich if systematic else gen_value(r, kind))
            fams = [f] if systematic or r.random() < 0.6 else list(range(len(FAMILIES)))
            cases.append(("rtunk", kind, v, inject(kind, v, alts, be, m, fams)))
    return cases


# ------------------------------------------------------------------ cases
# ("dec", kind, bytes, tag) | ("rt", kind, value, bytes) | ("enc", name, args) | ("ann", pvalue)
def hx(b):
    return bytes(b).hex() if b else "-"


def blob_tok(b):
    if len(b) >= 64 and all(x == b[0] for x in b):
        return "fill %d %d" % (len(b), b[0])
    return "hex " + hx(b)


def dk_tok(d):
    return "1 0 0" if d is None else "0 %d %d" % (d[0], d[1])


def enc_line(name, a):
    if name in ("key", "str"):
        return "enc %s %s" % (name, hx(a))
    if name in ("userdata", "topicdata", "groupdata"):
        return "enc %s %s" % (name, blob_tok(a))
    if name in ("transprio", "ownstr", "durability", "destorder", "ownership"):
        return "enc %s %d" % (name, a)
    if name in ("lifespan", "deadline", "latency", "tbf"):
        return "enc %s %s" % (name, dk_tok(a))
    if name == "presentation":
        return "enc presentation %d %d %d" % (a[0], a[1], a[2])
    if name in ("liveliness", "reliability"):
        return "enc %s %d %s" % (name, a[0], dk_tok(a[1]))
    if name == "history":
        return "enc history 1" if a is None else "enc history 0 %d" % a
    if name == "reslimits":
        return "enc reslimits " + " ".join("u" if x is None else str(x) for x in a)
    if name == "partition":
        return "enc partition " + " ".join(hx(s) for s in a)
    if name == "datarep":
        return "enc datarep " + " ".join(str(x) for x in a)
    if name == "tce":
        return "enc tce " + " ".join(str(int(x)) for x in a)
    raise ValueError(name)


def locs_tok(ls):
    return " ".join([str(len(ls))] + ["%d %d %s" % (l[0], l[1], hx(l[2])) for l in ls])


def case_line(c):
    if c[0] == "dec":
        return "dec %s %s" % (c[1], hx(c[2]))
    if c[0] in ("rt", "rtbe", "rtunk"):
        return "dec %s %s %s %s" % (c[1], hx(c[3]), c[0], json.dumps(c[2], separators=(",", ":")))
    if c[0] == "enc":
        return enc_line(c[1], c[2])
    if c[0] == "ann":
        p = c[1]
        return "ann %d %s %s %s %s %s %s %s" % (p["domain_id"], hx(p["domain_tag"]), hx(p["key"][:12]), blob_tok(p["user_data"]),
                                                 locs_tok(p["mu"]), locs_tok(p["mm"]), locs_tok(p["du"]), locs_tok(p["dm"]))
    raise ValueError(c)


def unhx(s):
    return [] if s == "-" else list(bytes.fromhex(s))


def parse_line(line):
    t = line.split()
    if t[0] == "dec":
        if len(t) > 3 and t[3] in ("rt", "rtbe", "rtunk"):
            return (t[3], t[1], json.loads(t[4]), unhx(t[2]))
        return ("dec", t[1], unhx(t[2]), "replay")
    return None   # enc / ann cases are regenerated, not replayed from text


# ------------------------------------------------------------------ Coq term printing
def cbytes(b):
    """run-length aware: long runs become (rep byte n)"""
    if not b:
        return "[]"
    parts, i, cur = [], 0, []
    while i < len(b):
        j = i
        while j < len(b) and b[j] == b[i]:
            j += 1
        if j - i >= 48:
            if cur:
                parts.append("[" + ";".join(map(str, cur)) + "]")
                cur = []
            parts.append("(rep %d %d)" % (b[i], j - i))
        else:
            cur += b[i:j]
        i = j
    if cur:
        parts.append("[" + ";".join(map(str, cur)) + "]")
    return parts[0] if len(parts) == 1 else "(" + " ++ ".join(parts) + ")"


def cb(x):
    return "true" if x else "false"


def cdur(d):
    return "Infinite" if d is None else "(Finite %s %s)" % (cz(d[0]), cz(d[1]))


def clen(x):
    return "Unlimited" if x is None else "(Limited %s)" % cz(x)


def chist(h):
    return "KeepAll" if h is None else "(KeepLast %s)" % cz(h)


def cliv(v):
    return "(mkliv %s %s)" % (cz(v[0]), cdur(v[1]))


def crel(v):
    return "(mkrel %s %s)" % (cz(v[0]), cdur(v[1]))


def cres(v):
    return "(mkres %s %s %s)" % tuple(clen(x) for x in v)


def cpres(v):
    return "(mkpres %s %s %s)" % (cz(v[0]), cb(v[1]), cb(v[2]))


def ctce(v):
    return "(mktce %s %s)" % (cz(v[0]), " ".join(cb(x) for x in v[1:]))


def cloc(l):
    return "(mkloc %s %s %s)" % (cz(l[0]), cz(l[1]), cbytes(l[2]))


def clist(xs):
    return "[" + "; ".join(xs) + "]"


def cti(x):
    return "None" if x is None else "(Some tt)"


def cvalue(kind, v):
    if kind == "t":
        return "(VT (mktopic unit %s))" % " ".join([
            cbytes(v["key"]), cbytes(v["name"]), cbytes(v["type_name"]), cti(v.get("ti")), cz(v["durability"]),
            cdur(v["deadline"]), cdur(v["latency_budget"]), cliv(v["liveliness"]), crel(v["reliability"]),
            cz(v["transport_priority"]), cdur(v["lifespan"]), cz(v["destination_order"]), chist(v["history"]),
            cres(v["resource_limits"]), cz(v["ownership"]), cbytes(v["topic_data"]), clist(cz(x) for x in v["representation"])])
    if kind == "w":
        return "(VW (mkdwriter unit %s))" % " ".join([
            cbytes(v["key"]), cbytes(v["participant_key"]), cbytes(v["topic_name"]), cbytes(v["type_name"]), cti(v.get("ti")),
            cz(v["durability"]), cdur(v["deadline"]), cdur(v["latency_budget"]), cliv(v["liveliness"]), crel(v["reliability"]),
            cdur(v["lifespan"]), cbytes(v["user_data"]), cz(v["ownership"]), cz(v["ownership_strength"]),
            cz(v["destination_order"]), cpres(v["presentation"]), clist(cbytes(s) for s in v["partition"]),
            cbytes(v["topic_data"]), cbytes(v["group_data"]), clist(cz(x) for x in v["representation"]),
            cbytes(v["guid"]), cbytes(v["group_entity_id"]), clist(cloc(l) for l in v["unicast"]),
            clist(cloc(l) for l in v["multicast"])])
    if kind == "r":
        return "(VR (mkdreader unit %s))" % " ".join([
            cbytes(v["key"]), cbytes(v["participant_key"]), cbytes(v["topic_name"]), cbytes(v["type_name"]), cti(v.get("ti")),
            cz(v["durability"]), cdur(v["deadline"]), cdur(v["latency_budget"]), cliv(v["liveliness"]), crel(v["reliability"]),
            cz(v["ownership"]), cz(v["destination_order"]), cbytes(v["user_data"]), cdur(v["time_based_filter"]),
            cpres(v["presentation"]), clist(cbytes(s) for s in v["partition"]), cbytes(v["topic_data"]),
            cbytes(v["group_data"]), clist(cz(x) for x in v["representation"]), ctce(v["type_consistency"]),
            cbytes(v["guid"]), cbytes(v["group_entity_id"]), clist(cloc(l) for l in v["unicast"]),
            clist(cloc(l) for l in v["multicast"]), cb(v["expects_inline_qos"])])
    if kind == "p":
        return "(VP %s)" % cparticipant(v)
    raise ValueError(kind)


def cparticipant(v):
    return "(mkparticipant %s)" % " ".join([
        cbytes(v["key"]), cbytes(v["user_data"]), "None" if v["domain_id"] is None else "(Some %s)" % cz(v["domain_id"]),
        cbytes(v["domain_tag"]), cbytes(v["protocol_version"]), cbytes(v["guid_prefix"]), cbytes(v["vendor_id"]),
        cb(v["expects_inline_qos"]), clist(cloc(l) for l in v["mu"]), clist(cloc(l) for l in v["mm"]),
        clist(cloc(l) for l in v["du"]), clist(cloc(l) for l in v["dm"]), cz(v["endpoints"]), cz(v["mlc"]),
        cz(v["endpoint_qos"]), "(%s, %s)" % (cz(v["lease"][0]), cz(v["lease"][1])), clist(cbytes(x) for x in v["dpl"])])


def cfval(name, a):
    if name == "key":
        return "FKey " + cbytes(a)
    if name == "str":
        return "FStr " + cbytes(a)
    if name in ("userdata", "topicdata", "groupdata"):
        return "FOctets " + cbytes(a)
    if name in ("transprio", "ownstr", "durability", "destorder", "ownership"):
        return "FI32 " + cz(a)
    if name in ("lifespan", "deadline", "latency", "tbf"):
        return "FDur " + cdur(a)
    if name == "presentation":
        return "FPres " + cpres(a)
    if name == "liveliness":
        return "FLiv " + cliv(a)
    if name == "reliability":
        return "FRel " + crel(a)
    if name == "history":
        return "FHist " + chist(a)
    if name == "reslimits":
        return "FRes " + cres(a)
    if name == "partition":
        return "FPart " + clist(cbytes(s) for s in a)
    if name == "datarep":
        return "FRep " + clist(cz(x) for x in a)
    if name == "tce":
        return "FTce " + ctce(a)
    raise ValueError(name)


# ------------------------------------------------------------------ parser of Rust's derived Debug output
class DebugParser:
    def __init__(self, s):
        self.s = s
        self.i = 0

    def ws(self):
        while self.i < len(self.s) and self.s[self.i] in " \n":
            self.i += 1

    def peek(self):
        self.ws()
        return self.s[self.i] if self.i < len(self.s) else ""

    def eat(self, c):
        self.ws()
        if not self.s.startswith(c, self.i):
            raise ValueError("expected %r at %d: %r" % (c, self.i, self.s[self.i:self.i + 30]))
        self.i += len(c)

    def seq(self, close):
        out = []
        while self.peek() != close:
            out.append(self.value())
            if self.peek() == ",":
                self.eat(",")
        self.eat(close)
        return out

    def string(self):
        self.eat('"')
        out = []
        s = self.s
        while s[self.i] != '"':
            c = s[self.i]
            if c == "\\":
                e = s[self.i + 1]
                self.i += 2
                if e == "u":
                    j = s.index("}", self.i)
                    out.append(chr(int(s[self.i + 1:j], 16)))
                    self.i = j + 1
                else:
                    out.append({"n": "\n", "r": "\r", "t": "\t", "0": "\0", "\\": "\\", '"': '"', "'": "'"}[e])
            else:
                out.append(c)
                self.i += 1
        self.i += 1
        return list("".join(out).encode("utf-8"))

    def value(self):
        c = self.peek()
        if c == '"':
            return self.string()
        if c == "[":
            self.eat("[")
            return self.seq("]")
        if c == "(":
            self.eat("(")
            return tuple(self.seq(")"))
        if c == "-" or c.isdigit():
            j = self.i
            if self.s[j] == "-":
                j += 1
            while j < len(self.s) and self.s[j].isdigit():
                j += 1
            v = int(self.s[self.i:j])
            self.i = j
            return v
        j = self.i
        while j < len(self.s) and (self.s[j].isalnum() or self.s[j] == "_"):
            j += 1
        name = self.s[self.i:j]
        if not name:
            raise ValueError("bad token at %d: %r" % (self.i, self.s[self.i:self.i + 30]))
        self.i = j
        if name == "true":
            return True
        if name == "false":
            return False
        nx = self.peek()
        if nx == "{":
            self.eat("{")
            fields = {}
            while self.peek() != "}":
                k = self.i
                while self.s[self.i].isalnum() or self.s[self.i] == "_":
                    self.i += 1
                fname = self.s[k:self.i]
                self.eat(":")
                fields[fname] = self.value()
                if self.peek() == ",":
                    self.eat(",")
            self.eat("}")
            return (name, fields)
        if nx == "(":
            self.eat("(")
            return (name, self.seq(")"))
        return (name, None)


ENUMS = dict(Volatile=0, TransientLocal=1, Transient=2, Persistent=3, Instance=0, Topic=1, Automatic=0,
             ManualByParticipant=1, ManualByTopic=2, BestEffort=1, Reliable=2, ByReceptionTimestamp=0,
             BySourceTimestamp=1, Shared=0, Exclusive=1, DisallowTypeCoercion=0, AllowTypeCoercion=1)


def d_dur(x):
    if x[0] == "Infinite":
        return None
    d = x[1][0][1]
    return [d["sec"], d["nanosec"]]


def d_enum(x):
    return ENUMS[x[0]]


def d_len(x):
    return None if x[0] == "Unlimited" else x[1][0]


def d_loc(x):
    f = x[1]
    return [f["kind"], f["port"], f["address"]]


def d_eid(x):
    f = x[1]
    return list(f["entity_key"]) + [f["entity_kind"]]


def d_guid(x):
    f = x[1]
    return list(f["prefix"]) + d_eid(f["entity_id"])


def d_common(f, v):
    one = lambda n, k: f[n][1][k]
    v["durability"] = d_enum(one("durability", "kind"))
    v["deadline"] = d_dur(one("deadline", "period"))
    v["latency_budget"] = d_dur(one("latency_budget", "duration"))
    v["liveliness"] = [d_enum(one("liveliness", "kind")), d_dur(one("liveliness", "lease_duration"))]
    v["reliability"] = [d_enum(one("reliability", "kind")), d_dur(one("reliability", "max_blocking_time"))]
    v["destination_order"] = d_enum(one("destination_order", "kind"))
    v["ownership"] = d_enum(one("ownership", "kind"))
    v["topic_data"] = one("topic_data", "value")
    v["representation"] = one("representation", "value")
    v["ti"] = None if f["type_information"][0] == "None" else "some"


def d_hist(x):
    k = x[1]["kind"]
    return None if k[0] == "KeepAll" else k[1][0]


def value_of_debug(kind, tree):
    """dict in the generator's format from the parsed Debug tree"""
    top = tree[1]
    if kind == "t":
        f = top["topic_builtin_topic_data"][1]
        v = dict(key=f["key"][1]["value"], name=f["name"][1]["value"], type_name=f["type_name"][1]["value"])
        d_common(f, v)
        v["transport_priority"] = f["transport_priority"][1]["value"]
        v["lifespan"] = d_dur(f["lifespan"][1]["duration"])
        v["history"] = d_hist(f["history"])
        rl = f["resource_limits"][1]
        v["resource_limits"] = [d_len(rl["max_samples"]), d_len(rl["max_instances"]), d_len(rl["max_samples_per_instance"])]
        return v
    if kind in ("w", "r"):
        f = top["dds_publication_data" if kind == "w" else "dds_subscription_data"][1]
        px = top["writer_proxy" if kind == "w" else "reader_proxy"][1]
        v = dict(key=f["key"][1]["value"], participant_key=f["participant_key"][1]["value"],
                 topic_name=f["topic_name"][1]["value"], type_name=f["type_name"][1]["value"])
        d_common(f, v)
        v["user_data"] = f["user_data"][1]["value"]
        pr = f["presentation"][1]
        v["presentation"] = [d_enum(pr["access_scope"]), pr["coherent_access"], pr["ordered_access"]]
        v["partition"] = f["partition"][1]["name"]
        v["group_data"] = f["group_data"][1]["value"]
        v["guid"] = d_guid(px["remote_writer_guid" if kind == "w" else "remote_reader_guid"])
        v["group_entity_id"] = d_eid(px["remote_group_entity_id"])
        v["unicast"] = [d_loc(l) for l in px["unicast_locator_list"]]
        v["multicast"] = [d_loc(l) for l in px["multicast_locator_list"]]
        if kind == "w":
            v["lifespan"] = d_dur(f["lifespan"][1]["duration"])
            v["ownership_strength"] = f["ownership_strength"][1]["value"]
        else:
            v["time_based_filter"] = d_dur(f["time_based_filter"][1]["minimum_separation"])
            t = f["type_consistency"][1]
            v["type_consistency"] = [d_enum(t["kind"]), t["ignore_sequence_bounds"], t["ignore_string_bounds"],
                                     t["ignore_member_names"], t["prevent_type_widening"], t["force_type_validation"]]
            v["expects_inline_qos"] = px["expects_inline_qos"]
        return v
    if kind == "p":
        f = top["dds_participant_data"][1]
        px = top["participant_proxy"][1]
        ld = top["lease_duration"][1]
        dom = px["domain_id"]
        return dict(key=f["key"][1]["value"], user_data=f["user_data"][1]["value"],
                    domain_id=None if dom[0] == "None" else dom[1][0], domain_tag=px["domain_tag"],
                    protocol_version=px["protocol_version"][1]["bytes"], guid_prefix=px["guid_prefix"],
                    vendor_id=px["vendor_id"], expects_inline_qos=px["expects_inline_qos"],
                    mu=[d_loc(l) for l in px["metatraffic_unicast_locator_list"]],
                    mm=[d_loc(l) for l in px["metatraffic_multicast_locator_list"]],
                    du=[d_loc(l) for l in px["default_unicast_locator_list"]],
                    dm=[d_loc(l) for l in px["default_multicast_locator_list"]],
                    endpoints=px["available_builtin_endpoints"][1][0], mlc=px["manual_liveliness_count"],
                    endpoint_qos=px["builtin_endpoint_qos"][1][0], lease=[ld["sec"], ld["nanosec"]],
                    dpl=[list(h[1]["0"]) if isinstance(h[1], dict) else list(h[1][0]) for h in top["discovered_participant_list"]])
    raise ValueError(kind)


def parse_dec_out(kind, out, same_v=None, same_b=None):
    """-> Coq term of type dec_out, or None.  When the decoded value / the re-encoding are equal
    to data already bound in the case term (same_v = (name, value), same_b = (name, bytes)) the
    bound name is used instead of printing the data again."""
    out = out.strip()
    if out.startswith("ERR "):
        return "(DErr %d)" % int(out.split()[1])
    if out.startswith("PANIC"):
        return "DPanic"
    if not out.startswith("OK "):
        return None
    try:
        dbg, b2, rt = out[3:].rsplit(" ## ", 2)
        tree = DebugParser(dbg).value()
        v = value_of_debug(kind, tree)
        if v.get("ti") == "some":
            return None
        rtv = 1 if rt == "1" else 0 if rt == "0" else 2
        b2 = unhx(b2)
        vt = same_v[0] if same_v is not None and same_value(kind, same_v[1], v) else cvalue(kind, v)
        bt = same_b[0] if same_b is not None and same_b[1] == b2 else cbytes(b2)
        return "(DOk %s %s %d)" % (vt, bt, rtv)
    except (ValueError, KeyError, IndexError, TypeError):
        return None


def same_value(kind, a, b):
    return cvalue(kind, a) == cvalue(kind, b)


def case_term(c, out):
    if out is None or out.startswith(("ABORT", "HANG", "BAD")):
        return None
    if c[0] == "dec":
        o = parse_dec_out(c[1], out, None, ("d", c[2]))
        return None if o is None else "(let d := %s in mkC13 (Dec %s d) (ODec %s))" % (cbytes(c[2]), "K" + c[1].upper(), o)
    if c[0] in ("rt", "rtbe", "rtunk"):
        o = parse_dec_out(c[1], out, ("v", c[2]), ("d", c[3]))
        return None if o is None else "(let v := %s in let d := %s in mkC13 (%s v d) (ODec %s))" % (
            cvalue(c[1], c[2]), cbytes(c[3]), "Rt" if c[0] == "rt" else "RtExt", o)
    if c[0] == "enc":
        if not out.startswith("OK "):
            return None
        return "mkC13 (Enc (%s)) (OEnc %s)" % (cfval(c[1], c[2]), cbytes(unhx(out.split()[1])))
    if c[0] == "ann":
        if not out.startswith("OK "):
            return None
        b, rest = out[3:].split(" ## ", 1)
        b = unhx(b)
        o = parse_dec_out("p", rest, ("v", c[1]), ("d", b))
        return None if o is None else "(let v := %s in let d := %s in mkC13 (Ann (match v with VP p => p | _ => %s end)) (OAnn d %s))" % (
            cvalue("p", c[1]), cbytes(b), "mkparticipant [] [] None [] [] [] [] false [] [] [] [] 0 0 0 (0,0) []", o)
    return None


# ------------------------------------------------------------------ generation
ENDPOINTS_DEFAULT = 0x3000f03f


def ann_value(r, user_data, tag=None, nloc=None):
    """the record announce_participant builds for these inputs"""
    prefix = [r.randint(0, 255) for _ in range(12)]
    key = prefix + [0, 0, 1, 0xc1]
    locs = (lambda: rlocs(r)) if nloc is None else (lambda: [rloc(r) for _ in range(nloc)])
    return dict(key=key, user_data=user_data, domain_id=r.choice([0, 1, 7, 232, I32MAX, -1]),
                domain_tag=rstr(r) if tag is None else tag, protocol_version=[2, 4], guid_prefix=prefix, vendor_id=[1, 20],
                expects_inline_qos=False, mu=locs(), mm=locs(), du=locs(), dm=locs(), endpoints=ENDPOINTS_DEFAULT, mlc=0,
                endpoint_qos=0, lease=[100, 0], dpl=[])


def enc_cases(r, n):
    out = []
    for _ in range(n):
        name = r.choice(["key", "str", "userdata", "topicdata", "groupdata", "transprio", "ownstr", "durability", "destorder",
                         "ownership", "lifespan", "deadline", "latency", "tbf", "presentation", "liveliness", "reliability",
                         "history", "reslimits", "partition", "datarep", "tce"])
        if name == "key":
            a = rkey(r)
        elif name == "str":
            a = rstr(r, True)
        elif name in ("userdata", "topicdata", "groupdata"):
            a = roctets(r)
        elif name in ("transprio", "ownstr"):
            a = ri32(r)
        elif name == "durability":
            a = r.randint(0, 3)
        elif name in ("destorder", "ownership"):
            a = r.randint(0, 1)
        elif name in ("lifespan", "deadline", "latency", "tbf"):
            a = rdur(r, None)
        elif name == "presentation":
            a = [r.randint(0, 1), r.random() < 0.5, r.random() < 0.5]
        elif name == "liveliness":
            a = [r.randint(0, 2), rdur(r, None)]
        elif name == "reliability":
            a = [r.randint(1, 2), rdur(r, None)]
        elif name == "history":
            a = rhist(r)
        elif name == "reslimits":
            a = [rlen(r, True), rlen(r, True), rlen(r, True)]
        elif name == "partition":
            a = rpart(r)
        elif name == "datarep":
            a = rrep(r)
        else:
            a = [r.randint(0, 1)] + [r.random() < 0.5 for _ in range(5)]
        out.append(("enc", name, a))
    return out


def big_cases(r, tier):
    """values around the 16-bit parameter length boundary: 65528 data bytes is the largest
    octet sequence whose padded parameter (4 + n, rounded up to 4) still fits 65535"""
    out = []
    sizes = [65528, 65529, 70000] if tier == "quick" else [65524, 65527, 65528, 65529, 65532, 65536, 70000, 131072]
    for n in sizes:
        fill = r.choice([0, 0, 7])
        out.append(("ann", ann_value(r, [fill] * n, tag=[], nloc=0)))
    for n in ([65528, 65529] if tier == "quick" else [65528, 65529, 70000]):
        kind = r.choice(["w", "r"])
        v = gen_endpoint(r, kind)
        v[r.choice(["user_data", "topic_data", "group_data"])] = [0] * n
        out.append(("rt", kind, v, encode(kind, v)))
    t = gen_topic(r)
    t["topic_data"] = [0] * 65529
    out.append(("rt", "t", t, encode("t", t)))
    out.append(("enc", "userdata", [3] * 70000))
    return out


def has_ti_blob(b):
    """the parameter list (as the real iterator walks it, from offset 4) contains a non-empty
    PID_TYPE_INFORMATION value: outside the model (abstract TypeInformation codec), not generated"""
    if len(b) < 4 or b[1] not in (2, 3):
        return False
    order = "big" if b[1] == 2 else "little"
    i = 4
    while i + 4 <= len(b):
        pid = int.from_bytes(bytes(b[i:i + 2]), order)
        ln = int.from_bytes(bytes(b[i + 2:i + 4]), order)
        if pid == 1 or i + ln + 4 > len(b):
            return False
        if pid == P["TYPE_INFO"] and ln > 0:
            return True
        i += ln + 4
    return False


def gen(r, tier):
    n = {"quick": 800, "search": 3000, "thorough": 8000}[tier]
    cases = []
    cases += big_cases(r, tier)
    cases += enc_cases(r, n // 10)
    for _ in range(n // 40):
        cases.append(("ann", ann_value(r, roctets(r))))
    for _ in range(n // 30):
        cases += unknown_cases(r, False)
    while len(cases) < n:
        kind = r.choice("twrp")
        k = r.random()
        if k < 0.40:
            v = gen_value(r, kind, allow_max=r.random() < 0.03)
            cases.append(("rt", kind, v, encode(kind, v)))
        elif k < 0.47:
            # the same announcement as a big-endian vendor sends it
            v = gen_value(r, kind)
            cases.append(("rtbe", kind, v, encode_be(kind, v)))
        elif k < 0.97:
            v = gen_value(r, kind)
            tag, b = mutate(r, kind, v)
            if not has_ti_blob(b):
                cases.append(("dec", kind, b, tag))
        else:
            b = [r.randint(0, 255) for _ in range(r.randint(0, 40))]
            if r.random() < 0.7:
                b[:4] = r.choice([[0, 3, 0, 0], [0, 2, 0, 0]])
            if not has_ti_blob(b):
                cases.append(("dec", kind, b, "random"))
    return cases


def corpus():
    import random
    r = random.Random("C13-corpus")
    cs = []
    # D17: 70000 bytes of user data; zeros re-synchronise (decoded user_data = []), sevens do not (ERR)
    cs.append(("ann", ann_value(r, [0] * 70000, tag=[], nloc=0)))
    cs.append(("ann", ann_value(r, [7] * 70000, tag=[], nloc=0)))
    # regression of fix c095065 (D14): zero-length domain tag string, was a `length - 1` underflow panic, now InvalidData
    p = gen_participant(r)
    ps = params_of("p", p)
    ps.insert(2, (P["DOMAIN_TAG"], [0, 0, 0, 0]))
    ps = [q for i, q in enumerate(ps) if not (q[0] == P["DOMAIN_TAG"] and i != 2)]
    cs.append(("dec", "p", assemble(ps), "d14"))
    # regression of fix 0c275fa: big-endian participant; the header used to be taken for
    # PID_PARTICIPANT_LEASE_DURATION (pid 2, length 0) -> NotEnoughData; now it decodes
    cs.append(("dec", "p", unhx("0002000000500010010203040506070809101112000001c100150004020400000016000401140000005800043000f03f00010000"), "be"))
    pb = gen_participant(r)
    cs.append(("rtbe", "p", pb, encode_be("p", pb)))
    # Length::Limited(i32::MAX) is announced as LENGTH_UNLIMITED
    t = gen_topic(r)
    t["resource_limits"] = [I32MAX, None, 5]
    cs.append(("rt", "t", t, encode("t", t)))
    cs.append(("enc", "reslimits", [I32MAX, None, 5]))
    # empty type information: topic fails, endpoints ignore it
    for k in "twr":
        v = gen_value(r, k)
        ps = params_of(k, v)
        ps.insert(3, (P["TYPE_INFO"], []))
        cs.append(("dec", k, assemble(ps), "ti"))
    # unknown / vendor-specific / must-understand-flagged look-alikes of EVERY pid a reader looks up
    # (0x8000|pid, 0x4000|pid, 0xC000|pid, pid^1, pid+0x100), before / after / instead of the genuine
    # parameter, little and big endian: decoded must equal announced
    cs += unknown_cases(r, True)
    # the unit-test vectors of the source files
    cs.append(("dec", "t", unhx("000300005a0010000100000002000000030000000400000005000800030000006162000007000800030000006364000001000000"), "unit"))
    return cs


def nontrivial(c, out):
    if c[0] in ("enc", "ann"):
        return case_line(c)[:200]
    if out.startswith("OK"):
        b = c[2] if c[0] == "dec" else c[3]
        # at least three parameters besides the mandatory ones
        if len(b) > 100:
            return hash(case_line(c))
    return None


def distribution(cases, outs):
    d = {}
    for c, o in zip(cases, outs):
        k = c[0] + ":" + (c[1] if c[0] != "ann" else "p") + ("/" + c[3] if c[0] == "dec" else "")
        k += "=" + (o.split()[0] if o else "?") + ((" " + o.split()[1]) if o and o.startswith("ERR") else "")
        d[k] = d.get(k, 0) + 1
    return d


MANIFEST = {
    "text": ("Machine-checked proof (Coq) over a byte-level model of the parameter-list writer (pid, 16-bit length, value, "
             "padding to 4, sentinel), of the PidIterator / seek / get_* reader and of the field codecs; each of the four "
             "discovery data kinds is a pair of tables (write order, read order) mirroring the write_*/get_* calls. A generic "
             "theorem shows decode(encode r) = r for every table with distinct pids and round-tripping codecs whenever every "
             "padded value fits 65535 bytes; it is instantiated for topic, publication, subscription and participant data; "
             "unknown or vendor-specific parameters inserted anywhere before the sentinel do not change the decoded value. "
             "The model is tied to the code by running the real from_bytes/into_bytes, the real per-policy encoders and real "
             "SPDP announcements on generated values and on mutated encodings and comparing every output inside Coq."),
    "note": ("Known findings: parameter values longer than 65535 bytes are announced with a truncated 16-bit length "
             "(user data of 70000 bytes is silently lost or makes the announcement undecodable); Length::Limited(i32::MAX) is "
             "announced as unlimited. TypeInformation (XCDR2) is an abstract codec. Trusted: Coq kernel + vm_compute, the hand "
             "model (checked against the code on every run), harness, Debug parser and comparator."),
    "technique": "Coq proof (table-driven generic round trip, list/arith lemmas) + differential correspondence with oracle evaluated in Coq",
}
