"""C34 — worker channels (oneshot / mpsc / notification) never lose values or wake-ups."""
import itertools

from vlib import core
from vlib.core import cz

PID = "C34"
PROPS_FILE = "Props/C34.v"
CORR = "Sched.ChannelsCorr"
CORR_MODULES = ["Sched.ChannelsCorr"]
PREFIX = "C34"
CASE_TYPE = "C34_case"
HARNESS = "c34"
KNOWN = {}
RULE = ("one case = one history (<= 40 operations: send/notify, clone, drop sender, poll with one of 8 counting "
        "wakers, drop receiver) driven through ONE real channel on one thread; in part of the cases a poll runs "
        "concurrently with a sender-side operation of a second thread that is released from inside the poll "
        "(hook in Waker::clone) and the monitor must accept one of the two orders; every short history over a small "
        "alphabet is enumerated, longer ones are drawn from one PRNG with ownership-valid handles (plus a few ops "
        "on dead handles); distinct = distinct input line; non-trivial = the history delivers at least one value "
        "and issues at least one wake")
TRUSTED = ["theories/Sched/ChannelsModel.v is a hand transcription of the critical_section::with bodies of "
           "channels/oneshot.rs, mpsc.rs, notification.rs",
           "atomicity of critical_section::with (the std implementation: a global re-entrant mutex) and the "
           "memory ordering it provides are assumed, not proved",
           "Rust ownership (a moved/dropped handle is never used again) is modelled by a ghost handle table",
           "granularity check: the second thread is judged 'blocked on the critical-section lock' from "
           "/proc/self/task/<tid>/stat (state S after it announced its operation)"]
ASSUMPTIONS = ["every step of a history is one critical_section::with body executed atomically; under that "
               "assumption a list of steps IS an interleaving of the threads owning the handles",
               "mpsc and notification: no overflow of sender_count is claimed for histories shorter than "
               "2^64-1 steps"]

KINDS = {"o": "KOneshot", "m": "KMpsc", "n": "KNotif"}


# ------------------------------------------------------------------ generator

def op_tok(o):
    if o[0] == "P":
        return "P%d/%s" % (o[1], op_tok(o[2]))
    if o[0] == "s":
        return "s%d:%d" % (o[1], o[2])
    if o[0] == "r":
        return "r"
    return "%s%d" % (o[0], o[1])


def rand_history(r, kind, n):
    """ownership-valid history with a few invalid steps; values are distinct and increasing"""
    live = [True]
    recv_left = None          # ops still generated after the receiver was dropped
    ops = []
    nextv = r.choice([1, 1, 100, -5])
    style = r.random()
    if style < 0.25:      # poll-heavy: parked receiver, changing wakers
        w = (0.25, 0.08, 0.10, 0.52, 0.01, 0.04)
    elif style < 0.5:     # send-heavy: long queues
        w = (0.50, 0.10, 0.08, 0.27, 0.01, 0.04)
    elif style < 0.75:    # handle churn: clone / drop
        w = (0.20, 0.25, 0.25, 0.25, 0.01, 0.04)
    else:
        w = (0.30, 0.12, 0.15, 0.35, 0.04, 0.04)
    for _ in range(n):
        if recv_left is not None:
            if recv_left == 0:
                break
            recv_left -= 1
        lives = [i for i, x in enumerate(live) if x]
        k = r.random()
        acc = 0.0
        choice = 5
        for i, x in enumerate(w):
            acc += x
            if k < acc:
                choice = i
                break
        if choice == 2 and len(lives) == 1 and kind != "o" and r.random() < 0.6:
            choice = 3            # keep the last sender a little longer
        if choice == 0 and lives:
            h = r.choice(lives)
            ops.append(("s", h, nextv))
            nextv += 1
            if kind == "o":
                live[h] = False
        elif choice == 1 and lives and kind != "o":
            h = r.choice(lives)
            ops.append(("c", h))
            live.append(True)
        elif choice == 2 and lives:
            h = r.choice(lives)
            ops.append(("d", h))
            live[h] = False
        elif choice == 3 or (choice in (0, 1, 2) and not lives):
            wk = r.randint(0, 7) if r.random() < 0.2 else r.randint(0, 2)
            ops.append(("q" if (kind == "m" and r.random() < 0.2) else "p", wk))
        elif choice == 4:
            ops.append(("r",))
            if recv_left is None:
                recv_left = r.randint(0, 3)
        else:
            # not expressible in Rust (handle gone / never existed): must be a no-op on both sides
            h = r.randint(0, len(live) + 1)
            ops.append(r.choice([("s", h, nextv), ("d", h), ("c", h)]))
            if ops[-1][0] == "s":
                nextv += 1
            # keep the Python bookkeeping exact when the handle happens to be live
            if h < len(live) and live[h]:
                if ops[-1][0] == "d" or (ops[-1][0] == "s" and kind == "o"):
                    live[h] = False
                elif ops[-1][0] == "c" and kind != "o":
                    live.append(True)
    if not ops:
        ops.append(("p", 0))
    return (kind, ops)


def scenario(r, kind):
    """structured families aimed at the wake-up and disconnection logic"""
    ops = []
    live = [True]
    v = r.randint(1, 50)
    if kind != "o":
        for _ in range(r.randint(0, 3)):
            ops.append(("c", r.choice([i for i, x in enumerate(live) if x])))
            live.append(True)
    fam = r.randint(0, 3)
    if fam == 0:
        # parked with a waker that is replaced, then signalled, then drained past empty
        for _ in range(r.randint(1, 3)):
            ops.append(("p", r.randint(0, 7)))
        for _ in range(r.randint(1, 4) if kind != "o" else 1):
            lives = [i for i, x in enumerate(live) if x]
            if not lives:
                break
            h = r.choice(lives)
            ops.append(("s", h, v))
            v += 1
            if kind == "o":
                live[h] = False
        for _ in range(r.randint(1, 5)):
            ops.append(("p", r.randint(0, 3)))
    elif fam == 1:
        # parked, then the sender handles are dropped one by one (last drop must wake)
        ops.append(("p", r.randint(0, 7)))
        order = [i for i, x in enumerate(live) if x]
        r.shuffle(order)
        for h in order:
            if r.random() < 0.3:
                ops.append(("p", r.randint(0, 7)))
            if r.random() < 0.25 and kind != "o":
                ops.append(("s", h, v))
                v += 1
                if r.random() < 0.5:
                    ops.append(("p", r.randint(0, 3)))
            ops.append(("d", h))
        for _ in range(r.randint(1, 3)):
            ops.append(("p", r.randint(0, 3)))
    elif fam == 2:
        # burst of sends from several handles, drops in between, drain, re-park, send again
        for _ in range(r.randint(2, 10)):
            lives = [i for i, x in enumerate(live) if x]
            if not lives:
                break
            h = r.choice(lives)
            ops.append(("s", h, v))
            v += 1
            if kind == "o":
                live[h] = False
            elif r.random() < 0.15 and len(lives) > 1:
                ops.append(("d", h))
                live[h] = False
        for _ in range(r.randint(1, 12)):
            ops.append(("q" if kind == "m" and r.random() < 0.3 else "p", r.randint(0, 2)))
        lives = [i for i, x in enumerate(live) if x]
        if lives:
            ops.append(("s", lives[0], v))
            ops.append(("p", 1))
            ops.append(("p", 1))
    else:
        # value sent, sender dropped, THEN first poll (value must win over disconnection)
        lives = [i for i, x in enumerate(live) if x]
        for h in lives:
            if r.random() < 0.7:
                ops.append(("s", h, v))
                v += 1
                if kind == "o":
                    live[h] = False
        for h in [i for i, x in enumerate(live) if x]:
            ops.append(("d", h))
        for _ in range(r.randint(1, 4) + (len(lives) if kind == "m" else 0)):
            ops.append(("p", r.randint(0, 2)))
    return (kind, ops)


def exhaustive(kind, alphabet, maxlen):
    out = []
    for n in range(1, maxlen + 1):
        for t in itertools.product(alphabet, repeat=n):
            ops = []
            v = 1
            for o in t:
                if o[0] == "s":
                    ops.append(("s", o[1], v))
                    v += 1
                else:
                    ops.append(o)
            out.append((kind, ops))
    return out


def with_races(r, case, prob):
    """turn some adjacent (poll, sender-side op) pairs into two-thread pairs"""
    kind, ops = case
    out = []
    i = 0
    while i < len(ops):
        if (i + 1 < len(ops) and ops[i][0] == "p" and ops[i + 1][0] in ("s", "c", "d")
                and r.random() < prob):
            out.append(("P", ops[i][1], ops[i + 1]))
            i += 2
        else:
            out.append(ops[i])
            i += 1
    return (kind, out)


def race_family():
    """systematic two-thread pairs: (state before) x (concurrent sender-side op) x drain"""
    cases = []
    for pre in ([], [("p", 0)], [("p", 0), ("p", 1)], [("s", 0, 1)], [("d", 0)], [("r",)]):
        for act in (("s", 0, 5), ("d", 0)):
            cases.append(("o", pre + [("P", 1, act), ("p", 2), ("p", 2)]))
    pres = ([], [("p", 0)], [("c", 0)], [("c", 0), ("p", 0)], [("s", 0, 1), ("p", 0)], [("s", 0, 1)],
            [("c", 0), ("d", 0)], [("c", 0), ("d", 1), ("p", 3)])
    for kind in ("m", "n"):
        for pre in pres:
            for act in (("s", 0, 5), ("s", 1, 6), ("d", 0), ("d", 1), ("c", 0)):
                cases.append((kind, pre + [("P", 1, act), ("p", 2), ("p", 2), ("p", 2)]))
        # two pairs in one history: last two handles dropped, each while the receiver polls
        cases.append((kind, [("c", 0), ("P", 3, ("d", 0)), ("P", 4, ("d", 1)), ("p", 2)]))
        cases.append((kind, [("c", 0), ("P", 3, ("s", 1, 7)), ("p", 0), ("P", 4, ("s", 0, 8)), ("p", 2), ("p", 2)]))
    return cases


def gen(r, tier):
    n = {"quick": 4500, "search": 20000, "thorough": 100000}[tier]
    cases = []
    deep = tier != "quick"
    cases += race_family()
    # bounded-exhaustive part: every history over a small alphabet
    cases += exhaustive("o", [("s", 0), ("d", 0), ("p", 0), ("p", 1), ("r",)], 5 if deep else 4)
    alpha = [("s", 0), ("s", 1), ("c", 0), ("d", 0), ("d", 1), ("p", 0), ("p", 1), ("r",)]
    cases += exhaustive("m", alpha, 4 if deep else 3)
    cases += exhaustive("n", alpha, 4 if deep else 3)
    while len(cases) < n:
        kind = r.choice(["o", "m", "m", "n", "n"])
        if r.random() < 0.3:
            c = scenario(r, kind)
        else:
            ln = r.randint(2, 8) if kind == "o" else r.choice([r.randint(3, 12), r.randint(10, 40)])
            c = rand_history(r, kind, ln)
        if r.random() < 0.15:
            c = with_races(r, c, 0.5)
        cases.append(c)
    return cases


def corpus():
    # minimised regression cases
    return [
        # seeded change C34b (poll split into check | register): the send / the drop lands inside the poll
        ("o", [("P", 1, ("s", 0, 5)), ("p", 2), ("p", 2)]),
        ("o", [("P", 1, ("d", 0)), ("p", 2)]),
        ("m", [("P", 1, ("s", 0, 5)), ("p", 2), ("p", 2)]),
        ("m", [("P", 1, ("d", 0)), ("p", 2)]),
        ("n", [("P", 1, ("s", 0, 0)), ("p", 2), ("p", 2)]),
        ("n", [("P", 1, ("d", 0)), ("p", 2)]),
        ("m", [("d", 0), ("p", 0)]),             # C34-mpsc-never-closes (fixed 112abf8): was `u p`, now `u c`
        ("m", [("p", 0), ("d", 0), ("p", 1)]),   # same finding: the last drop did not wake: was `p u p`
        ("m", [("c", 0), ("s", 1, 7), ("d", 0), ("p", 0), ("d", 1), ("p", 0), ("p", 0)]),
        ("m", [("p", 0), ("s", 0, 1), ("s", 0, 2), ("p", 1), ("p", 1), ("p", 1), ("s", 0, 3)]),
        ("o", [("p", 0), ("s", 0, 5), ("p", 1), ("p", 1)]),
        ("o", [("p", 0), ("p", 1), ("d", 0), ("p", 2)]),
        ("n", [("p", 0), ("c", 0), ("d", 0), ("s", 1, 0), ("p", 1), ("p", 1), ("d", 1), ("p", 2)]),
        ("n", [("p", 2), ("c", 0), ("d", 1), ("d", 0), ("p", 1)]),
        ("n", [("s", 0, 0), ("s", 0, 0), ("d", 0), ("p", 0), ("p", 0)]),
    ]


def case_line(c):
    return c[0] + " " + " ".join(op_tok(o) for o in c[1])


def parse_line(line):
    p = line.split()
    if not p or p[0] not in KINDS:
        return None
    ops = []
    def one(t):
        if t[0] == "P":
            w, a = t[1:].split("/")
            return ("P", int(w), one(a))
        if t[0] == "s":
            h, v = t[1:].split(":")
            return ("s", int(h), int(v))
        if t[0] == "r":
            return ("r",)
        return (t[0], int(t[1:]))
    return (p[0], [one(t) for t in p[1:]])


# ------------------------------------------------------------- Coq printing

def op_term(o):
    if o[0] == "s":
        return "Send %d%%nat %s" % (o[1], cz(o[2]))
    if o[0] == "c":
        return "Clone %d%%nat" % o[1]
    if o[0] == "d":
        return "DropS %d%%nat" % o[1]
    if o[0] in ("p", "q"):
        return "Poll %d%%nat" % o[1]
    return "DropR"


RET = {"k": "RSkip", "u": "RUnit", "e": "RSendErr", "c": "RClosed", "p": "RPending", "x": "RPanic"}


def out_term(tok):
    parts = tok.split("!")
    head, wakes = parts[0], parts[1:]
    if head.startswith("v"):
        r = "(RReady %s)" % cz(int(head[1:]))
    elif head in RET:
        r = RET[head]
    else:
        raise ValueError(tok)
    return "mkout %s [%s]" % (r, "; ".join("%d%%nat" % int(w) for w in wakes))


def flatten(ops):
    """harness ops -> (model-level ops, positions of the concurrent pairs)"""
    flat, races = [], []
    for o in ops:
        if o[0] == "P":
            races.append(len(flat))
            flat.append(("p", o[1]))
            flat.append(o[2])
        else:
            flat.append(o)
    return flat, races


def case_term(c, out):
    kind, ops = c
    if out.startswith("ABORT") or out.startswith("HANG"):
        return None
    ops, races = flatten(ops)
    toks = out.split()
    if "T" in toks:
        return None      # the concurrent pair could not be decided (harness wait limit)
    try:
        if out.startswith("PANIC") or len(toks) != len(ops):
            raise ValueError(out)
        # `~` (the concurrent op completed inside the poll) is information for the reader only
        outs = [out_term(t.replace("~", "")) for t in toks]
    except ValueError:
        # a panic or garbage: representable, rejected by model and oracle
        outs = ["mkout RPanic []"] * len(ops)
    evs = "; ".join("(%s, %s)" % (op_term(o), r) for o, r in zip(ops, outs))
    return "mkC34 %s [%s] [%s]" % (KINDS[kind], evs, "; ".join("%d%%nat" % i for i in races))


def nontrivial(c, out):
    if " v" in " " + out and "!" in out:
        return case_line(c)
    return None


def distribution(cases, outs):
    d = {}
    for c, o in zip(cases, outs):
        n = len(c[1])
        nr = sum(1 for x in c[1] if x[0] == "P")
        if nr:
            d["two-thread-pairs"] = d.get("two-thread-pairs", 0) + nr
            d["two-thread-pairs-inside-poll(~)"] = d.get("two-thread-pairs-inside-poll(~)", 0) + o.count("~")
        b = "len<=4" if n <= 4 else ("len<=12" if n <= 12 else "len<=40")
        k = "%s/%s" % (KINDS[c[0]], b)
        d[k] = d.get(k, 0) + 1
        toks = o.split()
        for name, pred in (("ops", lambda t: True), ("skipped-ops", lambda t: t[0] == "k"),
                           ("ready-values", lambda t: t[0] == "v"), ("closed", lambda t: t[0] == "c"),
                           ("pending", lambda t: t[0] == "p"), ("wakes", lambda t: "!" in t)):
            d[name] = d.get(name, 0) + sum(1 for t in toks if pred(t))
    return d


# ---------------------------------------- multi-thread stress: corroboration only

def extra(ctx, binary):
    reps = 3 if ctx.tier == "quick" else 25
    lines = []
    for i in range(reps):
        s = ctx.rng.randint(1, 2**31)
        lines.append("stress m %d %d %d" % (s, ctx.rng.randint(2, 6), 1500))
        lines.append("stress n %d %d %d" % (s, ctx.rng.randint(1, 6), 800))
        lines.append("stress o %d 1 %d" % (s, 300))
    outs = core.run_harness(binary, HARNESS, lines, shards=3, timeout=600)
    bad = [(l, o) for l, o in zip(lines, outs) if o != "OK"]
    ctx.cov["stress_runs_multithread"] = {"runs": len(lines), "failed": len(bad),
                                          "note": "real threads, parking waker; corroboration only, not part of the proof"}
    for l, o in bad[:3]:
        ctx.violations.append(("stress", "multi-thread stress run failed: %s -> %s" % (l, o),
                               {"case": l, "harness": HARNESS, "impl_output": o}))


MANIFEST = {
    "text": ("Machine-checked proof (Coq) over state-machine models of the three worker channels whose steps are "
             "exactly the critical_section::with bodies of oneshot.rs, mpsc.rs and notification.rs. For EVERY list of "
             "steps over any number of sender handles, wakers and the receiver (= every thread interleaving, as each "
             "body is atomic) it is proved that: received values followed by the values still stored equal the "
             "accepted sends in order (exactly-once, FIFO); a poll returns the oldest outstanding value; a receiver "
             "whose poll returned Pending has been woken by the time a poll would be Ready (no lost wake-up); all "
             "three channels report disconnection exactly when every sender handle is dropped and nothing is "
             "outstanding (queued values first); sender_count of mpsc and notification equals the number of live "
             "handles and never under/overflows. The model is tied to the code by driving the real channel types "
             "with counting wakers through thousands of histories (all short ones exhaustively) and comparing every "
             "return value and every wake inside Coq; the property monitor is applied to the implementation's own "
             "outputs. The GRANULARITY of the critical sections is checked too: in several hundred cases a second "
             "thread is released from inside the receiver's poll (hook in Waker::clone) and performs a send / drop / "
             "clone; if poll is one critical section the lock serialises it after the poll, otherwise it lands "
             "inside and the monitor must still accept one of the two orders (a closed Coq example shows that a poll "
             "split into check | register loses the wake-up, so the atomicity hypothesis is necessary). A "
             "multi-thread stress run corroborates. (The mpsc disconnection clause was false before "
             "/repo commit 112abf8: finding C34-mpsc-never-closes, fixed.)"),
    "note": ("Trusted: Coq kernel + vm_compute; hand model ChannelsModel.v (checked against the code on every run); "
             "atomicity and memory ordering of critical_section::with (std implementation) are assumed, not proved; "
             "ownership discipline modelled as a ghost handle table; harness and comparator. Axioms: none."),
    "technique": "Coq proof (invariants over all step lists) + differential correspondence with trace monitor evaluated in Coq",
}
