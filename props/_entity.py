"""Shared by C35 / C36 / C37: scenario lines of harness/src/bin/entity.rs <-> Coq terms of
Entity.EntityModel (wop / ret), plus small scenario-building helpers.

A case is a list of op strings (one scenario); case_line joins them with ' ; '."""
from vlib.core import cz

HOSTAPP = "0506070801020304"   # host_id ++ app_id given to DomainParticipantFactoryAsync::new by the harness
BURN_NAME = 1000000

# uniform 21-slot endpoint QoS: key, default (per kind where it differs), kind of slot
EQ_KEYS = ["dur", "dl", "lat", "lk", "ll", "rel", "mbt", "ord", "hist", "ms", "mi", "mspi", "tp", "ls", "own",
           "str", "ud", "sep", "rep", "adu", "apn"]
EQ_OPT = {"dl", "lat", "ll", "mbt", "ls", "sep", "apn"}      # durations: -1 = None
EQ_LEN = {"ms", "mi", "mspi"}                                # 'u' = None
GQ_KEYS = ["sc", "coh", "oa", "part", "gd", "auto"]
PQ_KEYS = ["ud", "auto"]


def eq_default(kind):
    return {"dur": 0, "dl": -1, "lat": 0, "lk": 0, "ll": -1, "rel": 1 if kind == "W" else 0, "mbt": 100000000,
            "ord": 0, "hist": 1, "ms": "u", "mi": "u", "mspi": "u", "tp": 0, "ls": -1, "own": 0, "str": 0,
            "ud": 0, "sep": 0, "rep": 0, "adu": 1, "apn": -1}


def gq_default():
    return {"sc": 0, "coh": 0, "oa": 0, "part": 0, "gd": 0, "auto": 1}


def pq_default():
    return {"ud": 0, "auto": 1}


def kv_tokens(d, base):
    """only the keys that differ from base (the harness fills in the same defaults); a spec equal to the
    default still has to be 'Specific', so at least one key is always printed"""
    toks = ["%s=%s" % (k, d[k]) for k in d if d[k] != base[k]]
    if not toks:
        k = next(iter(d))
        toks = ["%s=%s" % (k, d[k])]
    return " ".join(toks)


def parse_kv(tokens, base):
    """tokens after the fixed arguments: [] or ['def'] -> None (QosKind::Default), else dict"""
    if not tokens or tokens[0] == "def":
        return None
    d = dict(base)
    for t in tokens:
        if "=" in t:
            k, v = t.split("=", 1)
            if k in d:
                d[k] = v if v == "u" else int(v)
    return d


def cbool(x):
    return "true" if x else "false"


def copt_dur(v):
    return "None" if v < 0 else "(Some %d)" % v


def copt_len(v):
    return "None" if v == "u" else "(Some %s)" % cz(int(v))


def eqos_term(d):
    """d: dict over EQ_KEYS as sent to the harness (hist -1 = keep all)"""
    parts = []
    for k in EQ_KEYS:
        v = d[k]
        if k in EQ_OPT:
            parts.append(copt_dur(v))
        elif k in EQ_LEN:
            parts.append(copt_len(v))
        elif k == "hist":
            parts.append("None" if v < 0 else "(Some %d)" % v)
        elif k == "adu":
            parts.append(cbool(v != 0))
        elif k == "ud":
            # bytes_in: n <= 0 -> [], else [n as u8]; printed back as the byte
            parts.append(cz(0 if v <= 0 else v % 256))
        elif k == "rep":
            parts.append(cz(v if 0 <= v <= 4 else 0))
        elif k in ("tp", "str"):
            parts.append(cz(v))
        else:
            parts.append(cz(v))
    return "(mkEQ %s)" % " ".join(parts)


def gqos_term(d):
    return "(mkGQ %s %s %s %s %s %s)" % (cz(1 if d["sc"] == 1 else 0), cbool(d["coh"] != 0), cbool(d["oa"] != 0),
                                          cz(max(d["part"], 0)), cz(0 if d["gd"] <= 0 else d["gd"] % 256),
                                          cbool(d["auto"] != 0))


def pqos_term(d):
    return "(mkPQ %s %s)" % (cz(0 if d["ud"] <= 0 else d["ud"] % 256), cbool(d["auto"] != 0))


def opt(term):
    return "None" if term is None else "(Some %s)" % term


SIDE = {"PUB": "SPub", "SUB": "SSub", "W": "SPub", "R": "SSub"}
PK = {"P": "KP", "T": "KT", "PUB": "KPUB", "SUB": "KSUB", "W": "KW", "R": "KR"}


def op_term(op):
    """Coq wop of one op string; None if the op is not understood"""
    t = op.split()
    if not t:
        return None
    a = t[0]
    try:
        if a == "FQ":
            return "WFq %s" % cbool(int(t[1]) != 0)
        if a == "P":
            d = parse_kv(t[2:], pq_default())
            return "WP %s" % opt(pqos_term(d) if d else None)
        if a == "T":
            d = parse_kv(t[3:], eq_default("T"))
            return "WT %s %s %s" % (cz(int(t[1])), cz(int(t[2])), opt(eqos_term(d) if d else None))
        if a == "CFT":
            return "WCft %s %s %s" % (cz(int(t[1])), cz(-int(t[2]) - 1), cz(int(t[3])))
        if a in ("PUB", "SUB"):
            d = parse_kv(t[2:], gq_default())
            return "WG %s %s %s" % (SIDE[a], cz(int(t[1])), opt(gqos_term(d) if d else None))
        if a in ("W", "R"):
            d = parse_kv(t[3:], eq_default(a))
            return "WE %s %s %s %s" % (SIDE[a], cz(int(t[1])), cz(int(t[2])), opt(eqos_term(d) if d else None))
        if a == "RC":
            d = parse_kv(t[3:], eq_default("R"))
            return "WRc %s %s %s" % (cz(int(t[1])), cz(int(t[2])), opt(eqos_term(d) if d else None))
        if a in ("delW", "delR", "delPUB", "delSUB", "delT", "delCFT"):
            via = "None" if len(t) < 3 else "(Some %s)" % cz(int(t[2]))
            i = cz(int(t[1]))
            if a in ("delW", "delR"):
                return "WDelE %s %s %s" % (SIDE[a[3:]], i, via)
            if a in ("delPUB", "delSUB"):
                return "WDelG %s %s %s" % (SIDE[a[3:]], i, via)
            if a == "delT":
                return "WDelT %s %s" % (i, via)
            return "WDelCft %s %s" % (i, via)
        if a == "delall":
            return "WDelAll %s" % cz(int(t[1]))
        if a == "delP":
            return "WDelP %s" % cz(int(t[1]))
        if a == "gq":
            return "WGq %s %s" % (PK[t[1]], cz(int(t[2])))
        if a == "sq":
            k, i = t[1], cz(int(t[2]))
            if k == "P":
                d = parse_kv(t[3:], pq_default())
                return "WSqP %s %s" % (i, opt(pqos_term(d) if d else None))
            if k in ("PUB", "SUB"):
                d = parse_kv(t[3:], gq_default())
                return "WSqG %s %s %s" % (SIDE[k], i, opt(gqos_term(d) if d else None))
            if k in ("W", "R"):
                d = parse_kv(t[3:], eq_default(k))
                return "WSqE %s %s %s" % (SIDE[k], i, opt(eqos_term(d) if d else None))
            if k == "T":
                d = parse_kv(t[3:], eq_default("T"))
                return "WSqT %s %s" % (i, opt(eqos_term(d) if d else None))
            return None
        if a == "en":
            return "WEn %s %s" % (PK[t[1]], cz(int(t[2])))
        if a == "h":
            return "WH %s %s" % (PK[t[1]], cz(int(t[2])))
        if a == "st":
            return "WSt %s %s" % (SIDE[t[1]], cz(int(t[2])))
        if a == "keepnet":
            return "WKeepnet"
        if a == "settle":
            return "WSettle"
        if a == "mpd":
            return "WMpd %s %s" % (cz(int(t[1])), cz(int(t[2])))
        if a == "msd":
            return "WMsd %s %s" % (cz(int(t[1])), cz(int(t[2])))
        if a in ("burnPUB", "burnSUB"):
            return "WBurnG %s %s %s" % (SIDE[a[4:]], cz(int(t[1])), cz(int(t[2])))
        if a == "burnT":
            return "WBurnT %s %s" % (cz(int(t[1])), cz(int(t[2])))
        if a in ("burnW", "burnR"):
            return "WBurnE %s %s %s %s" % (SIDE[a[4:]], cz(int(t[1])), cz(int(t[2])), cz(int(t[3])))
    except (ValueError, IndexError, KeyError):
        return None
    return None


def handle_term(hx):
    if len(hx) != 32 or not hx.startswith(HOSTAPP):
        return None
    try:
        b = bytes.fromhex(hx)
    except ValueError:
        return None
    inst = int.from_bytes(b[8:12], "little")
    return "(mkH %d %d %d %d %d)" % (inst, b[12], b[13], b[14], b[15])


def code_term(tok):
    if tok == "0":
        return "RUnit"
    if tok.startswith("E") and tok[1:].isdigit():
        return "(RErr %s)" % tok[1:]
    return None


def out_term(o):
    """Coq ret of one result string; None if unrepresentable (STUCK, ABORT, garbage)"""
    t = o.split()
    if not t:
        return None
    if t[0] == "PANIC":
        return "RPanic"
    if t[0] == "X":
        return "RBad"
    if t[0] in ("P", "T", "PUB", "SUB", "W", "R", "h"):
        if len(t) != 2:
            return None
        if t[1].startswith("E"):
            return code_term(t[1])
        h = handle_term(t[1])
        return None if h is None else "(RHandle %s)" % h
    if t[0] in ("FQ", "CFT", "del", "s", "e", "st"):
        return code_term(t[1]) if len(t) == 2 else None
    if t[0] in ("k", "n") and len(t) == 1:
        return "RUnit"
    if t[0] == "m":
        if len(t) == 2:
            return code_term(t[1])
        try:
            return "(RAnn [%s])" % "; ".join(cz(int(x)) for x in t[1:])
        except ValueError:
            return None
    if t[0] == "b":
        if len(t) != 3:
            return None
        c = code_term(t[2])
        return None if c is None else "(RBurn %s %s)" % (t[1], c)
    if t[0] == "q":
        v = t[1:]
        if len(v) == 1:
            return code_term(v[0])
        try:
            if len(v) == 2:
                return "(RPQ (mkPQ %s %s))" % (cz(int(v[0])), cbool(int(v[1]) != 0))
            if len(v) == 6:
                return "(RGQ (mkGQ %s %s %s %s %s %s))" % (cz(int(v[0])), cbool(int(v[1]) != 0), cbool(int(v[2]) != 0),
                                                             cz(int(v[3])), cz(int(v[4])), cbool(int(v[5]) != 0))
            if len(v) == 21:
                d = {}
                for k, x in zip(EQ_KEYS, v):
                    d[k] = x if x == "u" else int(x)
                # printed values are already canonical: reuse the input printer except for the tags
                parts = []
                for k in EQ_KEYS:
                    x = d[k]
                    if k in EQ_OPT:
                        parts.append(copt_dur(x))
                    elif k in EQ_LEN:
                        parts.append(copt_len(x))
                    elif k == "hist":
                        parts.append("None" if x < 0 else "(Some %d)" % x)
                    elif k == "adu":
                        parts.append(cbool(x != 0))
                    else:
                        parts.append(cz(x))
                return "(REQ (mkEQ %s))" % " ".join(parts)
        except ValueError:
            return None
    return None


def case_line(c):
    return " ; ".join(c)


def parse_line(line):
    return [x.strip() for x in line.split(";") if x.strip()]


def case_term(c, out):
    ops = [op_term(o) for o in c]
    if any(o is None for o in ops):
        return None
    outs = [out_term(o.strip()) for o in out.split("|")]
    if any(o is None for o in outs):
        return None
    return "mkEC [%s] [%s]" % ("; ".join(ops), "; ".join(outs))


# ------------------------------------------------------------------ scenario builder
class Sc:
    """Builds a scenario while mirroring which proxies exist (assuming creations succeed unless told otherwise)."""

    def __init__(self):
        self.ops = []
        self.n = {"P": 0, "T": 0, "C": 0, "PUB": 0, "SUB": 0, "W": 0, "R": 0}

    def add(self, op, made=None):
        self.ops.append(op)
        if made:
            self.n[made] += 1
            return self.n[made] - 1
        return None


# ------------------------------------------------------------------ generator-side mirror
class Mirror:
    """What the implementation is EXPECTED to hold after the ops generated so far (topics by name, content
    filtered topics never removed, ...).  Only used to generate index-valid, interesting scenarios: the verdicts
    come from the Coq model and oracle, never from this class."""

    def __init__(self):
        self.ops = []
        self.parts = []     # dict(live)
        self.topics = []    # dict(p, name, live)   proxies
        self.cfts = []      # dict(p, name, rel, live)
        self.pubs = []      # dict(p, live)
        self.subs = []
        self.ws = []        # dict(p, g, name, live)
        self.rs = []
        self.names = {}     # (p, name) -> exists in the implementation

    # -- queries
    def plive(self, p):
        return 0 <= p < len(self.parts) and self.parts[p]["live"]

    def groups(self, sd):
        return self.pubs if sd == "PUB" else self.subs

    def eps(self, sd):
        return self.ws if sd == "PUB" else self.rs

    def glive(self, sd, g):
        l = self.groups(sd)
        return 0 <= g < len(l) and l[g]["live"] and self.plive(l[g]["p"])

    def name_exists(self, p, name):
        return self.plive(p) and self.names.get((p, name), False)

    def group_has_eps(self, sd, g):
        return any(e["live"] and e["g"] == g for e in self.eps(sd))

    def name_in_use(self, p, name):
        return (any(e["live"] and e["p"] == p and e["name"] == name for e in self.ws + self.rs)
                or any(c["live"] and c["p"] == p and c["rel"] == name for c in self.cfts))

    def cft_exists(self, p, cname):
        return self.plive(p) and any(c["live"] and c["p"] == p and c["name"] == cname for c in self.cfts)

    def part_empty(self, p):
        return (not any(x["live"] and x["p"] == p for x in self.pubs + self.subs)
                and not any(self.names.get((p, t["name"]), False) for t in self.topics if t["p"] == p)
                and not any(c["live"] and c["p"] == p for c in self.cfts))

    # -- ops
    def emit(self, s):
        self.ops.append(s)

    def P(self, spec="def"):
        self.emit("P 0 %s" % spec)
        self.parts.append({"live": True})
        return len(self.parts) - 1

    def T(self, p, name, spec="def", ok_qos=True):
        self.emit("T %d %d %s" % (p, name, spec))
        if self.plive(p) and not self.names.get((p, name), False) and ok_qos:
            self.names[(p, name)] = True
            self.topics.append({"p": p, "name": name, "live": True})
            return len(self.topics) - 1
        return None

    def CFT(self, p, cname, t):
        self.emit("CFT %d %d %d" % (p, cname, t))
        tp = self.topics[t]
        if 0 <= p < len(self.parts) and self.name_exists(tp["p"], tp["name"]):
            self.cfts.append({"p": tp["p"], "name": cname, "rel": tp["name"], "live": True})
            return len(self.cfts) - 1
        return None

    def G(self, sd, p, spec="def"):
        self.emit("%s %d %s" % (sd, p, spec))
        if self.plive(p):
            self.groups(sd).append({"p": p, "live": True})
            return len(self.groups(sd)) - 1
        return None

    def E(self, sd, g, t, spec="def", ok_qos=True):
        self.emit("%s %d %d %s" % ("W" if sd == "PUB" else "R", g, t, spec))
        gp = self.groups(sd)[g]
        if self.glive(sd, g) and self.name_exists(gp["p"], self.topics[t]["name"]) and ok_qos:
            self.eps(sd).append({"p": gp["p"], "g": g, "name": self.topics[t]["name"], "live": True})
            return len(self.eps(sd)) - 1
        return None

    def RC(self, g, c, spec="def"):
        self.emit("RC %d %d %s" % (g, c, spec))
        gp = self.subs[g]
        cf = self.cfts[c]
        # resolved in the subscriber's participant: a live cft of that name, then its related topic
        cands = [x for x in self.cfts if x["live"] and x["p"] == gp["p"] and x["name"] == cf["name"]]
        if self.glive("SUB", g) and cands and self.name_exists(gp["p"], cands[0]["rel"]):
            self.rs.append({"p": gp["p"], "g": g, "name": "cft", "cft": cf["name"], "live": True})
            return len(self.rs) - 1
        return None

    def delE(self, sd, e, via=None):
        self.emit("del%s %d%s" % ("W" if sd == "PUB" else "R", e, "" if via is None else " %d" % via))
        x = self.eps(sd)[e]
        g = x["g"] if via is None else via
        if x["live"] and g == x["g"] and self.glive(sd, g):
            x["live"] = False
            return True
        return False

    def delG(self, sd, g, via=None):
        self.emit("del%s %d%s" % (sd, g, "" if via is None else " %d" % via))
        x = self.groups(sd)[g]
        p = x["p"] if via is None else via
        if x["live"] and p == x["p"] and self.plive(p) and not self.group_has_eps(sd, g):
            x["live"] = False
            return True
        return False

    def delT(self, t, via=None):
        self.emit("delT %d%s" % (t, "" if via is None else " %d" % via))
        x = self.topics[t]
        p = x["p"] if via is None else via
        if p == x["p"] and self.name_exists(p, x["name"]) and not self.name_in_use(p, x["name"]):
            self.names[(p, x["name"])] = False
            for y in self.topics:
                if y["p"] == p and y["name"] == x["name"]:
                    y["live"] = False
            return True
        return False

    def delCFT(self, c, via=None):
        self.emit("delCFT %d%s" % (c, "" if via is None else " %d" % via))
        x = self.cfts[c]
        cands = [y for y in self.cfts if y["live"] and y["p"] == x["p"] and y["name"] == x["name"]]
        used = any(e["live"] and e["p"] == x["p"] and e.get("cft") == x["name"] for e in self.rs)
        if self.plive(x["p"]) and cands and not used:
            cands[0]["live"] = False     # the first entry of that name goes
            return True
        return False

    def delall(self, p):
        self.emit("delall %d" % p)
        if self.plive(p):
            for x in self.pubs + self.subs + self.ws + self.rs + self.topics + self.cfts:
                if x["p"] == p:
                    x["live"] = False
            for k in list(self.names):
                if k[0] == p:
                    self.names[k] = False

    def delP(self, p):
        self.emit("delP %d" % p)
        if self.plive(p) and self.part_empty(p):
            self.parts[p]["live"] = False
            return True
        return False
