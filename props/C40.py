"""C40 — #[derive(DdsType)] describes and converts types faithfully.

GENERATOR approach: this module pretty-prints N random type declarations (within the
documented attribute language of dds/README.md) into ONE Rust program under
/verif/.cache/c40gen, builds it against /repo's current tree, runs it, and compares
the printed `<T as Type>::TYPE` descriptors and the create_dynamic_sample /
create_sample results with the Coq model (Lang/DeriveModel.v) inside Coq."""
import json
import os
import random
import shutil
import sys
import time

sys.path.insert(0, os.path.dirname(os.path.dirname(os.path.abspath(__file__))))
from vlib import core  # noqa: E402
from vlib.core import cz  # noqa: E402

PID = "C40"
PROPS_FILE = "Props/C40.v"
CORR = "Lang.DeriveCorr"
CORR_MODULES = ["Lang.DeriveCorr"]
PREFIX = "C40"
CASE_TYPE = "C40_case"
HARNESS = "c40"
# fixed and gone: class 1 (explicit id ignored outside Mutable, 7ee9e78), 2 (hashid not masked, 470723e),
# 6 (non_serialized member published, 0840b55), 7 (Vec<i8> as sequence<uint8>, 7de5ab3); numbers stay stable
KNOWN = {3: "C40-duplicate-member-ids", 4: "C40-enum-literals-not-published", 5: "C40-union-default-arm-order"}
RULE = ("a case is one generated type declaration (struct / tuple struct / enum / union with the documented "
        "#[dust_dds(...)] attributes, nested up to three levels) together with the descriptor printed from the real "
        "<T as Type>::TYPE and 3-6 values sent through the real create_dynamic_sample and create_sample; all "
        "declarations of a run are compiled as one generated Rust program against /repo; distinct = distinct "
        "declaration text; non-trivial = the declaration has at least two members/variants and at least one value "
        "came back from create_sample")
TRUSTED = ["theories/Lang/DeriveModel.v is a hand transcription of dds_derive/src/derive/{attributes,type_support,"
           "enum_support}.rs and of the Type / DataStorageMapping impls in dds/src/xtypes/{type_support,data_storage,"
           "dynamic_type}.rs",
           "the pretty-printer of declarations and the canonical printers (trait Canon, dump, desc) inside the "
           "generated program (props/C40.py)",
           "theories/KeyHash/Md5Model.v (MD5, checked against RFC 1321 vectors and, here, against the md5 crate "
           "through every hashid member)"]
ASSUMPTIONS = ["PARTIAL: rustc, syn parsing and macro hygiene are exercised only through the generated programs, "
               "they are not modelled",
               "user types implement Default as #[derive(Default)] (structs) / first variant (enums, unions); "
               "float values are not NaN and not -0.0 (Rust == is not the identity there)",
               "explicit ids, enum discriminants and union labels are integer literals; generics, base_type, "
               "external are outside the modelled language; a declaration is the union of the items of all its "
               "#[dust_dds(..)] attributes (every one is read since fix 99bf327; the generator splits them at random)"]

GEN_DIR = os.path.join(core.CACHE, "c40gen")
# corpus declarations always printed with several #[dust_dds(..)] attributes per item (regression for 99bf327:
# `#[dust_dds(key)] #[dust_dds(id = 1)] id`, `#[dust_dds(extensibility = "appendable")] #[dust_dds(name = ..)] struct`)
SPLIT_SEEDS = {"Profile": 7 + 11, "Point": 7, "Shape": 14 + 11, "TrafficLight": 7, "Reset": 7 + 22, "Collide": 14,
               "MultiAttr": 100, "MultiAttrE": 7}

# ------------------------------------------------------------------------------------------------
# declarations (Python side): types are tuples
#   ("prim", name) ("string",) ("vec", T) ("arr", T, n) ("opt", T) ("named", decl)
# decl: dict(kind="struct"|"enum"|"union", ...)

PRIMS = ["bool", "i8", "u8", "i16", "u16", "i32", "u32", "i64", "u64", "f32", "f64", "char"]
COQ_PRIM = {"bool": "PBool", "i8": "PI8", "u8": "PU8", "i16": "PI16", "u16": "PU16", "i32": "PI32", "u32": "PU32",
            "i64": "PI64", "u64": "PU64", "f32": "PF32", "f64": "PF64", "char": "PChar"}
INT_RANGE = {"i8": (-128, 127), "u8": (0, 255), "i16": (-2**15, 2**15 - 1), "u16": (0, 2**16 - 1),
             "i32": (-2**31, 2**31 - 1), "u32": (0, 2**32 - 1), "i64": (-2**63, 2**63 - 1), "u64": (0, 2**64 - 1)}
F32_BITS = [0, 0x3f800000, 0xbfc00000, 0x40200000, 0x7f7fffff, 0x00000001, 0x7f800000, 0xff800000, 0x42f6e979]
F64_BITS = [0, 0x3ff0000000000000, 0xbff8000000000000, 0x4004000000000000, 0x7fefffffffffffff, 1,
            0x7ff0000000000000, 0xfff0000000000000, 0x405ec00000000000]
CHARS = [0, 65, 97, 122, 48, 32, 10, 127, 233, 0x20ac, 0x1f600, 0xd7ff, 0xe000, 0x10ffff, 34, 92]
WORDS = ["a", "b", "c", "x", "y", "z", "id", "value", "color", "name", "data", "count", "flag", "pos", "len",
         "kind", "msg", "seq", "key_", "inner", "opt", "level", "shapesize", "member_with_a_long_name"]
VWORDS = ["A", "B", "C", "Red", "Green", "Blue", "Circle", "Square", "Unknown", "First", "Second", "Other", "Val",
          "Empty", "Left", "Right"]
STRS = ["", "a", "hello", "Hello, World!", "x y z", "été", "tab\there", "quote\"back\\slash", "0123456789" * 3]
EXT = ["final", "appendable", "mutable"]
COQ_EXT = {"final": "Final", "appendable": "Appendable", "mutable": "Mutable"}
TC = {"USE_DEFAULT": "TcUseDefault", "DISCARD": "TcDiscard", "TRIM": "TcTrim"}


def cstr(s):
    return '"%s"%%string' % s


def cb(b):
    return "true" if b else "false"


def copt(x, f=lambda v: v):
    return "None" if x is None else "(Some %s)" % f(x)


def is_complex(t):
    return t[0] == "named"


# ---- sizes / depth -------------------------------------------------------------------------------

def t_depth(t):
    if t[0] in ("vec", "arr", "opt"):
        return t_depth(t[1])
    if t[0] == "named":
        return t[1]["depth"]
    return 0


def t_size(t):
    if t[0] in ("vec", "arr", "opt"):
        return 1 + t_size(t[1])
    if t[0] == "named":
        return t[1]["size"]
    return 1


# ---- Rust type text --------------------------------------------------------------------------------

def rust_ty(t):
    k = t[0]
    if k == "prim":
        return t[1]
    if k == "string":
        return "String"
    if k == "vec":
        return "Vec<%s>" % rust_ty(t[1])
    if k == "arr":
        return "[%s; %d]" % (rust_ty(t[1]), t[2])
    if k == "opt":
        return "Option<%s>" % rust_ty(t[1])
    return t[1]["rname"]


# ---- Coq declaration terms ---------------------------------------------------------------------------

def coq_ty(t):
    k = t[0]
    if k == "prim":
        return "(TPrim %s)" % COQ_PRIM[t[1]]
    if k == "string":
        return "TString"
    if k == "vec":
        return "(TVec %s)" % coq_ty(t[1])
    if k == "arr":
        return "(TArr %s %d)" % (coq_ty(t[1]), t[2])
    if k == "opt":
        return "(TOpt %s)" % coq_ty(t[1])
    return coq_decl(t[1])


def coq_decl(d):
    if "coq" in d:
        return d["coq"]
    if d["kind"] == "struct":
        ms = []
        for m in d["members"]:
            ms.append("(mkM %s %s %s %s %s %s %s %s, %s)" % (
                cstr(m["name"]), copt(m["id"], cz), cb(m["key"]), cb(m["optional"]), cb(m["ns"]), cb(m["hashid"]),
                copt(m["default"], lambda v: coq_val(m["ty"], v)), copt(m["tc"], lambda x: TC[x]), coq_ty(m["ty"])))
        r = "(TStruct (mkS %s %s %s %s %s) [%s])" % (
            cstr(d["rname"]), copt(d["cname"], cstr), COQ_EXT[d["ext"]], cb(d["nested"]), cb(d["tuple"]), "; ".join(ms))
    elif d["kind"] == "enum":
        vs = ["(%s, %s)" % (cstr(n), copt(x, cz)) for n, x in d["variants"]]
        r = "(TEnum (mkE %s %s %s %s [%s]))" % (
            cstr(d["rname"]), copt(d["cname"], cstr), cb(d["nested"]), {8: "B8", 16: "B16", 32: "B32"}[d["bits"]],
            "; ".join(vs))
    else:
        vs = []
        for v in d["variants"]:
            vs.append("(mkV %s [%s] %s %s, %s)" % (
                cstr(v["name"]), "; ".join(cz(c) for c in v["cases"]), cb(v["default"]), copt(v["field"], cstr),
                copt(v["ty"], coq_ty)))
        r = "(TUnion (mkU %s %s %s %s %s %s) [%s])" % (
            cstr(d["rname"]), copt(d["cname"], cstr), COQ_EXT[d["ext"]], cb(d["nested"]), cb(d["dkey"]),
            COQ_PRIM[d["disc"]], "; ".join(vs))
    d["coq"] = r
    return r


# ---- values: Python representation mirrors the Coq one -----------------------------------------------
#   ("p", int) ("s", str) ("l", [v]) ("o", v|None) ("r", [v]) ("e", i) ("u", i, v|None)

def coq_val(t, v):
    k = v[0]
    if k == "p":
        return "(VPrim %s)" % cz(v[1])
    if k == "s":
        return "(VStr [%s])" % "; ".join(str(ord(c)) for c in v[1])
    if k == "l":
        return "(VList [%s])" % "; ".join(coq_val(t[1], x) for x in v[1])
    if k == "o":
        return "(VOpt None)" if v[1] is None else "(VOpt (Some %s))" % coq_val(t[1], v[1])
    if k == "r":
        d = t[1]
        return "(VStruct [%s])" % "; ".join(coq_val(m["ty"], x) for m, x in zip(d["members"], v[1]))
    if k == "e":
        return "(VEnum %d)" % v[1]
    d = t[1]
    if v[2] is None:
        return "(VUnion %d None)" % v[1]
    return "(VUnion %d (Some %s))" % (v[1], coq_val(d["variants"][v[1]]["ty"], v[2]))


def rust_str(s):
    out = []
    for c in s:
        o = ord(c)
        if c in '"\\':
            out.append("\\" + c)
        elif 32 <= o < 127:
            out.append(c)
        else:
            out.append("\\u{%x}" % o)
    return '"%s"' % "".join(out)


def rust_val(t, v):
    k = t[0]
    if k == "prim":
        p, z = t[1], v[1]
        if p == "bool":
            return "true" if z else "false"
        if p == "f32":
            return "f32::from_bits(%du32)" % z
        if p == "f64":
            return "f64::from_bits(%du64)" % z
        if p == "char":
            return "char::from_u32(%du32).unwrap()" % z
        return "(%d%s)" % (z, p) if z < 0 else "%d%s" % (z, p)
    if k == "string":
        return "String::from(%s)" % rust_str(v[1])
    if k == "vec":
        return "vec![%s]" % ", ".join(rust_val(t[1], x) for x in v[1])
    if k == "arr":
        return "[%s]" % ", ".join(rust_val(t[1], x) for x in v[1])
    if k == "opt":
        return "None" if v[1] is None else "Some(%s)" % rust_val(t[1], v[1])
    d = t[1]
    if d["kind"] == "struct":
        fs = [rust_val(m["ty"], x) for m, x in zip(d["members"], v[1])]
        if d["tuple"]:
            return "%s(%s)" % (d["rname"], ", ".join(fs))
        return "%s { %s }" % (d["rname"], ", ".join("%s: %s" % (m["name"], f) for m, f in zip(d["members"], fs)))
    if d["kind"] == "enum":
        return "%s::%s" % (d["rname"], d["variants"][v[1]][0])
    var = d["variants"][v[1]]
    if var["ty"] is None:
        return "%s::%s" % (d["rname"], var["name"])
    inner = rust_val(var["ty"], v[2])
    if var["field"] is None:
        return "%s::%s(%s)" % (d["rname"], var["name"], inner)
    return "%s::%s { %s: %s }" % (d["rname"], var["name"], var["field"], inner)


# ---- Default::default of a type, as the model's dflt -------------------------------------------------

def dflt(t):
    k = t[0]
    if k == "prim":
        return ("p", 0)
    if k == "string":
        return ("s", "")
    if k == "vec":
        return ("l", [])
    if k == "arr":
        return ("l", [dflt(t[1]) for _ in range(t[2])])
    if k == "opt":
        return ("o", None)
    d = t[1]
    if d["kind"] == "struct":
        return ("r", [dflt(m["ty"]) for m in d["members"]])
    if d["kind"] == "enum":
        return ("e", 0)
    v0 = d["variants"][0]
    return ("u", 0, None if v0["ty"] is None else dflt(v0["ty"]))


# ---- random values -------------------------------------------------------------------------------------

def rand_prim(r, p):
    if p == "bool":
        return r.randint(0, 1)
    if p == "f32":
        return r.choice(F32_BITS)
    if p == "f64":
        return r.choice(F64_BITS)
    if p == "char":
        return r.choice(CHARS)
    lo, hi = INT_RANGE[p]
    c = r.random()
    if c < 0.3:
        return r.choice([lo, hi, 0, 1, hi - 1, lo + 1 if lo < 0 else 2])
    if c < 0.7:
        return r.randint(max(lo, -5), min(hi, 20))
    return r.randint(lo, hi)


def rand_val(r, t, none_ok=True, zero=False):
    """zero: prefer default-like values (exercises the skip of optional members)"""
    k = t[0]
    if k == "prim":
        return ("p", 0 if zero and r.random() < 0.8 else rand_prim(r, t[1]))
    if k == "string":
        return ("s", "" if zero and r.random() < 0.8 else r.choice(STRS))
    if k == "vec":
        n = 0 if zero and r.random() < 0.8 else r.choice([0, 1, 2, 3, 5])
        return ("l", [rand_val(r, t[1], none_ok, zero) for _ in range(n)])
    if k == "arr":
        return ("l", [rand_val(r, t[1], none_ok, zero) for _ in range(t[2])])
    if k == "opt":
        if none_ok and r.random() < (0.8 if zero else 0.3):
            return ("o", None)
        return ("o", rand_val(r, t[1], False, zero))
    d = t[1]
    if d["kind"] == "struct":
        fs = []
        for m in d["members"]:
            # a None is only harmless where the member is skipped: optional without default_value
            ok = ((m["optional"] or (d["tuple"] and d["ext"] == "mutable")) and m["default"] is None) or m["ns"]
            if m["default"] is not None and r.random() < 0.3:
                fs.append(m["default"])
            else:
                fs.append(rand_val(r, m["ty"], ok or (none_ok and r.random() < 0.03), zero))
        return ("r", fs)
    if d["kind"] == "enum":
        return ("e", 0 if zero and r.random() < 0.5 else r.randrange(len(d["variants"])))
    i = 0 if zero and r.random() < 0.5 else r.randrange(len(d["variants"]))
    var = d["variants"][i]
    return ("u", i, None if var["ty"] is None else rand_val(r, var["ty"], False, zero))


# ---- random declarations -----------------------------------------------------------------------------------

def rand_elem(r, pool):
    """element type of Vec / array: primitive, String or a declared type"""
    c = r.random()
    if c < 0.6 or not pool:
        return ("prim", r.choice(PRIMS))
    if c < 0.75:
        return ("string",)
    return ("named", r.choice(pool))


def rand_ty(r, pool, allow_opt=True):
    c = r.random()
    if c < 0.40:
        return ("prim", r.choice(PRIMS))
    if c < 0.50:
        return ("string",)
    if c < 0.62:
        return ("vec", rand_elem(r, pool))
    if c < 0.72:
        return ("arr", rand_elem(r, pool), r.choice([0, 1, 2, 3, 4]))
    if c < 0.90 and pool:
        return ("named", r.choice(pool))
    if allow_opt and c >= 0.90:
        return ("opt", rand_ty(r, pool, r.random() < 0.2))
    return ("prim", r.choice(PRIMS))


def uniq_names(r, n, words):
    out = []
    while len(out) < n:
        w = r.choice(words)
        if w in out:
            w = "%s%d" % (w, len(out))
        if w not in out:
            out.append(w)
    return out


def simple_default(r, t):
    """a default_value expression for simple member types (None if not offered)"""
    if t[0] == "prim":
        return ("p", rand_prim(r, t[1]))
    if t[0] == "string":
        return ("s", r.choice(STRS[:5]))
    if t[0] == "opt" and t[1][0] in ("prim", "string"):
        return ("o", simple_default(r, t[1])) if r.random() < 0.7 else ("o", None)
    return None


def gen_struct(r, idx, pool, weird):
    ext = r.choice(["final", "final", "appendable", "mutable", "mutable"])
    tuple_ = r.random() < 0.25
    n = r.choice([0, 1, 1, 2, 2, 3, 3, 4, 5, 6])
    names = uniq_names(r, n, WORDS)
    use_ids = r.random() < (0.5 if ext == "mutable" else 0.3)     # explicit ids count in every extensibility kind
    messy_ids = use_ids and weird and r.random() < 0.5
    # explicit ids in arbitrary (also descending) order, far enough apart that the automatic members that
    # follow each of them ("previous id + 1") stay distinct: the counter is reset several times per struct
    # (Final/Appendable: the automatic ids are the member indices 0..5, the bases stay clear of them)
    scrambled = use_ids and not messy_ids and (ext != "mutable" or r.random() < 0.7)
    if scrambled:
        n = r.choice([3, 4, 5, 6, 6])
    bases = [b * r.choice([50, 50, 1000]) for b in r.sample(range(1, 40), n)]
    names = uniq_names(r, n, WORDS)
    members = []
    last = -1
    for i in range(n):
        m = dict(name=names[i], id=None, key=False, optional=False, ns=False, hashid=False, default=None, tc=None)
        opt = r.random() < 0.22
        if opt:
            m["optional"] = True
            inner = rand_ty(r, pool, False)
            m["ty"] = ("opt", inner) if r.random() < 0.75 else inner
        else:
            m["ty"] = rand_ty(r, pool, allow_opt=r.random() < 0.4)
        if r.random() < 0.15:
            m["key"] = True
        if r.random() < 0.08:
            m["hashid"] = True
        if use_ids and r.random() < 0.6:
            if messy_ids:
                m["id"] = r.randint(0, 6)
            elif scrambled:
                m["id"] = bases[i]
            else:
                last = last + r.choice([1, 1, 2, 5, 10, 1000, 2**20])
                m["id"] = last
        if m["id"] is None and not m["hashid"]:
            last = last + 1
        elif m["id"] is not None and not m["hashid"]:
            last = m["id"]
        if weird and r.random() < 0.25 or r.random() < 0.04:
            m["ns"] = True
        if r.random() < 0.15:
            m["default"] = simple_default(r, m["ty"])
        if r.random() < 0.12:
            m["tc"] = r.choice(list(TC))
        members.append(m)
    return dict(kind="struct", rname="S%d" % idx, cname=("pkg::Type%d" % idx) if r.random() < 0.15 else None,
                ext=ext, nested=r.random() < 0.3, tuple=tuple_, members=members)


def gen_enum(r, idx):
    bits = r.choice([8, 16, 32, 32])
    hi = {8: 127, 16: 32767, 32: 2**31 - 1}[bits]
    n = r.choice([1, 2, 3, 3, 4, 6])
    names = uniq_names(r, n, VWORDS)
    vs = []
    cur = -1
    for i in range(n):
        if r.random() < 0.35 and cur + 2 < hi - 8:
            cur = cur + r.choice([1, 2, 5, 10]) if r.random() < 0.8 else r.randint(cur + 1, hi - 8)
            vs.append((names[i], cur))
        else:
            cur += 1
            vs.append((names[i], None))
    return dict(kind="enum", rname="E%d" % idx, cname=("pkg::Enum%d" % idx) if r.random() < 0.15 else None,
                nested=r.random() < 0.3, bits=bits, variants=vs)


def gen_union(r, idx, pool, weird):
    disc = r.choice(["u8", "i8", "u16", "i16", "u32", "i32", "i32", "i64", "u64"])
    lo, hi = INT_RANGE[disc]
    lo, hi = max(lo, -2**31), min(hi, 2**31 - 1)
    n = r.choice([1, 2, 3, 3, 4, 5])
    names = uniq_names(r, n, VWORDS)
    explicit = r.random() < 0.7
    has_default = r.random() < 0.4
    default_at = (r.randrange(n) if weird and r.random() < 0.5 else n - 1) if has_default else None
    used = set()
    vs = []
    for i in range(n):
        c = r.random()
        if i == 0 or c < 0.45:
            ty, field = rand_ty(r, pool, allow_opt=False), None
        elif c < 0.75:
            # not "data": the expansion binds the field name in a pattern next to its own local
            # `data` (type_support.rs:432-434), such a union does not compile (macro hygiene)
            ty, field = rand_ty(r, pool, allow_opt=False), r.choice([w for w in WORDS if w != "data"])
        else:
            ty, field = None, None
        cases = []
        if explicit and (i != default_at or r.random() < 0.3):
            for _ in range(r.choice([1, 1, 1, 2, 3])):
                while True:
                    x = r.choice([r.randint(max(lo, -3), min(hi, 12)), r.randint(lo, hi)])
                    # clean unions: labels distinct from every label and implicit label in use
                    if weird and r.random() < 0.1:
                        break
                    if x not in used and not (1 <= x <= n):
                        break
                cases.append(x)
                used.add(x)
        vs.append(dict(name=names[i], cases=cases, default=(i == default_at), field=field, ty=ty))
    return dict(kind="union", rname="U%d" % idx, cname=("pkg::Union%d" % idx) if r.random() < 0.15 else None,
                ext=r.choice(EXT), nested=r.random() < 0.3, dkey=r.random() < 0.2, disc=disc, variants=vs)


def finish_decl(d):
    if d["kind"] == "struct":
        ts = [m["ty"] for m in d["members"]]
    elif d["kind"] == "union":
        ts = [v["ty"] for v in d["variants"] if v["ty"] is not None]
    else:
        ts = []
    d["depth"] = 1 + max([t_depth(t) for t in ts] + [0])
    d["size"] = 2 + sum(t_size(t) for t in ts) + (len(d["variants"]) if d["kind"] == "enum" else 0)
    return d


def gen_decls(r, n, first_idx=0):
    decls = []
    for i in range(n):
        idx = first_idx + i
        pool = [d for d in decls if d["depth"] <= 2 and d["size"] <= 40]
        weird = r.random() < 0.2
        c = r.random()
        if c < 0.55:
            d = gen_struct(r, idx, pool, weird)
        elif c < 0.70:
            d = gen_enum(r, idx)
        else:
            d = gen_union(r, idx, pool, weird)
        decls.append(finish_decl(d))
    return decls


def gen_values(r, d, tier):
    t = ("named", d)
    vals = [dflt(t), rand_val(r, t, zero=True)]
    if d["kind"] == "enum":
        return [(("e", i), 0, 0) for i in range(len(d["variants"]))][:6] + [(("e", 0), r.choice([1, 2]), 0)]
    elif d["kind"] == "union":
        for i, var in enumerate(d["variants"][:5]):
            vals.append(("u", i, None if var["ty"] is None else rand_val(r, var["ty"], False)))
    n = 4 if tier == "quick" else 6
    while len(vals) < n:
        vals.append(rand_val(r, t))
    return with_damage(r, vals)


def with_damage(r, vals):
    """every value once as a plain round trip; some again with one stored member removed /
    replaced by a foreign storage before create_sample (ties the missing-member, default_value
    and try_construct branches of the model to the code)"""
    out = [(v, 0, 0) for v in vals]
    for v in vals[1:]:
        if r.random() < 0.7:
            out.append((v, r.choice([1, 1, 2]), r.randrange(8)))
    return out


# ---- the hand-written corpus: README examples and minimised regression declarations ----------------------

def corpus_decls():
    def m(name, ty, **kw):
        b = dict(name=name, id=None, key=False, optional=False, ns=False, hashid=False, default=None, tc=None, ty=ty)
        b.update(kw)
        return b
    P = lambda p: ("prim", p)
    out = []
    # README "Mutable Struct with Custom Member IDs and Defaults"
    out.append(dict(kind="struct", rname="Profile", cname=None, ext="mutable", nested=False, tuple=False, members=[
        m("id", P("u32"), id=1, key=True), m("username", ("string",), id=2),
        m("email", ("opt", ("string",)), id=10, optional=True),
        m("age", P("u32"), id=11, default=("p", 18)), m("session_count", P("u32"), ns=True)]))
    # README enum with bit bound
    out.append(dict(kind="enum", rname="TrafficLight", cname=None, nested=False, bits=16,
                    variants=[("Red", 1), ("Yellow", 2), ("Green", 3)]))
    # README union
    out.append(dict(kind="union", rname="Shape", cname=None, ext="final", nested=False, dkey=False, disc="i32", variants=[
        dict(name="Circle", cases=[1], default=False, field=None, ty=P("f64")),
        dict(name="Square", cases=[2], default=False, field="side", ty=P("f64")),
        dict(name="Unknown", cases=[], default=True, field=None, ty=None)]))
    # README appendable nested struct with a custom name
    out.append(dict(kind="struct", rname="Point", cname="CustomPoint", ext="appendable", nested=True, tuple=False,
                    members=[m("x", P("f64")), m("y", P("f64"))]))
    # class 3: duplicate member ids (explicit id equal to an automatic one; automatic after explicit)
    out.append(dict(kind="struct", rname="Clash", cname=None, ext="mutable", nested=False, tuple=False,
                    members=[m("a", P("i32")), m("b", P("i32"), id=0, optional=True)]))
    out.append(dict(kind="struct", rname="Clash2", cname=None, ext="mutable", nested=False, tuple=False,
                    members=[m("a", P("i32"), id=5), m("b", P("i64")), m("c", P("i32"), id=6)]))
    # class 5: default variant first
    out.append(dict(kind="union", rname="DefFirst", cname=None, ext="final", nested=False, dkey=False, disc="i32", variants=[
        dict(name="A", cases=[], default=True, field=None, ty=P("i32")),
        dict(name="B", cases=[5], default=False, field=None, ty=P("i64"))]))
    # class 5: an implicit label (index + 1) collides with an explicit one; named field -> expect() panics
    out.append(dict(kind="union", rname="Collide", cname=None, ext="final", nested=False, dkey=True, disc="u8", variants=[
        dict(name="A", cases=[], default=False, field=None, ty=P("i32")),
        dict(name="B", cases=[1], default=False, field="x", ty=P("i64"))]))
    # several #[dust_dds(..)] attributes on a union, an enum and on variants (the case labels accumulate in order)
    out.append(dict(kind="union", rname="MultiAttr", cname="pkg::MultiAttr", ext="mutable", nested=True, dkey=True,
                    disc="i16", variants=[
        dict(name="A", cases=[7], default=False, field=None, ty=P("u8")),
        dict(name="B", cases=[3, -4, 9], default=False, field="x", ty=("string",)),
        dict(name="C", cases=[11, 12], default=True, field=None, ty=None)]))
    out.append(dict(kind="enum", rname="MultiAttrE", cname="pkg::E", nested=True, bits=8,
                    variants=[("X", None), ("Y", 5), ("Z", None)]))
    # regression for the fixed classes 1 and 6: explicit id on a final struct, hashid, non_serialized (0840b55)
    out.append(dict(kind="struct", rname="FinalIds", cname=None, ext="final", nested=False, tuple=False,
                    members=[m("a", P("i32"), id=7), m("color", P("u8"), hashid=True), m("c", P("i16"), ns=True)]))
    # regressions for the fixed classes 1 (explicit id honoured outside Mutable, 7ee9e78: ids 7,1,9) and
    # 2 (hashid masked to 28 bits, 470723e)
    out.append(dict(kind="struct", rname="ApIds", cname=None, ext="appendable", nested=False, tuple=False,
                    members=[m("a", P("i32"), id=7), m("b", P("u8")), m("c", P("i64"), id=9, key=True)]))
    out.append(dict(kind="struct", rname="Hashed", cname=None, ext="mutable", nested=False, tuple=False,
                    members=[m("color", P("i32"), hashid=True), m("x", P("i32")), m("shapesize", P("i32"), hashid=True)]))
    # class 3 in a final struct: the explicit id of `a` collides with the index of `b` (ids 1,1)
    out.append(dict(kind="struct", rname="FinalClash", cname=None, ext="final", nested=False, tuple=False,
                    members=[m("a", P("i32"), id=1), m("b", P("i32")), m("c", P("u8"), ns=True)]))
    # non_serialized members of a final / appendable struct, also first and last, also in a tuple struct
    out.append(dict(kind="struct", rname="NsFinal", cname=None, ext="final", nested=False, tuple=False,
                    members=[m("s0", P("i64"), ns=True), m("a", P("i32"), key=True), m("s1", ("string",), ns=True, default=("s", "x")),
                             m("b", ("vec", P("u16"))), m("s2", ("opt", P("u8")), ns=True)]))
    # the failing declaration of the fixed class 6: must be accepted by the serializers (oracle: ser_judged)
    out.append(dict(kind="struct", rname="Ns", cname=None, ext="final", nested=False, tuple=False,
                    members=[m("a", P("i32")), m("b", P("i32"), ns=True), m("c", P("i64")),
                             m("s", ("string",), ns=True), m("d", ("string",))]))
    out.append(dict(kind="struct", rname="NsTup", cname=None, ext="appendable", nested=False, tuple=True,
                    members=[m("f0", P("i32")), m("f1", P("f64"), ns=True), m("f2", P("bool"), id=40), m("f3", P("u8"))]))
    # the automatic counter is RESET by a lower explicit id ("previous member's id + 1"): 10,11,5,6,7
    out.append(dict(kind="struct", rname="Reset", cname=None, ext="mutable", nested=False, tuple=False,
                    members=[m("a", P("i32"), id=10), m("b", P("i64")), m("c", P("i32"), id=5, key=True),
                             m("d", P("i64")), m("e", ("string",))]))
    # several resets, a hashed member in between does not move the counter: 100,101,#,102,20,21,3,4,50,51
    out.append(dict(kind="struct", rname="Resets", cname=None, ext="mutable", nested=False, tuple=False,
                    members=[m("a", P("u8"), id=100), m("b", P("u8")), m("h", P("u16"), hashid=True), m("c", P("u8")),
                             m("d", P("i16"), id=20), m("e", ("opt", P("i16")), optional=True), m("f", P("u32"), id=3),
                             m("g", P("u32")), m("i", ("vec", P("u8")), id=50), m("j", P("bool"))]))
    # the same in a tuple struct (every field is treated as optional there)
    out.append(dict(kind="struct", rname="ResetTup", cname=None, ext="mutable", nested=False, tuple=True,
                    members=[m("f0", P("i32"), id=7), m("f1", P("i32")), m("f2", P("i32"), id=2), m("f3", P("i32"))]))
    # regression for the fixed class 7 (Vec<i8> is a sequence of int8, 7de5ab3)
    out.append(dict(kind="struct", rname="Bytes", cname=None, ext="final", nested=False, tuple=False,
                    members=[m("a", ("vec", P("i8"))), m("b", ("vec", P("u8"))), m("c", ("arr", P("i8"), 2))]))
    # tuple struct, mutable: every field is treated as optional; hashid of the name "1"
    out.append(dict(kind="struct", rname="Tup", cname=None, ext="mutable", nested=False, tuple=True,
                    members=[m("f0", P("i32")), m("f1", ("string",), hashid=True), m("f2", ("arr", P("u8"), 3)),
                             m("f3", ("vec", P("i8"))), m("f4", ("opt", P("u16")))]))
    # Option member without `optional`, optional with a non-None default_value, try_construct
    out.append(dict(kind="struct", rname="Opts", cname=None, ext="appendable", nested=False, tuple=False,
                    members=[m("a", ("opt", P("i32"))), m("b", ("opt", P("i32")), optional=True, default=("o", ("p", 3))),
                             m("c", P("u8"), tc="USE_DEFAULT", default=("p", 9)), m("d", P("bool"), optional=True)]))
    for d in out:
        finish_decl(d)
    # nesting: struct of (struct, enum, union, Vec<struct>, [enum; 2], Option<union>)
    prof, tl, shape = out[0], out[1], out[2]
    out.append(finish_decl(dict(kind="struct", rname="Outer", cname=None, ext="final", nested=False, tuple=False, members=[
        m("p", ("named", prof), key=True), m("l", ("named", tl)), m("s", ("named", shape)),
        m("ps", ("vec", ("named", out[3]))), m("ls", ("arr", ("named", tl), 2)),
        m("os", ("opt", ("named", shape)), optional=True)])))
    return out


def corpus_values(d):
    t = ("named", d)
    r = random.Random("corpus-" + d["rname"])
    vals = [dflt(t)]
    if d["kind"] == "enum":
        return [(("e", i), 0, 0) for i in range(len(d["variants"]))] + [(("e", 0), 1, 0), (("e", 0), 2, 0)]
    if d["kind"] == "union":
        for i, var in enumerate(d["variants"]):
            vals.append(("u", i, None if var["ty"] is None else rand_val(r, var["ty"], False)))
    for _ in range(3):
        vals.append(rand_val(r, t))
    if d["rname"] == "Opts":
        vals.append(("r", [("o", None), ("o", ("p", 3)), ("p", 1), ("p", 0)]))      # bare None: documented panic
        vals.append(("r", [("o", ("p", 1)), ("o", None), ("p", 1), ("p", 1)]))      # None != Some(3): panic
    out = [(v, 0, 0) for v in vals]
    for v in vals[1:]:
        for pos in range(3):
            out.append((v, 1 + (pos + len(out)) % 2, pos))
    return out


# ---- Rust program ---------------------------------------------------------------------------------------------

PRELUDE = r'''// GENERATED by /verif/props/C40.py — do not edit
#![allow(warnings)]
use dust_dds::infrastructure::type_support::DdsType;
use dust_dds::xtypes::data_storage::DataStorage;
use dust_dds::xtypes::dynamic_type::{DynamicData, DynamicType, ExtensibilityKind, TryConstructKind};
use dust_dds::xtypes::type_support::{Type, TypeSupport};
use std::panic::{catch_unwind, AssertUnwindSafe};

fn z(v: i128) -> String { if v < 0 { format!("({})", v) } else { format!("{}", v) } }
fn zl<T: Copy + Into<i128>>(v: &[T]) -> String {
    let p: Vec<String> = v.iter().map(|x| z((*x).into())).collect();
    format!("[{}]", p.join("; "))
}
fn chars(s: &str) -> String {
    let p: Vec<String> = s.chars().map(|c| (c as u32).to_string()).collect();
    format!("[{}]", p.join("; "))
}

fn sig(t: &DynamicType<'static>) -> String {
    let d = t.descriptor;
    let b: Vec<String> = d.bound.iter().map(|x| x.to_string()).collect();
    let e = match &d.element_type { Some(e) => format!("(Some {})", sig(e)), None => "None".to_string() };
    format!("(Sig {} \"{}\"%string [{}] {})", d.kind as u8, d.name, b.join("; "), e)
}
fn ext(e: ExtensibilityKind) -> &'static str {
    match e { ExtensibilityKind::Final => "Final", ExtensibilityKind::Appendable => "Appendable", ExtensibilityKind::Mutable => "Mutable" }
}
fn tc(e: TryConstructKind) -> &'static str {
    match e { TryConstructKind::UseDefault => "TcUseDefault", TryConstructKind::Discard => "TcDiscard", TryConstructKind::Trim => "TcTrim" }
}
// (fields the model does not carry have their fixed values?, descriptor as a Coq term)
fn desc(t: DynamicType<'static>) -> (bool, String) {
    let d = t.descriptor;
    let mut other = d.base_type.is_none() && d.key_element_type.is_none() && d.element_type.is_none() && d.bound.is_empty();
    let disc = match &d.discriminator_type { Some(x) => format!("(Some {})", sig(x)), None => "None".to_string() };
    let mut ms = Vec::new();
    for i in 0..t.get_member_count() {
        let m = &t.get_member_by_index(i).unwrap().descriptor;
        other = other && m.default_value.is_none() && !m.is_shared && !m.is_external;
        let l: Vec<i32> = m.label.to_vec();
        ms.push(format!("mkMD \"{}\"%string {} {} {} {} {} {} {} {} {}", m.name, m.id, m.index, sig(&m.r#type),
            m.is_key, m.is_optional, m.is_must_understand, zl(&l), m.is_default_label, tc(m.try_construct_kind)));
    }
    (other, format!("(mkTD {} \"{}\"%string {} {} {} [{}])", d.kind as u8, d.name, ext(d.extensibility_kind), d.is_nested, disc, ms.join("; ")))
}

fn dump_st(s: &DataStorage) -> String {
    match s {
        DataStorage::UInt8(x) => format!("(SPrim PU8 {})", x),
        DataStorage::Int8(x) => format!("(SPrim PI8 {})", z(*x as i128)),
        DataStorage::UInt16(x) => format!("(SPrim PU16 {})", x),
        DataStorage::Int16(x) => format!("(SPrim PI16 {})", z(*x as i128)),
        DataStorage::Int32(x) => format!("(SPrim PI32 {})", z(*x as i128)),
        DataStorage::UInt32(x) => format!("(SPrim PU32 {})", x),
        DataStorage::Int64(x) => format!("(SPrim PI64 {})", z(*x as i128)),
        DataStorage::UInt64(x) => format!("(SPrim PU64 {})", x),
        DataStorage::Float32(x) => format!("(SPrim PF32 {})", x.to_bits()),
        DataStorage::Float64(x) => format!("(SPrim PF64 {})", x.to_bits()),
        DataStorage::Char8(x) => format!("(SPrim PChar {})", *x as u32),
        DataStorage::Boolean(x) => format!("(SPrim PBool {})", *x as u8),
        DataStorage::String(x) => format!("(SStr {})", chars(x)),
        DataStorage::ComplexValue(d) => format!("(SComplex {})", dump(d)),
        DataStorage::SequenceUInt8(v) => format!("(SSeqPrim PU8 {})", zl(v)),
        DataStorage::SequenceInt8(v) => format!("(SSeqPrim PI8 {})", zl(v)),
        DataStorage::SequenceUInt16(v) => format!("(SSeqPrim PU16 {})", zl(v)),
        DataStorage::SequenceInt16(v) => format!("(SSeqPrim PI16 {})", zl(v)),
        DataStorage::SequenceInt32(v) => format!("(SSeqPrim PI32 {})", zl(v)),
        DataStorage::SequenceUInt32(v) => format!("(SSeqPrim PU32 {})", zl(v)),
        DataStorage::SequenceInt64(v) => format!("(SSeqPrim PI64 {})", zl(v)),
        DataStorage::SequenceUInt64(v) => { let w: Vec<i128> = v.iter().map(|x| *x as i128).collect(); format!("(SSeqPrim PU64 {})", zl(&w)) }
        DataStorage::SequenceFloat32(v) => { let w: Vec<u32> = v.iter().map(|x| x.to_bits()).collect(); format!("(SSeqPrim PF32 {})", zl(&w)) }
        DataStorage::SequenceFloat64(v) => { let w: Vec<i128> = v.iter().map(|x| x.to_bits() as i128).collect(); format!("(SSeqPrim PF64 {})", zl(&w)) }
        DataStorage::SequenceChar8(v) => { let w: Vec<u32> = v.iter().map(|x| *x as u32).collect(); format!("(SSeqPrim PChar {})", zl(&w)) }
        DataStorage::SequenceBoolean(v) => { let w: Vec<u8> = v.iter().map(|x| *x as u8).collect(); format!("(SSeqPrim PBool {})", zl(&w)) }
        DataStorage::SequenceString(v) => { let p: Vec<String> = v.iter().map(|x| chars(x)).collect(); format!("(SSeqStr [{}])", p.join("; ")) }
        DataStorage::SequenceComplexValue(v) => { let p: Vec<String> = v.iter().map(|x| dump(x)).collect(); format!("(SSeqComplex [{}])", p.join("; ")) }
        _ => "UNSUPPORTED".to_string(),
    }
}
fn dump(d: &DynamicData<'static>) -> String {
    let mut p = Vec::new();
    for i in 0..d.get_item_count() {
        let id = d.get_member_id_at_index(i).unwrap();
        p.push(format!("({}, {})", id, dump_st(d.get_value(id).unwrap())));
    }
    format!("[{}]", p.join("; "))
}

trait Canon { fn canon(&self) -> String; }
macro_rules! canon_int { ($($t:ty),*) => { $(impl Canon for $t { fn canon(&self) -> String { format!("(VPrim {})", z(*self as i128)) } })* } }
canon_int!(i8, u8, i16, u16, i32, u32, i64, u64);
impl Canon for bool { fn canon(&self) -> String { format!("(VPrim {})", *self as u8) } }
impl Canon for char { fn canon(&self) -> String { format!("(VPrim {})", *self as u32) } }
impl Canon for f32 { fn canon(&self) -> String { format!("(VPrim {})", self.to_bits()) } }
impl Canon for f64 { fn canon(&self) -> String { format!("(VPrim {})", self.to_bits()) } }
impl Canon for String { fn canon(&self) -> String { format!("(VStr {})", chars(self)) } }
impl<T: Canon> Canon for Vec<T> {
    fn canon(&self) -> String { let p: Vec<String> = self.iter().map(|x| x.canon()).collect(); format!("(VList [{}])", p.join("; ")) }
}
impl<T: Canon, const N: usize> Canon for [T; N] {
    fn canon(&self) -> String { let p: Vec<String> = self.iter().map(|x| x.canon()).collect(); format!("(VList [{}])", p.join("; ")) }
}
impl<T: Canon> Canon for Option<T> {
    fn canon(&self) -> String { match self { None => "(VOpt None)".to_string(), Some(x) => format!("(VOpt (Some {}))", x.canon()) } }
}

fn ser_ok(d: &DynamicData<'static>) -> bool {
    use dust_dds::dcps::dcps_domain_participant::data_writer_entity::serialize;
    use dust_dds::infrastructure::qos_policy::DataRepresentationQosPolicy;
    let r = catch_unwind(AssertUnwindSafe(|| {
        serialize(d, &DataRepresentationQosPolicy { value: vec![0] }).is_ok()
            && serialize(d, &DataRepresentationQosPolicy { value: vec![2] }).is_ok()
    }));
    r.unwrap_or(false)
}

fn ty_line<T: Type>(i: usize) {
    let (other, d) = desc(T::TYPE);
    println!("T {} | {} | {}", i, other, d);
}
// mu: 0 = plain round trip; 1 = remove the (pos mod n)-th stored member before create_sample;
// 2 = replace it by a storage no type maps to
fn rt<T: TypeSupport + Clone + PartialEq + Canon>(i: usize, k: usize, v: T, mu: u8, pos: u32) {
    let cin = v.canon();
    let v2 = v.clone();
    match catch_unwind(AssertUnwindSafe(move || v2.create_dynamic_sample())) {
        Err(_) => println!("V {} {} | {} | None | (Panic 0) | (Panic 0) | - | false", i, k, cin),
        Ok(mut d) => {
            let du = dump(&d);
            let s = ser_ok(&d);
            let mut m = "None".to_string();
            if mu != 0 && d.get_item_count() > 0 {
                let id = d.get_member_id_at_index(pos % d.get_item_count()).unwrap();
                if mu == 1 { d.remove_value(id).unwrap(); } else { d.set_value(id, DataStorage::Float128(0)); }
                m = format!("(Some ({}, {}))", mu == 1, id);
            }
            let (back, eq) = match catch_unwind(AssertUnwindSafe(|| T::create_sample(&mut d))) {
                Err(_) => ("(Panic 0)".to_string(), "-"),
                Ok(None) => ("(Ok None)".to_string(), "-"),
                Ok(Some(x)) => (format!("(Ok (Some {}))", x.canon()), if x == v { "E" } else { "N" }),
            };
            println!("V {} {} | {} | {} | (Ok {}) | {} | {} | {}", i, k, cin, m, du, back, eq, s);
        }
    }
}
'''


def attr(items, split=0):
    """the attributes of one item; split % 3 != 0 writes them as several #[dust_dds(..)] attributes
    (every one of them is read since fix 99bf327; the declaration is the union of their items)"""
    if not items:
        return ""
    if len(items) < 2 or split % 3 == 0:
        return "#[dust_dds(%s)]\n" % ", ".join(items)
    if split % 3 == 1:      # one attribute per item
        return "".join("#[dust_dds(%s)]\n" % x for x in items)
    k = 1 + split % (len(items) - 1)
    return "#[dust_dds(%s)]\n#[dust_dds(%s)]\n" % (", ".join(items[:k]), ", ".join(items[k:]))


def rust_decl(d):
    o = []
    rn = d["rname"]
    if d["kind"] == "struct":
        items = []
        if d["cname"] is not None:
            items.append('name = "%s"' % d["cname"])
        if d["ext"] != "final" or d["seed"] % 3 == 0:
            items.append('extensibility = "%s"' % d["ext"])
        if d["nested"]:
            items.append("nested")
        if d["seed"] % 2:
            items.reverse()
        o.append("#[derive(DdsType, Clone, PartialEq, Debug, Default)]\n" + attr(items, d["seed"] // 7))
        fields = []
        for i, m in enumerate(d["members"]):
            a = []
            if m["id"] is not None:
                a.append("id = %d" % m["id"])
            if m["key"]:
                a.append("key")
            if m["optional"]:
                a.append("optional")
            if m["ns"]:
                a.append("non_serialized")
            if m["hashid"]:
                a.append("hashid")
            if m["default"] is not None:
                a.append("default_value = %s" % rust_val(m["ty"], m["default"]))
            if m["tc"] is not None:
                a.append('try_construct = "%s"' % m["tc"])
            if (d["seed"] + i) % 2:
                a.reverse()
            at = attr(a, d["seed"] // 11 + i).replace("\n", " ")
            if d["tuple"]:
                fields.append("    %s%s," % (at, rust_ty(m["ty"])))
            else:
                fields.append("    %s%s: %s," % (at, m["name"], rust_ty(m["ty"])))
        if d["tuple"]:
            o.append("struct %s(\n%s\n);\n" % (rn, "\n".join(fields)))
        else:
            o.append("struct %s {\n%s\n}\n" % (rn, "\n".join(fields)))
        parts = []
        for i, m in enumerate(d["members"]):
            parts.append("self.%s.canon()" % (str(i) if d["tuple"] else m["name"]))
        o.append("impl Canon for %s { fn canon(&self) -> String { let p: Vec<String> = vec![%s]; "
                 "format!(\"(VStruct [{}])\", p.join(\"; \")) } }\n" % (rn, ", ".join(parts)))
    elif d["kind"] == "enum":
        items = []
        if d["cname"] is not None:
            items.append('name = "%s"' % d["cname"])
        if d["nested"]:
            items.append("nested")
        if d["bits"] != 32 or d["seed"] % 3 == 0:
            items.append('bit_bound = "%d"' % d["bits"])
        o.append("#[derive(DdsType, Clone, Copy, PartialEq, Debug)]\n" + attr(items, d["seed"] // 7))
        vs = ["    %s%s," % (n, "" if x is None else " = %d" % x) for n, x in d["variants"]]
        o.append("enum %s {\n%s\n}\n" % (rn, "\n".join(vs)))
        o.append("impl Default for %s { fn default() -> Self { %s::%s } }\n" % (rn, rn, d["variants"][0][0]))
        arms = ["%s::%s => %d" % (rn, n, i) for i, (n, _) in enumerate(d["variants"])]
        o.append("impl Canon for %s { fn canon(&self) -> String { format!(\"(VEnum {})\", match self { %s }) } }\n"
                 % (rn, ", ".join(arms)))
    else:
        items = []
        if d["cname"] is not None:
            items.append('name = "%s"' % d["cname"])
        if d["ext"] != "final" or d["seed"] % 3 == 0:
            items.append('extensibility = "%s"' % d["ext"])
        if d["nested"]:
            items.append("nested")
        items.append("switch(key, %s)" % d["disc"] if d["dkey"] else "switch(%s)" % d["disc"])
        if d["seed"] % 2:
            items.reverse()
        o.append("#[derive(DdsType, Clone, PartialEq, Debug)]\n" + attr(items, d["seed"] // 7))
        vs = []
        arms = []
        for i, v in enumerate(d["variants"]):
            a = ["case = %d" % c for c in v["cases"]]
            if v["default"]:
                a.insert((d["seed"] + i) % (len(a) + 1), "default")
            at = attr(a, d["seed"] // 11 + i).replace("\n", " ")
            if v["ty"] is None:
                vs.append("    %s%s," % (at, v["name"]))
                arms.append("%s::%s => \"(VUnion %d None)\".to_string()" % (rn, v["name"], i))
            elif v["field"] is None:
                vs.append("    %s%s(%s)," % (at, v["name"], rust_ty(v["ty"])))
                arms.append("%s::%s(x) => format!(\"(VUnion %d (Some {}))\", x.canon())" % (rn, v["name"], i))
            else:
                vs.append("    %s%s { %s: %s }," % (at, v["name"], v["field"], rust_ty(v["ty"])))
                arms.append("%s::%s { %s: x } => format!(\"(VUnion %d (Some {}))\", x.canon())"
                            % (rn, v["name"], v["field"], i))
        o.append("enum %s {\n%s\n}\n" % (rn, "\n".join(vs)))
        v0 = d["variants"][0]
        if v0["ty"] is None:
            dv = "%s::%s" % (rn, v0["name"])
        elif v0["field"] is None:
            dv = "%s::%s(Default::default())" % (rn, v0["name"])
        else:
            dv = "%s::%s { %s: Default::default() }" % (rn, v0["name"], v0["field"])
        o.append("impl Default for %s { fn default() -> Self { %s } }\n" % (rn, dv))
        o.append("impl Canon for %s { fn canon(&self) -> String { match self { %s } } }\n" % (rn, ", ".join(arms)))
    return "".join(o)


def rust_program(decls, values, only_last=False):
    o = [PRELUDE]
    for d in decls:
        o.append(rust_decl(d))
        o.append("\n")
    o.append("fn main() {\n    std::panic::set_hook(Box::new(|_| {}));\n")
    shown = list(zip(decls, values))
    if only_last:
        shown = shown[-1:]
    for i, (d, vals) in enumerate(shown):
        o.append("    ty_line::<%s>(%d);\n" % (d["rname"], i))
        for k, (v, mu, pos) in enumerate(vals):
            o.append("    rt::<%s>(%d, %d, %s, %d, %d);\n" % (d["rname"], i, k, rust_val(("named", d), v), mu, pos))
    o.append("}\n")
    return "".join(o)


CARGO_TOML = """[package]
name = "c40gen"
version = "0.1.0"
edition = "2024"

[workspace]

[dependencies]
dust_dds = { path = "%s/dds" }

[profile.dev]
debug = false
opt-level = 1

[profile.dev.package.c40gen]
opt-level = 0
incremental = false
"""


def build_and_run(ctx, programs):
    """programs: list of Rust sources -> list of stdout texts (None + error text on failure)"""
    src = os.path.join(GEN_DIR, "src", "bin")
    if os.path.isdir(os.path.join(GEN_DIR, "src")):
        shutil.rmtree(os.path.join(GEN_DIR, "src"))
    os.makedirs(src)
    with open(os.path.join(GEN_DIR, "Cargo.toml"), "w") as f:
        f.write(CARGO_TOML % core.REPO)
    shutil.copy(os.path.join(core.REPO, "Cargo.lock"), os.path.join(GEN_DIR, "Cargo.lock"))
    for i, p in enumerate(programs):
        with open(os.path.join(src, "g%d.rs" % i), "w") as f:
            f.write(p)
    env = {"RUSTFLAGS": "--cfg " + core.GUARD, "CARGO_TARGET_DIR": os.path.join(core.CACHE, "target")}
    with core.Lock("cargo"):
        rc, out = core.sh(["cargo", "build", "--offline", "--quiet", "--bins", "-j", os.environ.get("CARGO_BUILD_JOBS", "8")], cwd=GEN_DIR, timeout=3000, env=env)
    if rc != 0:
        return None, out
    outs = []
    for i in range(len(programs)):
        rc, out = core.sh([os.path.join(core.CACHE, "target", "debug", "g%d" % i)], timeout=600)
        if rc != 0:
            return None, "generated program g%d exited with %s: %s" % (i, rc, out[-2000:])
        outs.append(out)
    return outs, ""


def parse_output(text, decls, values):
    """-> per declaration: (descriptor term, other_ok, [(canon_in, dyn, back, eq, ser)])"""
    res = [[None, None, [None] * len(vs)] for vs in values]
    for line in text.splitlines():
        p = [x.strip() for x in line.split(" | ")]
        h = p[0].split()
        if h[0] == "T":
            res[int(h[1])][0] = p[2]
            res[int(h[1])][1] = p[1] == "true"
        elif h[0] == "V":
            res[int(h[1])][2][int(h[2])] = (p[1], p[3], p[4], p[5], p[6] == "true", p[2])
    return res


def case_term_of(d, vals, r):
    rts = []
    t = ("named", d)
    for (v, mu, pos), o in zip(vals, r[2]):
        rts.append("mkRT %s %s %s %s %s" % (coq_val(t, v), o[5], o[1], o[2], cb(o[4])))
    return "mkC40 %s %s [%s]" % (coq_decl(d), r[0], "; ".join(rts))


def decl_text(d):
    return rust_decl(d).split("impl ")[0].strip()


def n_items(d):
    return len(d["members"]) if d["kind"] == "struct" else len(d["variants"])


def run(ctx):
    mod = sys.modules[__name__]
    t_p = time.time()
    core.prove(ctx, mod)
    ctx.cov["prove_s"] = round(time.time() - t_p, 1)
    r = ctx.rng
    per, nprog = {"quick": (100, 1), "thorough": (120, 8)}[ctx.tier]
    programs, all_decls, all_vals = [], [], []
    for pi in range(nprog):
        decls = (corpus_decls() if pi == 0 else []) + gen_decls(r, per, first_idx=pi * 1000)
        for j, d in enumerate(decls):
            d["seed"] = r.randrange(1000)
            if d["rname"] in SPLIT_SEEDS:
                d["seed"] = SPLIT_SEEDS[d["rname"]]
        vals = [corpus_values(d) if not d["rname"][1:].isdigit() else gen_values(r, d, ctx.tier) for d in decls]
        programs.append(rust_program(decls, vals))
        all_decls.append(decls)
        all_vals.append(vals)
    t0 = time.time()
    outs, err = build_and_run(ctx, programs)
    ctx.cov["generated_program_build_s"] = round(time.time() - t0, 1)
    if outs is None:
        ctx.broken.append("the generated program(s) do not build / run against the current /repo tree "
                          "(a declaration of the documented attribute language is rejected, or the Type / TypeSupport "
                          "API changed): " + err[-1500:])
        return core.finish(ctx, mod)
    cases, terms, texts = [], [], []
    for decls, vals, out in zip(all_decls, all_vals, outs):
        res = parse_output(out, decls, vals)
        for d, vs, rr in zip(decls, vals, res):
            if rr[0] is None or any(x is None for x in rr[2]) or "UNSUPPORTED" in str(rr):
                ctx.violations.append(("impl-crash", "no output for declaration " + decl_text(d),
                                       {"case": case_json(d, vs), "harness": HARNESS}))
                continue
            if not rr[1]:
                ctx.broken.append("descriptor of %s has a non-default value in a field the model does not carry "
                                  "(base_type/element_type/bound/default_value/is_shared/is_external)" % d["rname"])
            t = ("named", d)
            for (v, mu, pos), o in zip(vs, rr[2]):
                if o[0] != coq_val(t, v):
                    ctx.broken.append("generator self-check: value literal and Coq term differ for %s: %s vs %s"
                                      % (d["rname"], o[0], coq_val(t, v)))
                if (o[3] == "E") != (o[2] == "(Ok (Some %s))" % o[0]) and o[3] in "EN":
                    ctx.broken.append("generator self-check: Rust == and canonical equality disagree for %s" % d["rname"])
            cases.append((d, vs, rr))
            terms.append(case_term_of(d, vs, rr))
            texts.append(decl_text(d))
    t_e = time.time()
    model_bad, oracle_bad, err = core.coq_eval_cases(ctx, CORR, PREFIX, CASE_TYPE, terms)
    ctx.cov["coq_eval_s"] = round(time.time() - t_e, 1)
    if err:
        ctx.broken.append("correspondence evaluation failed: " + err[-600:])
    known = core.known_ids(PID)
    unknown = []
    for j, cls in oracle_bad:
        fid = KNOWN.get(cls)
        if fid is not None and fid in known:
            ctx.known_seen.setdefault(fid, texts[j])
        else:
            unknown.append(j)
    for j in unknown[:5]:
        d, vs, rr = cases[j]
        ctx.violations.append(("oracle", "property oracle rejects the behaviour of the derive on: %s  -> descriptor %s ; "
                               "round trips %s" % (texts[j], rr[0], [(o[0], o[2]) for o in rr[2]]),
                               {"case": case_json(d, vs), "values": [coq_val(("named", d), v[0]) for v in vs],
                                "impl_output": rr, "harness": HARNESS}))
    if model_bad and not unknown:
        j = model_bad[0]
        ctx.broken.append("correspondence C40: implementation differs from model on %d declaration(s), e.g. %s -> %s %s"
                          % (len(model_bad), texts[j], cases[j][2][0], cases[j][2][2]))
    nontriv = set()
    for (d, vs, rr), tx in zip(cases, texts):
        if n_items(d) >= 2 and any(o[2].startswith("(Ok (Some") for o in rr[2]):
            nontriv.add(tx)
    ctx.cov["evaluations"] = len(cases)
    ctx.cov["distinct_nontrivial"] = len(nontriv)
    ctx.cov["rule"] = RULE
    ctx.cov["traces_validated_against_impl"] = len(cases) - len(model_bad)
    ctx.cov["model_disagreements"] = len(model_bad)
    ctx.cov["round_trips"] = sum(len([1 for v in vs if v[1] == 0]) for _, vs, _ in cases)
    ctx.cov["damaged_round_trips"] = sum(len([1 for v in vs if v[1] != 0]) for _, vs, _ in cases)
    ctx.cov["samples"] = [{"case": texts[i], "impl": cases[i][2][0]} for i in sorted(set([0, len(cases) // 2, len(cases) - 1]))] if cases else []
    ctx.cov["input_distribution"] = distribution(cases)
    return core.finish(ctx, mod)


def strip(d):
    """JSON-serialisable copy of a declaration"""
    def ty(t):
        if t is None:
            return None
        if t[0] == "named":
            return ["named", strip(t[1])]
        if t[0] in ("vec", "opt"):
            return [t[0], ty(t[1])]
        if t[0] == "arr":
            return ["arr", ty(t[1]), t[2]]
        return list(t)
    out = {k: v for k, v in d.items() if k not in ("members", "variants", "coq")}
    if d["kind"] == "struct":
        out["members"] = [dict({k: v for k, v in m.items() if k != "ty"}, ty=ty(m["ty"])) for m in d["members"]]
    elif d["kind"] == "union":
        out["variants"] = [dict({k: v for k, v in m.items() if k != "ty"}, ty=ty(m["ty"])) for m in d["variants"]]
    else:
        out["variants"] = d["variants"]
    return out


def distribution(cases):
    dist = {}

    def bump(k):
        dist[k] = dist.get(k, 0) + 1
    for d, vs, rr in cases:
        bump(d["kind"])
        if d["kind"] == "struct":
            bump("struct/" + d["ext"])
            if d["tuple"]:
                bump("struct/tuple")
            for m in d["members"]:
                for a in ("key", "optional", "ns", "hashid"):
                    if m[a]:
                        bump("member/" + a)
                if m["id"] is not None:
                    bump("member/id")
                if m["default"] is not None:
                    bump("member/default_value")
                if m["tc"] is not None:
                    bump("member/try_construct")
                bump("member-type/" + m["ty"][0])
        elif d["kind"] == "union":
            bump("union/disc-" + d["disc"])
            for v in d["variants"]:
                bump("variant/" + ("unit" if v["ty"] is None else "named" if v["field"] else "tuple"))
                if v["default"]:
                    bump("variant/default")
        for o in rr[2]:
            bump(("roundtrip/" if o[5] == "None" else "damaged/") + ("panic" if o[1].startswith("(Panic") else "none" if o[2] == "(Ok None)" else
                                 "panic-back" if o[2].startswith("(Panic") else "equal" if o[3] == "E" else "different"))
    return dist


# ---- replay support (`./check C40 --replay FILE` goes through harness/src/bin/c40.rs) ----------------------

def unstrip(j, seen=None):
    """inverse of strip(): JSON -> declaration (nested declarations shared by Rust name)"""
    seen = {} if seen is None else seen

    def ty(t):
        if t is None:
            return None
        if t[0] == "named":
            return ("named", unstrip(t[1], seen))
        if t[0] in ("vec", "opt"):
            return (t[0], ty(t[1]))
        if t[0] == "arr":
            return ("arr", ty(t[1]), t[2])
        return tuple(t)

    def val(v):
        if v is None:
            return None
        if v[0] in ("p", "s", "e"):
            return (v[0], v[1])
        if v[0] in ("l", "r"):
            return (v[0], [val(x) for x in v[1]])
        if v[0] == "o":
            return ("o", val(v[1]))
        return ("u", v[1], val(v[2]))
    if j["rname"] in seen:
        return seen[j["rname"]]
    d = {k: v for k, v in j.items() if k not in ("members", "variants")}
    if j["kind"] == "struct":
        d["members"] = [dict(m, ty=ty(m["ty"]), default=val(m["default"])) for m in j["members"]]
    elif j["kind"] == "union":
        d["variants"] = [dict(v, ty=ty(v["ty"])) for v in j["variants"]]
    else:
        d["variants"] = [tuple(v) for v in j["variants"]]
    seen[j["rname"]] = d
    return d


def closure(d, out):
    """the declaration and everything it names, dependencies first"""
    ts = [m["ty"] for m in d["members"]] if d["kind"] == "struct" else \
         [v["ty"] for v in d["variants"] if v["ty"] is not None] if d["kind"] == "union" else []

    def walk(t):
        if t[0] == "named":
            closure(t[1], out)
        elif t[0] in ("vec", "arr", "opt"):
            walk(t[1])
    for t in ts:
        walk(t)
    if d not in out:
        out.append(d)
    return out


def jval(v):
    if v is None:
        return None
    if v[0] in ("l", "r"):
        return [v[0], [jval(x) for x in v[1]]]
    if v[0] == "o":
        return ["o", jval(v[1])]
    if v[0] == "u":
        return ["u", v[1], jval(v[2])]
    return list(v)


def case_json(d, vs):
    return json.dumps({"decl": strip(d), "values": [[jval(v), mu, pos] for v, mu, pos in vs]})


def parse_line(line):
    j = json.loads(line)
    seen = {}
    d = unstrip(j["decl"], seen)

    def val(v):
        if v is None:
            return None
        if v[0] in ("p", "s", "e"):
            return (v[0], v[1])
        if v[0] in ("l", "r"):
            return (v[0], [val(x) for x in v[1]])
        if v[0] == "o":
            return ("o", val(v[1]))
        return ("u", v[1], val(v[2]))
    return (d, [(val(v), mu, pos) for v, mu, pos in j["values"]])


def case_line(c):
    return case_json(c[0], c[1])


def case_term(c, out):
    d, vs = c
    if not out or out.startswith("ERROR") or "T 0" not in out:
        return None
    res = parse_output(out.replace(" @@ ", "\n"), [d], [vs])
    rr = res[0]
    if rr[0] is None or any(x is None for x in rr[2]):
        return None
    return case_term_of(d, vs, rr)


def one_main():
    """stdin: one case line -> stdout: the output of the one-declaration program"""
    d, vs = parse_line(sys.stdin.read())
    decls = closure(d, [])
    for x in decls:
        x.setdefault("seed", 0)
    prog = rust_program(decls, [[] for _ in decls[:-1]] + [vs], only_last=True)
    ctx = core.Ctx(PID, "quick", 0)
    outs, err = build_and_run(ctx, [prog])
    if outs is None:
        print("ERROR " + " ".join(err.split())[-1500:])
        return 1
    keep = [l for l in outs[0].splitlines() if l.startswith("T 0 ") or l.startswith("V 0 ")]
    print("\n".join(keep))
    return 0


MANIFEST = {
    "text": ("PARTIAL by nature: rustc, syn parsing and macro hygiene are exercised only through generated programs; "
             "what is proved is a Coq model of the expansion of #[derive(DdsType)] (attributes.rs, type_support.rs, "
             "enum_support.rs) and of the Type / DataStorageMapping / DynamicData code it expands to. Declarations are "
             "terms of an inductive attribute language (struct / tuple struct / enum / union; name, extensibility, "
             "nested, key, id, hashid, optional, non_serialized, default_value, try_construct, bit_bound, switch, "
             "case, default; members of every primitive kind, String, Vec, arrays, Option and nested declared types). "
             "Proved for ALL declarations and values of that language: (1) derive_roundtrip: for every declaration with "
             "pairwise distinct member ids, distinct in-range enum discriminants, distinct first union labels and the "
             "default variant last, create_sample(create_dynamic_sample(v)) = Some v, up to non_serialized members which "
             "come back as their default; create_dynamic_sample panics exactly on the documented bare Option::None; "
             "(2) ids: hashed ids are the little-endian u32 of the first four MD5 bytes of the member name masked to "
             "28 bits (MD5 itself is a Coq function, not a parameter), explicit ids are honoured in every extensibility kind, otherwise ids are "
             "sequential (Mutable: previous un-hashed id + 1, also after a LOWER explicit id; Final/Appendable: the "
             "member index); un-hashed ids are pairwise distinct when no id is explicit or, in a Mutable structure, every "
             "explicit id is at least the automatic counter, in general distinctness is a decidable test that the macro "
             "does not apply (witness: a clashing declaration is accepted and its values do not round trip); "
             "(3) descriptor_reflects_declaration: the published description is a function of the declaration that "
             "omits non_serialized members and preserves names, order, ids, member type signatures, key/optional/must-understand flags, try_construct, "
             "extensibility, nested flag, union labels and default flag, enum name and bit bound; the clause on enum "
             "literal values is refuted (enums differing only in their literals have equal descriptions). "
             "The model is tied to the code on every check: N random declarations plus the README examples are "
             "pretty-printed into one Rust program built against /repo's current tree; its output (the real "
             "<T as Type>::TYPE, the DynamicData produced by create_dynamic_sample, the result of create_sample, also on "
             "DynamicData with a member removed or replaced) is compared with the model inside Coq, and an oracle written "
             "from the XTypes rules and the README is applied to the implementation's output."),
    "note": ("Trusted: Coq kernel + vm_compute; hand model DeriveModel.v (correspondence-checked each run); MD5 model "
             "KeyHash/Md5Model.v; the declaration pretty-printer and the canonical printers inside the generated "
             "program; rustc. Axioms: none. Not covered: generics, base_type, external, non-literal ids/labels, enum "
             "discriminators, user Default impls "
             "other than derive/first-variant, NaN and -0.0. Recorded deviations of the real code (known findings, each "
             "with a patch under proposed_fixes/): duplicate member ids accepted (also an explicit id equal to the index "
             "of another member of a Final/Appendable structure); enum literals not published; union default arm / "
             "implicit label order. Fixed after being found here: explicit id ignored outside Mutable (7ee9e78), "
             "non_serialized member published as an ordinary member so that Final/Appendable types could not be "
             "serialized (0840b55), hashid not masked to 28 bits (470723e), Vec<i8> published as "
             "sequence<uint8> and therefore not serializable (7de5ab3), only the first #[dust_dds(..)] attribute of an "
             "item was read (99bf327; declarations are now printed with split attributes). Documentation deviations: omitted `case` "
             "is index+1 (README: 0-indexed index); default_value is used only with optional / try_construct = "
             "USE_DEFAULT / non_serialized; a union variant field named `data` does not compile (macro hygiene); an "
             "explicit id of u32::MAX makes the proc macro panic (overflow)."),
    "technique": ("Coq proof (nested structural induction over declarations) + differential correspondence through "
                  "generated programs, model and oracle evaluated in Coq"),
}


if __name__ == "__main__" and "--one" in sys.argv:
    sys.exit(one_main())
