"""C16 — matched-status counts track the actual matched set (whole-stack simulation)."""
import json
from vlib.core import cz, clist

PID = "C16"
PROPS_FILE = "Props/C16.v"
CORR = "Disc.MatchedCorr"
CORR_MODULES = ["Disc.MatchedCorr"]
PREFIX = "C16"
CASE_TYPE = "C16_case"
HARNESS = "disc"
KNOWN = {}
RULE = ("one case = one simulated scenario (real stack, 3 participants, in-memory network, simulated clock): "
        "remote endpoints are created, their QoS updated (compatible / incompatible deadline, user data), deleted, "
        "their participant leaves (gracefully, with lost SEDP, by lease expiry, by ignore_participant), interleaved with "
        "matched-status reads, matched-list reads and writes whose datagram destinations are recorded; "
        "distinct = distinct scenario line; non-trivial = at least one match happened and a status was read")
TRUSTED = ["theories/Disc/MatchedModel.v is a hand transcription of process_discovered_readers/writers, "
           "remove_discovered_reader/writer, remove_discovered_participant (discovery_methods.rs), "
           "add/remove_matched_publication, remove_matched_subscription and the status getters",
           "harness/src/bin/disc.rs + harness/src/sim.rs (deterministic executor, clock, in-memory network)",
           "props/C16.py translates scenario events into the discovery actions that reach the local participant "
           "(checked: a wrong translation shows up as a model disagreement)"]
ASSUMPTIONS = ["QoS compatibility is abstracted to the topic name and the deadline rule (all other policies equal in the scenarios); "
               "the RxO rules themselves are C15",
               "no listeners installed (a listener call reads the matched status and so resets the change fields)"]

S = 10**9
LDLS = [-1, 1 * S, 2 * S]
RDLS = [-1, 500_000_000, 1 * S, 2 * S, 3 * S]
LEASE = 2 * S


# ------------------------------------------------------------------ scenario compiler
def compile_case(c):
    """c = {side, ldl, crash: [participants with a short lease], ev: [...]}
    returns (ops, plan): plan[i] tells how to read the output of ops[i]."""
    side, ldl = c["side"], c["ldl"]
    ops, plan = [], []

    def op(o, what=None):
        ops.append(o)
        plan.append(what)

    op("# " + json.dumps(c, separators=(",", ":")))
    for p in range(3):
        op("P 0")
        if p in c["crash"]:
            op("lease %d %d" % (p, LEASE))
    # topics: index = 2*p + (0: 't', 1: 'u')
    for p in range(3):
        op("T %d t" % p)
        op("T %d u" % p)
    if side == "Wr":
        op("PUB 0")
        op("SUB 1")
        op("SUB 2")
        op("W 0 0 rel=1 dl=%d" % ldl)
    else:
        op("SUB 0")
        op("PUB 1")
        op("PUB 2")
        op("R 0 0 rel=1 dl=%d" % ldl)
    op("net")
    op("adv 60000000")
    op("net")
    for p in range(3):
        op("now", ("act", "APart %d" % p))
    eps = []          # remote endpoints: dict(p, topic, dl, ud, live)
    alive = [0, 1, 2]
    rk = "R" if side == "Wr" else "W"   # kind of the remote endpoints
    q, dele = ("qR", "delR") if side == "Wr" else ("qW", "delW")

    def ep(i):
        e = eps[i]
        return "(mkEp %d %d %d %s %d)" % (e["p"], i, e["topic"], cz(e["dl"]), e["ud"])

    for e in c["ev"]:
        k = e[0]
        if k == "new":
            _, p, topic, dl, ud = e
            eps.append({"p": p, "topic": topic, "dl": dl, "ud": ud, "live": True})
            op("%s %d %d rel=1 dl=%d ud=%d" % (rk, p - 1, 2 * p + topic, dl, ud))
            op("net", ("act", "ADisc " + ep(len(eps) - 1)))
        elif k == "upd":
            _, i, dl, ud = e
            eps[i]["dl"], eps[i]["ud"] = dl, ud
            op("%s %d dl=%d ud=%d" % (q, i, dl, ud))
            op("net", ("act", "ADisc " + ep(i)))
        elif k == "del":
            _, i = e
            eps[i]["live"] = False
            op("%s %d" % (dele, i))
            op("net", ("act", "AGone (%d, %d)" % (eps[i]["p"], i)))
        elif k == "leave":
            _, p = e
            op("delall %d" % p)
            op("delP %d" % p)
            for i, x in enumerate(eps):
                if x["p"] == p and x["live"]:
                    x["live"] = False
                    op("now", ("act", "AGone (%d, %d)" % (p, i)))
            op("net", ("act", "APartGone %d" % p))
            alive.remove(p)
        elif k == "lossy":
            _, p = e
            op("mfault drop %d -1 SEDP -1" % p)
            op("delall %d" % p)
            op("delP %d" % p)
            op("net", ("act", "APartGone %d" % p))
            for x in eps:
                if x["p"] == p:
                    x["live"] = False
            alive.remove(p)
        elif k == "crash":
            _, p = e
            op("mute %d 1" % p)
            op("jump %d" % (LEASE + 10_000_000), ("act", "AStale %d" % p))
            for x in eps:
                if x["p"] == p:
                    x["live"] = False
        elif k == "ign":
            _, p = e
            op("ign 0 %d" % p, ("act", "APartGone %d" % p))
            for x in eps:
                if x["p"] == p:
                    x["live"] = False
        elif k == "read":
            op("pm 0" if side == "Wr" else "sm 0", ("read",))
        elif k == "list":
            op("ms 0" if side == "Wr" else "mp 0", ("list",))
        elif k == "send":
            op("dst 0")
            op("w 0 1 8 %d" % e[1])
            op("dst 0", ("dst", list(alive)))
            op("net")
        elif k == "tick":
            op("adv 60000000")
            op("net", ("act", "ATick"))
    return ops, plan, eps


def case_line(c):
    return " ; ".join(compile_case(c)[0])


def parse_line(line):
    first = line.split(";")[0].strip()
    return json.loads(first[2:])


def name_key(tok, eps):
    """r3 / w3 -> (participant, 3); p1 -> (1, -1)"""
    if tok[0] in "rw" and tok[1:].isdigit():
        i = int(tok[1:])
        # index space of the harness: local endpoint (Rd side: r0 is local) is not a remote one
        return None if i >= len(eps) else (eps[i]["p"], i)
    if tok[0] == "p" and tok[1:].isdigit():
        return (int(tok[1:]), -1)
    return None


def ckey(k):
    return "(%s, %s)" % (cz(k[0]), cz(k[1]))


def case_term(c, out):
    ops, plan, eps = compile_case(c)
    if out is None or out.startswith("PANIC") or out.startswith("ABORT") or out.startswith("HANG") or "STUCK" in out:
        return None   # reported as a violation with the scenario as replay
    outs = [x.strip() for x in out.split(" | ")]
    if len(outs) != len(ops):
        return None
    items = []
    for o, w in zip(outs, plan):
        if w is None:
            continue
        if w[0] == "act":
            items.append("IA (%s)" % w[1])
        elif w[0] == "read":
            t = o.split()
            if len(t) != 5:
                return None
            items.append("IRead (%s, %s, %s, %s)" % tuple(cz(int(x)) for x in t[1:]))
        elif w[0] == "list":
            ks = []
            for tok in o.split()[1:]:
                k = name_key(tok, eps)
                ks.append(ckey(k if k is not None else (99, 99)))
            items.append("IList " + clist(ks))
        elif w[0] == "dst":
            ks = []
            for tok in o.split()[1:]:
                k = name_key(tok[1:], eps)
                k = ckey(k if k is not None else (99, 99))
                if k not in ks:
                    ks.append(k)
            items.append("IDst %s %s" % (clist([str(p) for p in w[1]]), clist(ks)))
    return "mkC16 %s 0 %s %s" % (c["side"], cz(c["ldl"]), clist(items))


# ------------------------------------------------------------------ generator
def gen_case(r, tier, classes_allowed=True):
    side = "Wr" if r.random() < 0.65 else "Rd"
    ldl = r.choice([S, S, 2 * S, -1] if side == "Wr" else [-1, S, 2 * S, 2 * S])
    crash = [r.choice([1, 2])] if r.random() < 0.5 else []   # at most one participant with a short lease
    n = r.randint(5, 14 if tier == "quick" else 30)
    ev = []
    eps = []            # (p, live)
    dead = set()        # participants that left / crashed / are ignored
    clean = not classes_allowed

    def compat(dl, topic):
        if topic != 0:
            return False
        a, b = (ldl, dl) if side == "Wr" else (dl, ldl)
        return b < 0 or (a >= 0 and a <= b)

    if r.random() < 0.4:
        # a remote participant with 2-3 endpoints matched to the one local endpoint (plus sometimes an
        # incompatible one and one of the other participant) departs WITHOUT disposing them: lease expiry,
        # ignore_participant or SPDP dispose with lost SEDP -- every one of its matches must go
        p = crash[0] if crash and r.random() < 0.6 else r.choice([1, 2])
        good = [d for d in RDLS if compat(d, 0)]
        bad = [d for d in RDLS if not compat(d, 0)]
        for _ in range(r.randint(2, 3)):
            dl = r.choice(good)
            eps.append({"p": p, "live": True, "dl": dl, "topic": 0})
            ev.append(["new", p, 0, dl, r.randint(0, 3)])
        if bad and r.random() < 0.4:
            dl = r.choice(bad)
            eps.append({"p": p, "live": True, "dl": dl, "topic": 0})
            ev.append(["new", p, 0, dl, 0])
        if r.random() < 0.5:
            dl = r.choice(good)
            eps.append({"p": 3 - p, "live": True, "dl": dl, "topic": 0})
            ev.insert(r.randrange(len(ev) + 1), ["new", 3 - p, 0, dl, 1])
            # keep the endpoint indices consistent with the creation order of the events
            order = [e for e in ev if e[0] == "new"]
            eps[:] = [{"p": e[1], "live": True, "dl": e[3], "topic": e[2]} for e in order]
        ev += [["read"], ["list"]]
        if side == "Wr" and r.random() < 0.5:
            ev.append(["send", r.randint(1, 99)])
        kind = r.choice((["crash"] * 3 if p in crash else []) + ["ign", "ign", "lossy"])
        dead.add(p)
        for e in eps:
            if e["p"] == p:
                e["live"] = False
        ev += [[kind, p], ["read"], ["list"]]
        if side == "Wr":
            ev.append(["send", r.randint(1, 99)])
        ev.append(["read"])
        n += len(ev)
    while len(ev) < n:
        k = r.random()
        livep = [p for p in (1, 2) if p not in dead]
        live = [i for i, e in enumerate(eps) if e["live"]]
        if k < 0.22 and livep and len(eps) < 6:
            p = r.choice(livep)
            topic = 0 if r.random() < 0.85 else 1
            dl = r.choice(RDLS)
            eps.append({"p": p, "live": True, "dl": dl, "topic": topic})
            ev.append(["new", p, topic, dl, r.randint(0, 3)])
        elif k < 0.40 and live:
            i = r.choice(live)
            if clean and compat(eps[i]["dl"], eps[i]["topic"]):
                continue   # class 1/2 would be entered
            dl = r.choice(RDLS) if r.random() < 0.7 else eps[i]["dl"]
            eps[i]["dl"] = dl
            ev.append(["upd", i, dl, r.randint(0, 3)])
        elif k < 0.50 and live:
            i = r.choice(live)
            eps[i]["live"] = False
            ev.append(["del", i])
        elif k < 0.58 and livep:
            p = r.choice(livep)
            kinds = ["leave", "lossy", "ign"] + (["crash"] * 2 if p in crash else [])
            kind = r.choice(kinds)
            if clean and kind != "leave" and any(e["p"] == p and e["live"] and compat(e["dl"], e["topic"]) for e in eps):
                kind = "leave"
            dead.add(p)
            for e in eps:
                if e["p"] == p:
                    e["live"] = False
            ev.append([kind, p])
        elif k < 0.74:
            ev.append(["read"])
        elif k < 0.84:
            ev.append(["list"])
        elif k < 0.93:
            if side == "Wr":
                ev.append(["send", r.randint(1, 99)])
        else:
            ev.append(["tick"])
    ev.append(["read"])
    ev.append(["list"])
    if side == "Wr":
        ev.append(["send", 7])
    ev.append(["read"])
    return {"side": side, "ldl": ldl, "crash": crash, "ev": ev}


def gen(r, tier):
    n = {"quick": 40, "search": 400, "thorough": 1000}[tier]
    cases = []
    for i in range(n):
        cases.append(gen_case(r, tier))
    return cases


def corpus():
    S2 = 2 * S
    return [
        # regression: the four defect classes of the first version (fixed: 63bcd2c, 34a7046, 9eb0989, 6603216), minimal
        {"side": "Wr", "ldl": S, "crash": [], "ev": [["new", 1, 0, -1, 0], ["read"], ["upd", 0, -1, 7], ["read"], ["list"]]},
        {"side": "Wr", "ldl": S, "crash": [], "ev": [["new", 1, 0, -1, 0], ["read"], ["upd", 0, 500_000_000, 0], ["read"], ["list"], ["send", 1]]},
        {"side": "Wr", "ldl": S, "crash": [], "ev": [["new", 1, 0, -1, 0], ["read"], ["lossy", 1], ["read"], ["list"]]},
        {"side": "Wr", "ldl": S, "crash": [1], "ev": [["new", 1, 0, -1, 0], ["read"], ["crash", 1], ["read"], ["list"], ["read"]]},
        {"side": "Wr", "ldl": S, "crash": [], "ev": [["new", 1, 0, -1, 0], ["read"], ["ign", 1], ["read"], ["list"]]},
        {"side": "Wr", "ldl": S, "crash": [], "ev": [["new", 1, 0, -1, 0], ["read"], ["del", 0], ["read"], ["list"], ["send", 3]]},
        {"side": "Rd", "ldl": S2, "crash": [], "ev": [["new", 1, 0, S, 0], ["read"], ["upd", 0, S, 7], ["read"], ["list"]]},
        {"side": "Rd", "ldl": S, "crash": [], "ev": [["new", 1, 0, S, 0], ["read"], ["upd", 0, S2, 0], ["read"], ["list"]]},
        {"side": "Rd", "ldl": S, "crash": [2], "ev": [["new", 2, 0, S, 0], ["read"], ["crash", 2], ["read"], ["list"], ["read"]]},
        # a participant with several endpoints matched to one local endpoint departs without disposing them
        # (lease expiry / ignore_participant / lost SEDP): ALL its matches go, the other participant's stay
        {"side": "Wr", "ldl": S, "crash": [1], "ev": [["new", 1, 0, -1, 0], ["new", 1, 0, S2, 1], ["new", 2, 0, -1, 2], ["new", 1, 0, S, 3],
                                                       ["read"], ["list"], ["crash", 1], ["read"], ["list"], ["send", 5], ["read"]]},
        {"side": "Wr", "ldl": S, "crash": [], "ev": [["new", 2, 0, -1, 0], ["new", 2, 0, S2, 1], ["new", 2, 0, 500_000_000, 1], ["read"], ["list"],
                                                      ["ign", 2], ["read"], ["list"], ["send", 6], ["read"]]},
        {"side": "Wr", "ldl": S, "crash": [], "ev": [["new", 1, 0, -1, 0], ["new", 1, 0, -1, 1], ["new", 1, 0, -1, 2], ["read"],
                                                      ["lossy", 1], ["read"], ["list"], ["read"]]},
        {"side": "Rd", "ldl": S2, "crash": [2], "ev": [["new", 2, 0, S, 0], ["new", 2, 0, S2, 1], ["new", 1, 0, S, 2], ["new", 2, 0, S, 3],
                                                        ["read"], ["list"], ["crash", 2], ["read"], ["list"], ["read"]]},
        {"side": "Rd", "ldl": -1, "crash": [], "ev": [["new", 1, 0, S, 0], ["new", 1, 0, -1, 1], ["read"], ["list"], ["ign", 1], ["read"], ["list"]]},
        # clean histories
        {"side": "Wr", "ldl": S, "crash": [], "ev": [["new", 1, 0, -1, 0], ["new", 2, 0, S2, 1], ["new", 2, 0, 500_000_000, 1], ["new", 1, 1, -1, 0],
                                                      ["read"], ["list"], ["send", 1], ["leave", 2], ["read"], ["list"], ["read"]]},
        {"side": "Rd", "ldl": S, "crash": [], "ev": [["new", 1, 0, S, 0], ["new", 2, 0, S2, 1], ["read"], ["list"], ["leave", 1], ["read"], ["list"]]},
    ]


def nontrivial(c, out):
    import re
    if out and re.search(r"\| (pm|sm) [1-9]", out):   # some match happened and a status was read
        return case_line(c)
    return None


def distribution(cases, outs):
    d = {}
    for c in cases:
        for e in c["ev"]:
            key = c["side"] + "/" + e[0]
            d[key] = d.get(key, 0) + 1
    return d


MANIFEST = {
    "text": ("Machine-checked proof (Coq) over a model of the matched-endpoint bookkeeping of a DataWriter / DataReader "
             "(process_discovered_readers/writers, remove_discovered_reader/writer, remove_discovered_participant, "
             "remove_stale_participants, status getters), for ALL histories of discovery actions and status reads and any "
             "compatibility predicate: every status read returns (total, total since last read, |matched set|, change of "
             "|matched set| since last read) of an independent specification of the matched set, current_count = length of the "
             "matched list, total_count counts each unmatched->matched transition once, and the RTPS proxy set equals the "
             "matched set (no DATA/HEARTBEAT to a deleted, incompatible or departed endpoint). The model is tied to the code by "
             "whole-stack simulation: generated scenarios (endpoint creation, compatible/incompatible QoS updates, deletion, "
             "graceful / lossy departure, lease expiry, ignore_participant) run the real stack and every observed status, "
             "matched list and datagram destination is compared with the model inside Coq; the specification is applied as "
             "oracle to the implementation's own answers."),
    "note": ("Holds on the current tree; the four defect classes found by the first version of this check were repaired by "
             "commits 63bcd2c, 34a7046, 6603216, 9eb0989 and their scenarios are regression cases. Trusted: Coq kernel + "
             "vm_compute, hand model, simulator harness, scenario-to-action translation in props/C16.py."),
    "technique": "Coq refinement proof (model vs. specification of the matched set) + whole-stack simulation correspondence",
}
