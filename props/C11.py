"""C11 — instance identity: same instance handle exactly when the key members are equal;
writer-side handle = reader-side derivation.  (Generator and printers shared with C12.)"""
from vlib.core import cz

PID = "C11"
PROPS_FILE = "Props/C11.v"
CORR = "KeyHash.KeyCorr"
CORR_MODULES = ["KeyHash.KeyCorr"]
PREFIX = "C11"
CASE_TYPE = "KH_case"
HARNESS = "c11"
KNOWN = {2: "C11-reader-derivation-codec"}
RULE = ("a case is one keyed DynamicType built at run time (nested keys, several keys, string / sequence / "
        "array / struct keys, explicit or per-struct member ids) with two DynamicData samples (op h: both "
        "writer-side handles) or one sample (op r: writer handle + six reader-side derivations, through a "
        "serialized RTPS DATA submessage with and without PID_KEY_HASH, XCDR1 and XCDR2, sample and "
        "serialized key; op s: whole stack - two simulated participants, dynamic topic, real DataWriter and "
        "DataReader, the samples reach the reader without key hash (DATA_FRAG through a small fragment size, or "
        "PID_KEY_HASH renamed in flight), compared: DataWriter::lookup_instance and SampleInfo::instance_handle of "
        "write / dispose / unregister, on types whose key members are not the leading members); "
        "distinct = distinct input line; non-trivial = at least one key member and every "
        "output is a 16-byte handle")
TRUSTED = ["theories/KeyHash/KeyModel.v is a hand transcription of xtypes_glue/key_and_instance_handle.rs and of "
           "the big-endian EncodingVersion1 path of xtypes/serializer.rs (serialize_final_without_header)",
           "theories/KeyHash/Md5Model.v is RFC 1321 written in Gallina (RFC vectors by vm_compute; compared with "
           "the md5 crate on every key longer than 16 bytes)",
           "the reader-side derivations without key hash go through the real XCDR codec; the model predicts them "
           "assuming the codec returns the sample it was given (C09)"]
ASSUMPTIONS = ["a nested DynamicData carries the type its member descriptor declares",
               "key members are not optional, nested key structures are FINAL or APPENDABLE, no sequence/array of "
               "sequence/array, no enum/union/bitmask/wstring/map key members, char8 values fit one octet",
               "=> direction: modulo an explicit MD5 coincidence (the former class C11-key-id-collision is fixed: c1628d5, the model follows the fixed code)",
               "reader derivation without key hash for sample types with MUTABLE structures or multi-dimensional arrays: recorded class C11-reader-derivation-codec (root cause in the XCDR codec, C09)",
               "op r re-implements the reader-side branch of communication_methods.rs in the harness (the NotAlive* "
               "derivation through deserialize_topic_type because xtypes::deserializer is pub(crate)); op s runs the "
               "real DcpsDomainParticipant code for the same situations"]

PRIMS = ["b", "y", "u8", "i8", "u16", "i16", "u32", "i32", "u64", "i64", "f32", "f64", "f128", "c8"]
TAG = {"b": "b", "y": "u8", "u8": "u8", "i8": "i8", "u16": "u16", "i16": "i16", "u32": "u32", "i32": "i32",
       "u64": "u64", "i64": "i64", "f32": "f32", "f64": "f64", "f128": "f128", "c8": "c8"}
RANGE = {"b": (0, 1), "u8": (0, 255), "i8": (-128, 127), "u16": (0, 65535), "i16": (-32768, 32767),
         "u32": (0, 2**32 - 1), "i32": (-2**31, 2**31 - 1), "u64": (0, 2**64 - 1), "i64": (-2**63, 2**63 - 1),
         "f32": (0, 2**32 - 1), "f64": (0, 2**64 - 1), "f128": (-2**127, 2**127 - 1), "c8": (0, 255)}
COQ_PRIM = {"b": "PBool", "y": "PByte", "u8": "PU8", "i8": "PI8", "u16": "PU16", "i16": "PI16", "u32": "PU32",
            "i32": "PI32", "u64": "PU64", "i64": "PI64", "f32": "PF32", "f64": "PF64", "f128": "PF128",
            "c8": "PChar8"}
COQ_TAG = {"b": "SBool", "u8": "SU8", "i8": "SI8", "u16": "SU16", "i16": "SI16", "u32": "SU32", "i32": "SI32",
           "u64": "SU64", "i64": "SI64", "f32": "SF32", "f64": "SF64", "f128": "SF128", "c8": "SChar8"}
COQ_EXT = {"f": "Final", "a": "Appendable", "m": "Mutable"}

# ------------------------------------------------------------------ printers


def type_text(t):
    k = t[0]
    if k == "p":
        return t[1]
    if k == "s":
        return "s%d" % t[1]
    if k == "q":
        return "q%d(%s)" % (t[2], type_text(t[1]))
    if k == "a":
        return "a%s(%s)" % (",".join(str(d) for d in t[2]), type_text(t[1]))
    return "S%s{%s}" % (t[1], ";".join("%d:%s:%s" % (i, ("k" if key else "") + ("o" if opt else "") or "n", type_text(mt))
                                       for (i, key, opt, mt) in t[2]))


def hexs(bs):
    return "x" + "".join("%02x" % b for b in bs)


def value_text(v):
    k = v[0]
    if k == "P":
        return "%s:%d" % (v[1], v[2])
    if k == "x":
        return hexs(v[1])
    if k == "{":
        return fields_text(v[1])
    if k == "Q":
        return "Q%s[%s]" % (v[1], ",".join(str(z) for z in v[2]))
    if k == "X":
        return "X[%s]" % ",".join(hexs(s) for s in v[1])
    return "R[%s]" % ",".join(fields_text(d) for d in v[1])


def fields_text(d):
    return "{%s}" % ";".join("%d=%s" % (i, value_text(v)) for i, v in d)


def zl(zs):
    return "[" + ";".join(cz(z) for z in zs) + "]"


def type_term(t):
    k = t[0]
    if k == "p":
        return "(TPrim %s)" % COQ_PRIM[t[1]]
    if k == "s":
        return "(TStr %d)" % t[1]
    if k == "q":
        return "(TSeq %s %d)" % (type_term(t[1]), t[2])
    if k == "a":
        return "(TArr %s %s)" % (type_term(t[1]), zl(t[2]))
    ms = "MNil"
    for (i, key, opt, mt) in reversed(t[2]):
        ms = "(MCons %d %s %s %s %s)" % (i, "true" if key else "false", "true" if opt else "false", type_term(mt), ms)
    return "(TStruct %s %s)" % (COQ_EXT[t[1]], ms)


def value_term(v):
    k = v[0]
    if k == "P":
        return "(VPrim %s %s)" % (COQ_TAG[v[1]], cz(v[2]))
    if k == "x":
        return "(VStr %s)" % zl(v[1])
    if k == "{":
        return "(VStruct %s)" % fields_term(v[1])
    if k == "Q":
        return "(VSeqPrim %s %s)" % (COQ_TAG[v[1]], zl(v[2]))
    if k == "X":
        return "(VSeqStr [%s])" % ";".join(zl(s) for s in v[1])
    ds = "DNil"
    for d in reversed(v[1]):
        ds = "(DCons %s %s)" % (fields_term(d), ds)
    return "(VSeqStruct %s)" % ds


def fields_term(d):
    s = "FNil"
    for i, v in reversed(d):
        s = "(FCons %d %s %s)" % (i, value_term(v), s)
    return s

# ---------------------------------------------------------------- generators


class Ids:
    """member ids: 'struct' = 0,1,2.. inside every structure (what the derive macro does);
    'global' = unique over the whole type; 'explicit' = random, unique per structure"""

    def __init__(self, r, mode):
        self.r, self.mode, self.n = r, mode, 0

    def for_struct(self, count):
        if self.mode == "struct":
            return list(range(count))
        if self.mode == "global":
            out = list(range(self.n, self.n + count))
            self.n += count
            return out
        out = self.r.sample(range(0, 40), count)
        return out


def gen_prim(r):
    return ("p", r.choice(PRIMS))


def gen_plain_struct(r, ids, depth):
    """type of a struct-typed KEY member (copied whole into the key holder, never descended into); half of
    them have #[key] members of their own"""
    n = r.randint(1, 3)
    own_keys = r.random() < 0.5
    ms = []
    for i in ids.for_struct(n):
        ms.append((i, own_keys and r.random() < 0.6, False,
                   gen_key_member_type(r, ids, depth + 1, allow_struct=depth < 1)))
    return ("S", r.choice("ffa"), ms)


def gen_key_member_type(r, ids, depth=0, allow_struct=True):
    k = r.random()
    if k < 0.45:
        return gen_prim(r)
    if k < 0.62:
        return ("s", r.choice([0, 0, 0, 1, 3, 11, 12, 20, 255]))
    if k < 0.74:
        e = r.random()
        b = r.choice([0, 0, 1, 2, 3, 4, 12, 13, 100])
        if e < 0.6:
            return ("q", gen_prim(r), b)
        if e < 0.8 or not allow_struct:
            return ("q", ("s", r.choice([0, 4, 8])), b)
        return ("q", gen_plain_struct(r, ids, depth + 1), b)
    if k < 0.86:
        dims = [r.randint(1, 4)] if r.random() < 0.8 else [r.randint(1, 3), r.randint(1, 2)]
        e = r.random()
        if e < 0.7:
            return ("a", gen_prim(r), dims)
        if e < 0.85 or not allow_struct:
            return ("a", ("s", r.choice([0, 4])), dims)
        return ("a", gen_plain_struct(r, ids, depth + 1), dims)
    if allow_struct:
        return gen_plain_struct(r, ids, depth)
    return gen_prim(r)


def gen_topic_struct(r, ids, depth, ext=None):
    """a structure with key members, non-key members and nested structures that carry keys"""
    n = r.randint(1, 4)
    ms = []
    for i in ids.for_struct(n):
        k = r.random()
        if k < 0.45:
            ms.append((i, True, False, gen_key_member_type(r, ids, depth)))
        elif k < 0.70 and depth < 2:
            ms.append((i, False, False, gen_topic_struct(r, ids, depth + 1)))
        elif k < 0.75 and depth < 2:
            # optional nested structure: its keys are NOT part of the key holder
            ms.append((i, False, True, gen_topic_struct(r, ids, depth + 1)))
        else:
            ms.append((i, False, False, gen_key_member_type(r, ids, depth + 1, allow_struct=False)))
    return ("S", ext or r.choice("fffam"), ms)


def gen_topic_type(r, ext=None):
    mode = r.choice(["global", "global", "global", "explicit", "struct"])
    for _ in range(20):
        t = gen_topic_struct(r, Ids(r, mode), 0, ext)
        if key_member_count(t) > 0:
            return t
    return ("S", "f", [(0, True, False, ("p", "u32"))])


def codec_safe(t):
    """sample types on which the real XCDR codec returns the sample it was given (see KeyCorr.codec_ok)"""
    k = t[0]
    if k in ("p", "s"):
        return True
    if k == "q":
        return codec_safe(t[1])
    if k == "a":
        return len(t[2]) == 1 and codec_safe(t[1])
    return t[1] != "m" and all(codec_safe(m[3]) for m in t[2])


def gen_r_fields(r, t):
    return gen_fields(r, t)


def gen_safe_topic_type(r):
    for _ in range(200):
        t = gen_topic_type(r)
        if codec_safe(t):
            return t
    return FIXED_TYPES[0]


def key_members(t):
    out = []
    if t[0] == "S":
        for (i, key, opt, mt) in t[2]:
            if key:
                out.append((i, mt))
            elif mt[0] == "S" and not opt:
                out += key_members(mt)
    return out


def key_member_count(t):
    return len(key_members(t))


SPECIAL = {"f32": [0, 0x80000000, 0x7FC00000, 0x7F800000, 0x3F800000],
           "f64": [0, 0x8000000000000000, 0x7FF8000000000000, 0x3FF0000000000000]}


def gen_scalar(r, tag):
    lo, hi = RANGE[tag]
    k = r.random()
    if tag == "c8" and k < 0.04:
        # a char that does not fit one octet: the serializer writes `c as u32 as u8` (model: wrap_u8)
        return r.choice([256, 0x141, 0x7FF, 0x800, 0x20AC, 0xFFFF, 0x10000, 0x1F600, 0x10FFFF])
    if k < 0.25:
        return r.choice([lo, hi, 0, 1, min(hi, 2), max(lo, -1)])
    if k < 0.35 and tag in SPECIAL:
        return r.choice(SPECIAL[tag])
    if k < 0.6:
        return r.randint(max(lo, -3), min(hi, 300))
    return r.randint(lo, hi)


def gen_string(r, bound, hint=None):
    n = hint if hint is not None else r.choice([0, 1, 2, 3, 5, 10, 11, 12, 13, 20])
    if bound:
        n = min(n, bound)
    return [r.choice([0x61, 0x62, 0x7A, 0x30, 0x20, 0x00, 0x7F]) if r.random() < 0.3 else r.randint(0x20, 0x7E)
            for _ in range(n)]


def gen_count(r, bound):
    n = r.choice([0, 1, 1, 2, 3, 4, 5, 8, 12, 13, 17])
    if bound:
        n = min(n, bound)
    return n


def gen_elems(r, e, n):
    if e[0] == "p":
        return ("Q", TAG[e[1]], [gen_scalar(r, TAG[e[1]]) for _ in range(n)])
    if e[0] == "s":
        return ("X", [gen_string(r, e[1], r.choice([0, 1, 2, 3, 7])) for _ in range(n)])
    if e[0] == "S":
        return ("R", [gen_fields(r, e) for _ in range(n)])
    return ("Q", "u8", [1] * n)


def gen_value(r, t):
    k = t[0]
    if k == "p":
        return ("P", TAG[t[1]], gen_scalar(r, TAG[t[1]]))
    if k == "s":
        return ("x", gen_string(r, t[1]))
    if k == "q":
        return gen_elems(r, t[1], gen_count(r, t[2]))
    if k == "a":
        n = 1
        for d in t[2]:
            n *= d
        return gen_elems(r, t[1], n)
    return ("{", gen_fields(r, t))


def gen_fields(r, t):
    return [(i, gen_value(r, mt)) for (i, key, opt, mt) in t[2]]


def mutate_scalar(r, tag, z):
    lo, hi = RANGE[tag]
    for _ in range(8):
        c = r.choice([z + 1, z - 1, z ^ 1, z ^ 0x80, z ^ 0x100, -z, gen_scalar(r, tag)])
        if lo <= c <= hi and c != z:
            return c
    return z


def mutate_value(r, t, v):
    """a value of type t that differs from v in a small way (boundary-hunting), or a fresh one"""
    k = t[0]
    if r.random() < 0.2:
        return gen_value(r, t)
    if k == "p":
        return ("P", v[1], mutate_scalar(r, v[1], v[2]))
    if k == "s":
        s = list(v[1])
        c = r.random()
        if c < 0.3 and (not t[1] or len(s) < t[1]):
            s.append(r.choice([0, 0x61]))
        elif c < 0.5 and s:
            s.pop()
        elif s:
            j = r.randrange(len(s))
            s[j] = (s[j] + 1) % 128
        elif not t[1] or t[1] >= 1:
            s = [0]
        return ("x", s)
    if k in ("q", "a"):
        e = t[1]
        items = list(v[2]) if v[0] == "Q" else list(v[1])
        c = r.random()
        if k == "q" and c < 0.3 and (not t[2] or len(items) < t[2]):
            extra = gen_elems(r, e, 1)
            items.append(extra[2][0] if extra[0] == "Q" else extra[1][0])
        elif k == "q" and c < 0.5 and items:
            items.pop()
        elif items:
            j = r.randrange(len(items))
            if e[0] == "p":
                items[j] = mutate_scalar(r, TAG[e[1]], items[j])
            elif e[0] == "s":
                items[j] = mutate_value(r, e, ("x", items[j]))[1]
            else:
                items[j] = mutate_fields(r, e, items[j])
        if v[0] == "Q":
            return ("Q", v[1], items)
        return (v[0], items)
    return ("{", mutate_fields(r, t, v[1]))


def mutate_fields(r, t, d):
    d = list(d)
    if not d:
        return d
    j = r.randrange(len(d))
    mt = t[2][j][3]
    d[j] = (d[j][0], mutate_value(r, mt, d[j][1]))
    return d


def change_nonkey(r, t, d):
    """same key members, other members re-drawn"""
    out = []
    for (i, key, opt, mt), (fi, v) in zip(t[2], d):
        if key:
            out.append((fi, v))
        elif mt[0] == "S" and not opt:
            out.append((fi, ("{", change_nonkey(r, mt, v[1]))))
        else:
            out.append((fi, gen_value(r, mt)))
    return out


def change_one_key(r, t, d):
    """one key member (possibly nested) changed a little"""
    paths = []

    def walk(t, prefix):
        for j, (i, key, opt, mt) in enumerate(t[2]):
            if key:
                paths.append(prefix + [j])
            elif mt[0] == "S" and not opt:
                walk(mt, prefix + [j])
    walk(t, [])
    if not paths:
        return d
    p = r.choice(paths)

    def rec(t, d, p):
        d = list(d)
        j = p[0]
        mt = t[2][j][3]
        if len(p) == 1:
            d[j] = (d[j][0], mutate_value(r, mt, d[j][1]))
        else:
            d[j] = (d[j][0], ("{", rec(mt, d[j][1][1], p[1:])))
        return d
    return rec(t, d, p)


def malform(r, t, d):
    """drop a member, or store the wrong variant"""
    d = list(d)
    if not d:
        return d
    j = r.randrange(len(d))
    if r.random() < 0.5:
        del d[j]
    else:
        d[j] = (d[j][0], r.choice([("P", "u16", 7), ("x", [0x61]), ("Q", "i32", [1, 2]), ("{", [])]))
    return d


FIXED_TYPES = [
    # the repository's own two unit tests
    ("S", "f", [(0, False, False, ("S", "f", [(0, False, False, ("S", "f", [(0, True, False, ("p", "u8"))])),
                                               (1, True, False, ("p", "u16"))]))]),
    ("S", "f", [(0, True, False, ("S", "f", [(0, False, False, ("p", "u8")), (1, False, False, ("p", "u16"))]))]),
    # sizes around 16
    ("S", "f", [(0, True, False, ("p", "u64")), (1, True, False, ("p", "u64"))]),
    ("S", "f", [(0, True, False, ("p", "u64")), (1, True, False, ("p", "u64")), (2, True, False, ("p", "u8"))]),
    ("S", "f", [(0, True, False, ("p", "u8")), (1, True, False, ("p", "u64"))]),
    ("S", "f", [(0, True, False, ("p", "u32")), (1, True, False, ("p", "u64")), (2, True, False, ("p", "u8"))]),
    ("S", "f", [(0, True, False, ("p", "f128"))]),
    ("S", "f", [(0, True, False, ("p", "u8")), (1, True, False, ("p", "f128"))]),
    ("S", "f", [(0, True, False, ("s", 0))]),
    ("S", "f", [(0, True, False, ("s", 11))]),
    ("S", "f", [(0, True, False, ("s", 12))]),
    ("S", "a", [(0, True, False, ("s", 0)), (1, False, False, ("p", "i32"))]),
    ("S", "f", [(0, True, False, ("q", ("p", "y"), 0))]),
    ("S", "f", [(0, True, False, ("q", ("p", "u8"), 12))]),
    ("S", "f", [(0, True, False, ("q", ("p", "u8"), 13))]),
    ("S", "f", [(0, True, False, ("a", ("p", "u32"), [4]))]),
    ("S", "f", [(0, True, False, ("a", ("p", "u32"), [5]))]),
    ("S", "f", [(0, True, False, ("a", ("p", "u16"), [2, 4]))]),
    ("S", "f", [(0, True, False, ("p", "u16")), (1, True, False, ("s", 0)), (2, True, False, ("p", "u64"))]),
    # per-struct ids: nested key collides with outer key (same and different scalar type)
    ("S", "f", [(0, True, False, ("p", "u8")), (1, False, False, ("S", "f", [(0, True, False, ("p", "u8"))]))]),
    ("S", "f", [(0, True, False, ("p", "u16")), (1, False, False, ("S", "f", [(0, True, False, ("p", "u8"))]))]),
    ("S", "f", [(0, False, False, ("S", "f", [(0, True, False, ("s", 0))])), (1, False, False, ("p", "u8")),
                (2, False, False, ("S", "f", [(0, True, False, ("s", 0))]))]),
]

def _sensor(own_keys, ids=(10, 11)):
    return ("S", "f", [(ids[0], own_keys, False, ("p", "u32")), (ids[1], False, False, ("p", "u32"))])


def _struct_key_family():
    """a #[key] member of structure type, with / without #[key] members of its own, in first / middle / last
    position, followed by 0..2 further keys (seeded change C11b: the struct key must be copied whole and NOT
    descended into)"""
    out = []
    u32 = ("p", "u32")
    for own in (True, False):
        for ids in ((10, 11), (0, 1)):
            sk = _sensor(own, ids)
            out.append(("S", "f", [(0, True, False, sk), (1, True, False, u32), (2, False, False, u32)]))
            out.append(("S", "f", [(0, True, False, sk), (1, True, False, u32), (2, True, False, u32)]))
            out.append(("S", "a", [(0, True, False, u32), (1, True, False, sk), (2, True, False, u32),
                                   (3, False, False, u32)]))
            out.append(("S", "f", [(0, False, False, u32), (1, True, False, u32), (2, True, False, sk)]))
    # both members of the struct key are keys; struct key inside a non-key nested struct; two struct keys
    both = ("S", "f", [(10, True, False, ("p", "u16")), (11, True, False, ("p", "u16"))])
    out.append(("S", "f", [(0, True, False, both), (1, True, False, ("p", "u16")), (2, True, False, ("p", "u16"))]))
    out.append(("S", "f", [(0, False, False, ("S", "f", [(5, True, False, _sensor(True)), (6, True, False, u32)])),
                           (1, True, False, u32)]))
    out.append(("S", "f", [(0, True, False, _sensor(True)), (1, True, False, _sensor(True, (20, 21))),
                           (2, True, False, u32)]))
    return out


STRUCT_KEY_TYPES = _struct_key_family()

MD5_TYPE = ("S", "f", [(0, True, False, ("q", ("p", "y"), 0))])


SIM_TYPES = [
    # key members that are NOT the leading members (what a key-holder decode of the full sample gets wrong)
    ("S", "f", [(0, False, False, ("q", ("p", "y"), 0)), (1, True, False, ("p", "u32"))]),
    ("S", "a", [(0, False, False, ("p", "u32")), (1, True, False, ("p", "u32"))]),
    ("S", "f", [(0, False, False, ("s", 0)), (1, True, False, ("s", 0)), (2, False, False, ("p", "u8"))]),
    ("S", "a", [(0, False, False, ("s", 0)), (1, False, False, ("S", "f", [(2, False, False, ("p", "u8")),
                                                                          (3, True, False, ("p", "u8"))])),
                (4, True, False, ("s", 0))]),
    ("S", "f", [(0, True, False, ("p", "u8")), (1, False, False, ("p", "u64")), (2, True, False, ("p", "u16"))]),
    ("S", "f", [(0, False, False, ("a", ("p", "u16"), [3])), (1, True, False, ("q", ("p", "u8"), 0)),
                (2, True, False, ("p", "i64"))]),
    ("S", "f", [(0, False, False, ("p", "f64")), (1, True, False, ("S", "f", [(2, False, False, ("p", "u8")),
                                                                           (3, False, False, ("p", "u32"))]))]),
    # key first (control)
    ("S", "f", [(0, True, False, ("p", "u32")), (1, False, False, ("q", ("p", "y"), 0))]),
    # MUTABLE with small members: decoded by member id, position does not matter
    ("S", "m", [(0, False, False, ("p", "u32")), (1, True, False, ("p", "u32"))]),
]


def has_nonprefix_key(t):
    seen_nonkey = False
    for (i, key, opt, mt) in t[2]:
        if key:
            if seen_nonkey:
                return True
        elif mt[0] == "S" and not opt and key_member_count(mt) > 0:
            if seen_nonkey or has_nonprefix_key(mt) or not mt[2][0][1]:
                return True
            seen_nonkey = True
        else:
            seen_nonkey = True
    return False


def sim_case(r, t):
    """writes of a sample, of one with the same key and other non-key members, of one with a slightly
    different key; then a dispose and an unregister"""
    a = gen_fields(r, t)
    vals = [a, change_nonkey(r, t, a), change_one_key(r, t, a)]
    if r.random() < 0.3:
        vals.append(gen_fields(r, t))
    ops = [("w", v) for v in vals]
    if r.random() < 0.7:
        ops.append(("d", r.choice(vals)))
    if r.random() < 0.5:
        ops.append(("u", r.choice(vals)))
    mode = r.choice(["k", "k", "f4", "f8", "f16", "f64"])
    return ("s", t, mode, r.choice([1, 2]), ops)


def pair_cases(r, t, nvals, npairs):
    vals = [gen_fields(r, t) for _ in range(nvals)]
    out = []
    for _ in range(npairs):
        a = r.choice(vals)
        k = r.random()
        if k < 0.25:
            b = change_nonkey(r, t, a)
        elif k < 0.65:
            b = change_one_key(r, t, a)
        elif k < 0.70:
            b = malform(r, t, a)
        elif k < 0.75:
            b = a
        else:
            b = r.choice(vals)
        out.append(("h", t, a, b))
    return out


def gen(r, tier):
    n = {"quick": 2600, "search": 9000, "thorough": 30000}[tier]
    cases = []
    for t in STRUCT_KEY_TYPES:
        cases += pair_cases(r, t, 3, 6 if tier == "quick" else 30)
        cases.append(("r", t, gen_r_fields(r, t)))
    for t in FIXED_TYPES:
        cases += pair_cases(r, t, 6, 12 if tier == "quick" else 60)
        if codec_safe(t):
            for _ in range(3):
                cases.append(("r", t, gen_r_fields(r, t)))
    # MD5 differential: byte-sequence keys of every length around the block boundaries
    for ln in list(range(13, 140)) + [183, 184, 247, 248, 500]:
        if tier == "quick" and ln > 70 and ln % 3:
            continue
        a = [(0, ("Q", "u8", [r.randint(0, 255) for _ in range(ln - 4)]))]
        b = [(0, ("Q", "u8", [r.randint(0, 255) for _ in range(ln - 4)]))]
        cases.append(("h", MD5_TYPE, a, b))
    nsim = {"quick": 260, "search": 600, "thorough": 2500}[tier]
    sims = []
    for t in SIM_TYPES:
        for _ in range(6 if tier == "quick" else 20):
            sims.append(sim_case(r, t))
    for t in STRUCT_KEY_TYPES[::3]:
        sims.append(sim_case(r, t))
    while len(sims) < nsim:
        t = gen_safe_topic_type(r)
        if r.random() < 0.8 and not has_nonprefix_key(t):
            continue
        sims.append(sim_case(r, t))
    cases += sims
    while len(cases) < n:
        k = r.random()
        if k < 0.7:
            t = gen_topic_type(r)
            cases += pair_cases(r, t, 4, 6 if tier != "thorough" else 20)
        else:
            # reader-side derivations: sample types the XCDR codec handles (outside: corpus witnesses)
            t = gen_safe_topic_type(r)
            for _ in range(3):
                cases.append(("r", t, gen_r_fields(r, t)))
    # a few types outside the supported fragment / degenerate
    cases.append(("h", ("S", "f", [(0, True, False, ("q", ("q", ("p", "u8"), 0), 0))]),
                  [(0, ("Q", "u8", [1]))], [(0, ("Q", "u8", [1]))]))
    cases.append(("h", ("S", "f", [(0, False, False, ("p", "u8"))]), [(0, ("P", "u8", 1))], [(0, ("P", "u8", 2))]))
    return cases[:n + 2]


def corpus():
    t_str = ("S", "f", [(0, True, False, ("s", 0))])
    t_col = FIXED_TYPES[-3]
    t_col2 = FIXED_TYPES[-2]
    return [
        # C12-actual-length: unbounded string key "ab" is zero-padded, not hashed
        ("h", t_str, [(0, ("x", [0x61, 0x62]))], [(0, ("x", [0x61] * 12))]),
        # regression of C11-key-id-collision (fixed c1628d5): outer key 1 / 2 used to be ignored, nested key 7 written twice
        ("h", t_col, [(0, ("P", "u8", 1)), (1, ("{", [(0, ("P", "u8", 7))]))],
         [(0, ("P", "u8", 2)), (1, ("{", [(0, ("P", "u8", 7))]))]),
        ("h", t_col2, [(0, ("P", "u16", 1)), (1, ("{", [(0, ("P", "u8", 7))]))],
         [(0, ("P", "u16", 2)), (1, ("{", [(0, ("P", "u8", 7))]))]),
        # C11-reader-derivation-codec: MUTABLE + 8-byte member, two-dimensional array, nested MUTABLE; the optional-member
        # sample derives the right handle since addc370 (regression case)
        # (FLOAT128 in XCDR1 derives the right handle since 0b5427b: regression case)
        ("r", ("S", "m", [(5, True, False, ("p", "i64")), (7, True, False, ("a", ("p", "u8"), [3])),
                          (9, False, False, ("p", "u8"))]),
         [(5, ("P", "i64", -2)), (7, ("Q", "u8", [1, 2, 3])), (9, ("P", "u8", 1))]),
        ("r", ("S", "f", [(0, True, False, ("p", "u8")), (1, False, False, ("p", "f128"))]),
         [(0, ("P", "u8", 2)), (1, ("P", "f128", 238))]),
        ("r", ("S", "f", [(0, True, False, ("a", ("p", "u16"), [3, 2]))]),
         [(0, ("Q", "u16", [2, 203, 224, 23195, 113, 238]))]),
        ("r", ("S", "f", [(0, False, True, ("S", "f", [(2, True, False, ("p", "c8"))])), (1, True, False, ("p", "u32"))]),
         [(0, ("{", [(2, ("P", "c8", 10))])), (1, ("P", "u32", 2397364309))]),
        # before f05259a this sample made the XCDR2 decoder ask for 81 GB and abort; now a decode error
        ("r", ("S", "f", [(0, False, False, ("p", "c8")),
                          (1, False, False, ("S", "m", [(3, True, False, ("p", "u32")), (4, False, False, ("p", "b")),
                                                        (5, True, False, ("s", 1)), (6, True, False, ("p", "c8"))])),
                          (2, True, False, ("q", ("S", "a", [(7, False, False, ("a", ("p", "i16"), [3, 2])),
                                                             (8, False, False, ("s", 3)), (9, False, False, ("p", "i8"))]), 2))]),
         [(0, ("P", "c8", 0)),
          (1, ("{", [(3, ("P", "u32", 1689009301)), (4, ("P", "b", 1)), (5, ("x", [0x61])), (6, ("P", "c8", 0))])),
          (2, ("R", [[(7, ("Q", "i16", [-15694, 136, 6986, 157, -1468, -15181])), (8, ("x", [0x44])), (9, ("P", "i8", -13))],
                     [(7, ("Q", "i16", [27206, -28524, -32768, -13116, 32767, -24202])), (8, ("x", [0x7e, 0x79, 0x20])),
                      (9, ("P", "i8", 35))]]))]),
        # seeded change C11b: Reading{#[key] sensor: Sensor{#[key] id, gain}, #[key] channel, value}; the two samples
        # differ in `channel` only
        ("h", STRUCT_KEY_TYPES[0],
         [(0, ("{", [(10, ("P", "u32", 1)), (11, ("P", "u32", 2))])), (1, ("P", "u32", 3)), (2, ("P", "u32", 9))],
         [(0, ("{", [(10, ("P", "u32", 1)), (11, ("P", "u32", 2))])), (1, ("P", "u32", 4)), (2, ("P", "u32", 9))]),
        # whole stack, Alive sample without key hash, key after a non-key member (seeded change C11: the full
        # sample decoded with the key-holder type): fragmented, and with the key hash renamed in flight
        ("s", SIM_TYPES[0], "f64", 1,
         [("w", [(0, ("Q", "u8", list(range(70)))), (1, ("P", "u32", 7))]),
          ("w", [(0, ("Q", "u8", list(range(90)))), (1, ("P", "u32", 7))]),
          ("w", [(0, ("Q", "u8", list(range(70)))), (1, ("P", "u32", 9))])]),
        ("s", SIM_TYPES[1], "k", 2,
         [("w", [(0, ("P", "u32", 5)), (1, ("P", "u32", 7))]), ("w", [(0, ("P", "u32", 6)), (1, ("P", "u32", 7))]),
          ("w", [(0, ("P", "u32", 6)), (1, ("P", "u32", 8))]), ("d", [(0, ("P", "u32", 6)), (1, ("P", "u32", 7))]),
          ("u", [(0, ("P", "u32", 0)), (1, ("P", "u32", 8))])]),
        # a char8 that does not fit one octet, in a key and beside a key
        ("r", ("S", "f", [(0, True, False, ("q", ("p", "c8"), 0)), (1, False, False, ("p", "c8")), (2, True, False, ("p", "i64"))]),
         [(0, ("Q", "c8", [233, 8364, 65])), (1, ("P", "c8", 2048)), (2, ("P", "i64", 2))]),
    ]


def case_line(c):
    if c[0] == "s":
        return "s %s %d %s %s" % (c[2], c[3], type_text(c[1]), " ".join(o + fields_text(d) for o, d in c[4]))
    if c[0] == "h":
        return "h %s %s %s" % (type_text(c[1]), fields_text(c[2]), fields_text(c[3]))
    return "r %s %s" % (type_text(c[1]), fields_text(c[2]))

# ------------------------------------------------------------ line parser (replay)


class _P:
    def __init__(self, s):
        self.s, self.i = s, 0

    def peek(self):
        return self.s[self.i] if self.i < len(self.s) else ""

    def eat(self, c):
        assert self.peek() == c, (self.s, self.i, c)
        self.i += 1

    def int(self):
        st = self.i
        if self.peek() == "-":
            self.i += 1
        while self.peek().isdigit():
            self.i += 1
        return int(self.s[st:self.i])

    def word(self):
        st = self.i
        while self.peek().isalnum():
            self.i += 1
        return self.s[st:self.i]

    def hexbytes(self):
        st = self.i
        while self.peek() and self.peek() in "0123456789abcdef":
            self.i += 1
        h = self.s[st:self.i]
        return [int(h[j:j + 2], 16) for j in range(0, len(h), 2)]


def parse_type(p):
    c = p.peek()
    if c == "s":
        p.eat("s")
        return ("s", p.int())
    if c == "q":
        p.eat("q")
        b = p.int()
        p.eat("(")
        e = parse_type(p)
        p.eat(")")
        return ("q", e, b)
    if c == "a":
        p.eat("a")
        dims = [p.int()]
        while p.peek() == ",":
            p.eat(",")
            dims.append(p.int())
        p.eat("(")
        e = parse_type(p)
        p.eat(")")
        return ("a", e, dims)
    if c == "S":
        p.eat("S")
        x = p.peek()
        p.i += 1
        p.eat("{")
        ms = []
        while p.peek() != "}":
            i = p.int()
            p.eat(":")
            fl = p.word()
            p.eat(":")
            t = parse_type(p)
            ms.append((i, "k" in fl, "o" in fl, t))
            if p.peek() == ";":
                p.eat(";")
        p.eat("}")
        return ("S", x, ms)
    return ("p", p.word())


def parse_fields(p):
    p.eat("{")
    d = []
    while p.peek() != "}":
        i = p.int()
        p.eat("=")
        d.append((i, parse_value(p)))
        if p.peek() == ";":
            p.eat(";")
    p.eat("}")
    return d


def parse_value(p):
    c = p.peek()
    if c == "x":
        p.eat("x")
        return ("x", p.hexbytes())
    if c == "{":
        return ("{", parse_fields(p))
    if c == "Q":
        p.eat("Q")
        tag = p.word()
        p.eat("[")
        zs = []
        while p.peek() != "]":
            zs.append(p.int())
            if p.peek() == ",":
                p.eat(",")
        p.eat("]")
        return ("Q", tag, zs)
    if c == "X":
        p.eat("X")
        p.eat("[")
        ss = []
        while p.peek() != "]":
            p.eat("x")
            ss.append(p.hexbytes())
            if p.peek() == ",":
                p.eat(",")
        p.eat("]")
        return ("X", ss)
    if c == "R":
        p.eat("R")
        p.eat("[")
        ds = []
        while p.peek() != "]":
            ds.append(parse_fields(p))
            if p.peek() == ",":
                p.eat(",")
        p.eat("]")
        return ("R", ds)
    tag = p.word()
    p.eat(":")
    return ("P", tag, p.int())


def parse_line(line):
    parts = line.split()
    if parts[0] == "s":
        return ("s", parse_type(_P(parts[3])), parts[1], int(parts[2]),
                [(x[0], parse_fields(_P(x[1:]))) for x in parts[4:]])
    t = parse_type(_P(parts[1]))
    if parts[0] == "h":
        return ("h", t, parse_fields(_P(parts[2])), parse_fields(_P(parts[3])))
    return ("r", t, parse_fields(_P(parts[2])))

# ------------------------------------------------------------------ Coq terms


def hres_term(tok):
    if tok == "P":
        return "HP"
    if tok.startswith("E"):
        return "(HE %d)" % int(tok[1:])
    if len(tok) == 32 and all(ch in "0123456789abcdef" for ch in tok):
        return "(H %s)" % zl([int(tok[j:j + 2], 16) for j in range(0, 32, 2)])
    return None


def case_term(c, out):
    p = out.split()
    if not p or p[0] != "OK":
        return None
    hs = [hres_term(x) for x in p[1:]]
    if any(h is None for h in hs):
        return None
    if c[0] == "s":
        if len(hs) != 2 * len(c[4]):
            return None
        op = "OpS %s [%s]" % (type_term(c[1]), "; ".join(
            "(%s, %s)" % ({"w": "SW", "d": "SD", "u": "SU"}[o], fields_term(d)) for o, d in c[4]))
    elif c[0] == "h":
        if len(hs) != 2:
            return None
        op = "OpH %s %s %s" % (type_term(c[1]), fields_term(c[2]), fields_term(c[3]))
    else:
        if len(hs) != 7:
            return None
        op = "OpR %s %s" % (type_term(c[1]), fields_term(c[2]))
    return "mkKH (%s) [%s]" % (op, "; ".join(hs))


def nontrivial(c, out):
    p = out.split()
    if p and p[0] == "OK" and all(len(x) == 32 for x in p[1:]) and key_member_count(c[1]) > 0:
        return case_line(c)
    return None


def distribution(cases, outs):
    d = {}
    for c, o in zip(cases, outs):
        p = o.split()
        k = c[0]
        if c[0] == "s":
            k += "/" + ("keyhash-renamed" if c[2] == "k" else "data-frag") + "/xcdr%d" % c[3]
        if c[0] == "h" and len(p) == 3:
            k += "/same" if p[1] == p[2] else "/diff"
        if any(x.startswith("E") for x in p[1:]):
            k += "/err"
        if "P" in p[1:] or o.startswith("PANIC"):
            k += "/panic"
        if c[1][1] == "m":
            k += "/mutable"
        d[k] = d.get(k, 0) + 1
    return d


MANIFEST = {
    "text": ("Machine-checked proof (Coq) over a model of key_and_instance_handle.rs and the big-endian XCDR1 key "
             "serializer: equal key members give equal instance handles whatever the other members hold "
             "(unconditional); equal handles force equal key members or exhibit an explicit MD5 coincidence "
             "(injectivity and prefix-freeness of the key encoding, zero-padding lemma) for every keyed type in the "
             "supported fragment (the flattened key holder numbers its members afresh, so member ids of different "
             "structures cannot collide: former finding C11-key-id-collision, fixed). The reader-side derivation from the serialized key equals the writer-side handle. The model "
             "is tied to the code by building thousands of keyed DynamicTypes/DynamicData at run time, running the "
             "real writer-side and reader-side derivations (through a serialized RTPS DATA submessage with and "
             "without PID_KEY_HASH) and comparing every handle with the model inside Coq; the property oracle is "
             "applied to the implementation's own outputs."),
    "note": ("Trusted: Coq kernel + vm_compute; hand model KeyModel.v/Md5Model.v (checked against the code and the md5 "
             "crate by the correspondence run on every check); harness and comparator. Axioms: none. The reader-side "
             "derivations without key hash depend on the XCDR codec round trip (C09), assumed in the theorem and "
             "exercised on the real code. Known finding: C11-reader-derivation-codec (C11-key-id-collision is fixed)."),
    "technique": "Coq proof (structural induction, prefix-free encoding) + differential correspondence with oracle evaluated in Coq",
}
