"""C35 — entity handles stay unique and entity creation never panics."""
from props import _entity as E
from props._entity import case_line, parse_line, case_term  # noqa: F401  (used by vlib)

PID = "C35"
PROPS_FILE = "Props/C35.v"
CORR = "Entity.C35Corr"
CORR_MODULES = ["Entity.C35Corr"]
PREFIX = "C35"
CASE_TYPE = "ent_case"
HARNESS = "entity"
KNOWN = {}
RULE = ("one case = one scenario on the simulated stack: create/delete histories of participants, topics, content "
        "filtered topics, publishers, subscribers, writers and readers (10-300 calls, several participants, deletes "
        "in between, get_instance_handle probes), plus long ones that exhaust one id counter (256 and more "
        "publishers / subscribers created one by one or by the burn op; 65 536 and more topics / writers / readers by "
        "the burn op, which creates and deletes in a loop inside the harness) and go on using the participant "
        "afterwards; every creation prints the new instance handle; "
        "distinct = distinct scenario line; non-trivial = at least 8 successful creations and one successful delete")
TRUSTED = ["theories/Entity/EntityModel.v is a hand transcription of the entity-id construction in "
           "participant_methods.rs:40-96/131-185/222-300/355-405, publisher_methods.rs:29-125, "
           "subscriber_methods.rs:34-150 and of the counters in participant_entity.rs:57-62,231",
           "the quick tier runs the harness of the dev profile (overflow checks on); the thorough tier additionally "
           "builds it with --release (overflow-checks = false) and compares it with the model in the Release profile "
           "(since b2cf990 both behave alike: OutOfResources)",
           "RTPS GUIDs are not observable through the public API: the model builds them as the code does "
           "(Guid::new(prefix of the participant handle, entity_id), the same 16 bytes as the instance handle)"]
ASSUMPTIONS = ["fewer than 2^32 create_participant calls in a history: the participant instance number of the factory is an "
               "AtomicU32 incremented with fetch_add, which wraps",
               "hangs: a panic of the worker task would leave every later call of a real application waiting forever; "
               "the single-threaded simulator reports the panic itself (none occurs any more), STUCK results are "
               "violations"]


def random_history(r, big=False):
    m = E.Mirror()
    if r.random() < 0.2:
        m.emit("FQ %d" % r.randint(0, 1))
    for _ in range(r.choice([1, 1, 2, 3])):
        m.P()
    n = r.randint(40, 300) if big else r.randint(10, 60)
    name = [1]
    for _ in range(n):
        k = r.random()
        p = r.randrange(len(m.parts))
        if k < 0.14:
            m.T(p, name[0])
            name[0] += 1
        elif k < 0.30:
            m.G("PUB", p)
        elif k < 0.44:
            m.G("SUB", p)
        elif k < 0.66 and m.topics and (m.pubs or m.subs):
            sd = r.choice([s for s in ("PUB", "SUB") if m.groups(s)])
            g = r.randrange(len(m.groups(sd)))
            same = [i for i, t in enumerate(m.topics) if t["p"] == m.groups(sd)[g]["p"] and t["live"]]
            if same:
                spec = "def"
                ok = True
                if r.random() < 0.1:
                    spec, ok = "hist=5 mspi=2", False      # refused: the writer counter moves on all the same
                m.E(sd, g, r.choice(same), spec, ok)
        elif k < 0.70 and m.topics:
            t = r.randrange(len(m.topics))
            m.CFT(m.topics[t]["p"], r.randint(1, 3), t)
        elif k < 0.78 and (m.ws or m.rs):
            sd = r.choice([s for s in ("PUB", "SUB") if m.eps(s)])
            m.delE(sd, r.randrange(len(m.eps(sd))))
        elif k < 0.84 and (m.pubs or m.subs):
            sd = r.choice([s for s in ("PUB", "SUB") if m.groups(s)])
            m.delG(sd, r.randrange(len(m.groups(sd))))
        elif k < 0.88 and m.topics:
            m.delT(r.randrange(len(m.topics)))
        elif k < 0.90:
            m.delall(p)
        elif k < 0.92:
            m.delP(p)
            if r.random() < 0.5:
                m.P()
        else:
            pools = [("P", len(m.parts)), ("T", len(m.topics)), ("PUB", len(m.pubs)), ("SUB", len(m.subs)),
                     ("W", len(m.ws)), ("R", len(m.rs))]
            pools = [x for x in pools if x[1] > 0]
            kd, cnt = r.choice(pools)
            m.emit("h %s %d" % (kd, r.randrange(cnt)))
    return m.ops


def u8_cases(r):
    out = []
    for kind, dele in (("PUB", "delPUB"), ("SUB", "delSUB")):
        # 256 creations one by one, nothing deleted
        out.append(["P 0"] + ["%s 0" % kind] * 257)
        # deleting in between does not help: the counter never decreases
        ops = ["P 0"]
        for i in range(257):
            ops += ["%s 0" % kind, "%s %d" % (dele, i)]
        out.append(ops)
        # burn then the last ones by hand, with a probe of the last handle
        k = r.randint(200, 254)
        out.append(["P 0", "burn%s 0 %d" % (kind, k)] + ["%s 0" % kind] * (256 - k) + ["h %s %d" % (kind, 254 - k)])
        out.append(["P 0", "burn%s 0 256" % kind, "gq P 0"])
        # the counter is per participant: 2 x 200 is fine
        out.append(["P 0", "P 0", "burn%s 0 200" % kind, "burn%s 1 200" % kind, "%s 0" % kind, "%s 1" % kind,
                    "burn%s 0 54" % kind, "%s 0" % kind, "%s 1" % kind])
    # publishers and subscribers have separate counters
    out.append(["P 0", "burnPUB 0 255", "SUB 0", "burnSUB 0 254", "SUB 0", "PUB 0"])
    return out


def u16_cases(tier):
    # (corpus() already exhausts the topic, writer and reader counters once in every tier)
    out = [["FQ 0", "P 0", "burnT 0 65535", "T 0 1", "T 0 2", "gq P 0"]]
    if tier != "quick":
        out += [
            ["P 0", "burnT 0 65534", "T 0 1", "h T 0", "T 0 2", "T 0 3"],
            # content filtered topics share the topic counter
            ["FQ 0", "P 0", "T 0 1", "burnT 0 65533", "CFT 0 1 0", "T 0 2", "T 0 3", "CFT 0 2 0"],
            ["P 0", "T 0 1", "PUB 0", "burnW 0 0 65535", "W 0 0", "W 0 0"],
            # a refused writer consumes a counter value, a refused reader does not
            ["P 0", "T 0 1", "PUB 0", "burnW 0 0 65534", "W 0 0 hist=5 mspi=2", "W 0 0", "W 0 0"],
            ["P 0", "T 0 1", "SUB 0", "burnR 0 0 65535", "R 0 0", "R 0 0"],
            ["P 0", "T 0 1", "SUB 0", "burnR 0 0 65534", "R 0 0 hist=5 mspi=2", "R 0 0", "R 0 0", "R 0 0"],
            # writers of two publishers share the participant's writer counter
            ["P 0", "T 0 1", "PUB 0", "PUB 0", "burnW 0 0 40000", "burnW 1 0 25535", "W 0 0", "W 1 0"],
        ]
    return out


def gen(r, tier):
    n = {"quick": 110, "search": 400, "thorough": 2000}[tier]
    cases = u16_cases(tier) + u8_cases(r)     # the slow ones first so that the shards start them early
    k = 0
    while len(cases) < n:
        cases.append(random_history(r, big=(k % 5 == 0)))
        k += 1
    return cases


def release_cases():
    return [
        # before b2cf990 the 257th publisher got the handle of the first one, which is alive; now E5
        ["P 0"] + ["PUB 0"] * 257 + ["h PUB 0", "h PUB 256", "gq PUB 0", "gq PUB 256"],
        ["P 0"] + ["SUB 0"] * 257 + ["h SUB 0", "h SUB 256"],
        # with deletions in between nothing is alive twice: no duplicate, no panic
        ["P 0", "burnPUB 0 300", "PUB 0", "PUB 0", "h PUB 0"],
        ["P 0", "T 0 1", "PUB 0", "W 0 0", "burnW 0 0 65535", "W 0 0", "h W 0", "h W 1"],
        ["FQ 0", "P 0", "T 0 1", "burnT 0 65535", "T 0 2", "h T 0", "h T 1"],
        parse_line("P 0 ; T 0 1 ; PUB 0 ; SUB 0 ; W 0 0 ; R 0 0 ; delW 0 ; W 0 0 ; h W 1"),
    ]


def extra(ctx, binary):
    """thorough tier: the same harness built WITHOUT overflow checks (cargo --release, profile.release
    overflow-checks = false) against the model in the Release profile; a build problem is reported as an
    assumption, never as a violation"""
    if ctx.tier != "thorough":
        return
    import os
    import subprocess
    from vlib import core
    tdir = os.path.join(core.CACHE, "target_entity_release")
    env = dict(os.environ, RUSTFLAGS="--cfg " + core.GUARD, CARGO_TARGET_DIR=tdir, CARGO_NET_OFFLINE="true")
    try:
        p = subprocess.run(["cargo", "build", "--offline", "--quiet", "--release", "--bin", HARNESS], cwd=core.HARNESS,
                           env=env, timeout=2400, stdout=subprocess.PIPE, stderr=subprocess.STDOUT, text=True)
        ok = p.returncode == 0
    except subprocess.TimeoutExpired:
        ok = False
    rb = os.path.join(tdir, "release", HARNESS)
    if not ok or not os.path.exists(rb):
        ctx.assumptions.append("the release (no overflow checks) harness could not be built in time: the wrap-around "
                               "behaviour is claimed on the model only in this run")
        return
    cases = release_cases()
    lines = [case_line(c) for c in cases]
    outs = core.run_harness(rb, HARNESS, lines)
    terms, keep = [], []
    for c, o in zip(cases, outs):
        t = case_term(c, o)
        if t is None:
            ctx.violations.append(("impl-crash", "release harness output %r on case %s" % (o, case_line(c)),
                                   {"case": case_line(c), "impl_output": o, "harness": HARNESS + " (release)"}))
        else:
            terms.append(t)
            keep.append(c)
    mb, ob, err = core.coq_eval_cases(ctx, CORR, "C35R", CASE_TYPE, terms, tag="release")
    if err:
        ctx.broken.append("release correspondence evaluation failed: " + err[-400:])
    for i in mb:
        ctx.broken.append("release profile: implementation differs from the Release model on: " + case_line(keep[i]))
    known = core.known_ids(ctx.pid)
    for i, cls in ob:
        fid = KNOWN.get(cls)
        if fid is not None and fid in known:
            ctx.known_seen.setdefault(fid, case_line(keep[i]))
        else:
            ctx.violations.append(("oracle", "release profile: oracle rejects " + case_line(keep[i]),
                                   {"case": case_line(keep[i]), "harness": HARNESS + " (release)"}))
    ctx.cov["release_profile_evaluations"] = len(cases)


def corpus():
    return [
        parse_line("P 0 ; T 0 1 ; PUB 0 ; SUB 0 ; W 0 0 ; R 0 0 ; W 0 0 ; R 0 0 ; h W 1 ; h R 1 ; h PUB 0 ; h T 0 ; h P 0 ; "
                   "delW 0 ; W 0 0 ; delPUB 0 ; PUB 0 ; W 1 0 ; h W 3"),
        # regression of the former finding C35-counter-overflow (fixed by b2cf990): the creation that exhausts a
        # counter returns OutOfResources (E5), nothing panics, and the participant still answers
        ["P 0", "burnPUB 0 254", "PUB 0", "PUB 0", "PUB 0", "gq P 0", "SUB 0", "h PUB 0", "gq PUB 0", "delPUB 0", "PUB 0"],
        ["P 0", "burnSUB 0 255", "SUB 0", "gq P 0", "PUB 0", "T 0 1", "W 0 0"],
        ["P 0", "burnT 0 65534", "T 0 1", "T 0 2", "T 0 3", "gq P 0", "gq T 0", "PUB 0", "W 0 0"],
        ["P 0", "T 0 1", "PUB 0", "burnW 0 0 65535", "W 0 0", "W 0 0", "gq PUB 0", "SUB 0", "R 0 0"],
        ["P 0", "T 0 1", "SUB 0", "burnR 0 0 65535", "R 0 0", "R 0 0", "gq SUB 0"],
    ]


def nontrivial(c, out):
    made = sum(1 for x in out.split("|") if x.split() and x.split()[0] in ("P", "T", "PUB", "SUB", "W", "R")
               and len(x.split()) == 2 and not x.split()[1].startswith("E"))
    if made >= 8 and "del 0" in out:
        return case_line(c)
    return None


def distribution(cases, outs):
    d = {"ops": 0, "creations": 0, "panics": 0, "burn_iterations": 0, "max_ops_in_one_scenario": 0}
    for c, o in zip(cases, outs):
        d["ops"] += len(c)
        d["max_ops_in_one_scenario"] = max(d["max_ops_in_one_scenario"], len(c))
        for x in o.split("|"):
            t = x.split()
            if not t:
                continue
            if t[0] in ("P", "T", "PUB", "SUB", "W", "R") and len(t) == 2 and not t[1].startswith("E"):
                d["creations"] += 1
            if t[0] == "PANIC":
                d["panics"] += 1
            if t[0] == "b":
                d["burn_iterations"] += int(t[1])
    return d


MANIFEST = {
    "text": ("Machine-checked proof (Coq) over a model of the entity-id construction (u8 publisher/subscriber counters, "
             "u16 writer/reader/topic counters incremented with checked_add, handle = participant prefix + counter bytes "
             "+ kind) for ALL histories of mails and ALL application-level scenarios, in both build profiles: no "
             "creation panics - it returns a handle or an error, OutOfResources once the id counter of its kind is "
             "exhausted, and then changes nothing - and all live entities have pairwise distinct instance handles "
             "and RTPS GUIDs (invariant by induction; the only premise is fewer than 2^32 create_participant calls, "
             "whose AtomicU32 instance number wraps). The model is tied to the code by running create/delete "
             "scenarios (up to 65 536 creations in one scenario, going on after the counter is exhausted) through "
             "the real stack in the simulator and comparing every returned handle / error with the model inside "
             "Coq; the uniqueness oracle is applied to the implementation's own handles."),
    "note": ("Trusted: Coq kernel + vm_compute; hand model EntityModel.v (checked against the code by the correspondence "
             "run on every check); simulator harness; the build without overflow checks is executed in the thorough "
             "tier only. Axioms: none. The former finding C35-counter-overflow (panic at the 256th publisher / "
             "65 536th topic, handle reuse in release builds) was repaired by b2cf990 and is kept as regression "
             "scenarios."),
    "technique": "Coq proof (handle invariant by induction over all mail histories, Debug/Release profile parameter) "
                 "+ differential correspondence on the simulated stack with the uniqueness oracle evaluated in Coq",
}
