"""C24 — Exclusive ownership: only the strongest live writer affects an instance."""
from props._reader import *  # noqa
from props import _reader

PID = "C24"
PROPS_FILE = "Props/C24.v"
PREFIX = "C24"
KNOWN = {1: "C24-nonowner-state", 2: "C24-nowriters-multiwriter"}
RULE = ("a case is a reader QoS with EXCLUSIVE ownership (75 % of the cases; otherwise a mix of the other reader "
        "QoS) plus a sequence of 1-40 operations: add/remove_matched_publication of 1-3 writers with strengths in "
        "{0,1,2,5,7} (equal strengths included), add_reader_change of ALIVE / DISPOSED / UNREGISTERED changes from "
        "these writers over 1-4 instances, read/take/next_instance, run on a fresh real UserDefinedDataReader; "
        "distinct = distinct operation line; non-trivial = at least two adds, one read/take and one stored sample")
gen = _reader.gen_for("ownership")


def corpus():
    return [
        # class 1: weaker writer's unregister is NotAdded but flips the instance state
        parse_line("Q 0 0 -1 -1 -1 1 0 ; M 1 5 ; M 2 0 ; A 1 1 0 12 101 20 ; A 2 1 3 28 103 27 ; R 10 3 3 7 -1"),
        # class 2: the owner's unregister is stored -> NO_WRITERS although writer 1 is still registered
        parse_line("Q 0 0 -1 -1 -1 1 0 ; M 1 5 ; M 2 7 ; A 1 1 0 10 100 10 ; A 2 1 0 20 101 20 ; A 2 1 3 30 102 30 ; "
                   "R 10 3 3 7 -1"),
        # tie refused, stronger takes over, old owner refused, owner's dispose releases, weak accepted,
        # owner unmatched releases, other accepted
        parse_line("Q 0 0 -1 -1 -1 1 0 ; M 1 5 ; M 2 7 ; M 3 5 ; A 1 1 0 10 100 10 ; A 3 1 0 11 101 11 ; "
                   "A 2 1 0 12 102 12 ; A 1 1 0 13 103 13 ; A 2 1 2 14 104 14 ; A 3 1 0 15 105 15 ; U 3 ; "
                   "A 1 1 0 16 106 16 ; R 10 3 3 7 -1"),
        # regression of the two fixed defects (33ec7aa, 416ae4e)
        parse_line("Q 0 0 -1 -1 -1 1 0 ; M 1 10 ; M 2 5 ; A 1 1 0 10 100 10 ; U 1 ; A 2 1 0 20 101 20 ; R 10 3 3 7 -1"),
        parse_line("Q 0 0 -1 -1 -1 1 0 ; M 1 5 ; M 2 2 ; A 1 1 0 10 100 10 ; A 1 1 3 20 101 20 ; A 2 1 0 30 102 30 ; "
                   "R 10 3 3 7 -1"),
        # fixed 9c92a58 (replays/C24-a01b301e15): the owner's dispose is Rejected (mspi=1) and must not release
        # the instance: writer 2 (strength 1) stays NotAdded, also after the owner's sample was taken
        parse_line("Q 1 0 2 2 1 1 0 ; M 1 2 ; M 2 1 ; M 3 5 ; A 3 1 0 11 101 13 ; A 3 1 2 23 102 16 ; "
                   "A 2 1 0 30 103 18 ; T 2147483647 3 3 7 1 ; A 2 1 0 5 104 18 ; R 10 3 3 7 -1"),
        # same mechanism through the time-based filter: the stronger writer's sample is filtered, no take-over
        parse_line("Q 0 0 -1 -1 -1 1 10 ; M 1 1 ; M 2 5 ; A 1 1 0 10 100 10 ; A 2 1 0 12 101 12 ; A 1 1 0 25 102 25 ; "
                   "R 10 3 3 7 -1"),
        # strength changed by a re-match: the former weaker writer becomes stronger
        parse_line("Q 0 0 -1 -1 -1 1 0 ; M 1 5 ; M 2 1 ; A 1 1 0 10 100 10 ; A 2 1 0 11 101 11 ; M 2 7 ; "
                   "A 2 1 0 12 102 12 ; A 1 2 0 13 103 13 ; R 10 3 3 7 -1"),
    ]


MANIFEST = {
    "text": ("PARTIAL: the ownership rule of add_reader_change and remove_matched_publication is proved; the "
             "hand-over when the owner misses its DEADLINE (check_missed_reader_deadline in discovery_methods.rs "
             "removes the ownership entry) lies outside the shared reader model and is not covered. "
             "Coq proof over the model of the reader cache: for every QoS with EXCLUSIVE ownership and every "
             "operation history (add_reader_change with every branch, read/take, next_instance, match/unmatch), with "
             "entitled = 'the instance has no owner, or the writer is the owner, or it is strictly stronger than the "
             "owner': a change from a writer that is not entitled (in particular strength <= the owner's, ties "
             "included) is NotAdded and leaves cache and ownership table unchanged; a change from an entitled writer "
             "alters ownership exactly when it is stored: a strictly stronger matched writer then becomes the owner "
             "of exactly that instance (and is Added when no other gate is configured), while a change refused by the "
             "time-based filter or a resource limit leaves the ownership table unchanged (for all QoS; fix 9c92a58); every "
             "stored change was written by an entitled writer, which is the owner afterwards; when the stored change "
             "is the owner's dispose/unregister, or when the owner is unmatched, the ownership is released and the "
             "next writer of any strength is entitled; at most one owner per instance in every reachable state "
             "(invariant). The model is tied to the code by exact comparison (return values, cache, ownership table) "
             "on generated histories, evaluated inside Coq; the ownership oracle (ReaderCorr.own_walk, an independent "
             "owner/strength automaton) judges every accept/reject decision of the real reader and is never excused."),
    "note": ("Trusted: Coq kernel, hand model ReaderModel.v (correspondence-checked each run), harness, generator. "
             "Axioms: none. Recorded deviations of the real code, both about the instance STATE and not about which "
             "samples are stored: C24-nonowner-state (update_state runs before the ownership test, a non-owner's "
             "dispose/unregister flips the instance state; witness theorem), C24-nowriters-multiwriter (no per-instance "
             "writer set, see C22). Not modelled: deadline-based hand-over, liveliness loss of the owner (reaches the "
             "reader as remove_matched_publication, which is covered). A writer that is not matched can become owner "
             "of an instance without owner (the gate looks strengths up only when an owner exists); the oracle does "
             "not judge data from unmatched writers. Defects fixed: 33ec7aa, 416ae4e, 9c92a58 (ownership committed before the filter/limit gates)."),
    "technique": "Coq proof (ownership rule and uniqueness invariant by induction over operation histories) + differential correspondence",
}
