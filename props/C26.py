"""C26 — content-filtered readers present exactly the samples that pass the filter."""
from vlib.core import cz

PID = "C26"
PROPS_FILE = "Props/C26.v"
CORR = "Cache.FilterCorr"
CORR_MODULES = ["Cache.FilterCorr"]
PREFIX = "C26"
CASE_TYPE = "C26_case"
HARNESS = "cft"
KNOWN = {}
RULE = ("one case = one simulated two-participant scenario through the public async API: a writer on the related "
        "topic, 1-4 readers of one subscriber (content-filtered or plain), 1-8 written/disposed changes delivered "
        "in a chosen arrival grouping (several DATA submessages merged into one datagram per group), then read() "
        "on every reader; distinct = distinct scenario line; non-trivial = at least one content-filtered reader in "
        "the supported forms rejects at least one sample and presents at least one")
TRUSTED = ["theories/Cache/FilterModel.v is a hand transcription of communication_methods.rs:46-375 (filter evaluation "
           "and per-reader batch loop) with add_reader_change abstracted for KEEP_ALL / unlimited / shared ownership",
           "harness/src/bin/cft.rs `netg` builds the multi-DATA datagrams by concatenating the submessages of the "
           "datagrams the real writer produced (dust-dds writers themselves send one DATA per datagram)"]
ASSUMPTIONS = ["filter expressions are ASCII (split_once/trim are modelled on bytes)",
               "supported forms: `member <= %n` and `member = %n` on int32 and string members; every other expression "
               "(>=, <, >, <>, literals, AND/OR, other member kinds -> todo!()) is outside the property's domain",
               "reader QoS KEEP_ALL, unlimited resource limits, no time-based filter (so a passing sample is always stored)"]

I32MIN, I32MAX = -2**31, 2**31 - 1
INT_FIELDS = ["num", "aux"]
STR_FIELDS = ["name", "tag"]
STRS = ["", "a", "ab", "abc", "b", "B", "RED", "RED ", "red", "5", "10", "é", "z"]
PADS = ["", " ", "  ", "\t"]


def hx(s):
    b = s.encode("utf-8")
    return b.hex() if b else "-"


def unhx(h):
    return b"" if h == "-" else bytes.fromhex(h)


def cstr(s):
    b = s if isinstance(s, (bytes, bytearray)) else s.encode("utf-8")
    return "[" + ";".join(str(x) for x in b) + "]"


def gen_int_param(r):
    return r.choice([0, 1, 5, -1, 7, 100, I32MAX, I32MIN, -3]) if r.random() < 0.8 else r.randint(I32MIN, I32MAX)


def fmt_int_param(r, v):
    k = r.random()
    if k < 0.1 and v >= 0:
        return "+%d" % v
    if k < 0.15:
        return ("-0" if v == 0 else ("-00%d" % -v if v < 0 else "00%d" % v))
    return str(v)


def supported_filter(r, nparams_max=1):
    """(expr, params, int_pivot, str_pivot) of a supported form; index 0 unless nparams_max > 1"""
    pad = lambda: r.choice(PADS)
    op = r.choice(["<=", "="])
    is_int = r.random() < 0.55
    field = r.choice(INT_FIELDS if is_int else STR_FIELDS)
    nparams = r.randint(1, nparams_max)
    idx = r.randrange(nparams)
    params = []
    piv_i = gen_int_param(r)
    piv_s = r.choice(STRS)
    for i in range(nparams):
        if is_int:
            v = piv_i if i == idx else gen_int_param(r)
            params.append(fmt_int_param(r, v))
        else:
            params.append(piv_s if i == idx else r.choice(STRS))
    expr = pad() + field + pad() + op + pad() + "%" + str(idx) + pad()
    return (expr, params, piv_i, piv_s)


def odd_filter(r):
    """expressions outside the supported forms that do not panic"""
    k = r.randrange(10)
    f = r.choice(INT_FIELDS + STR_FIELDS)
    p = [str(gen_int_param(r))] if f in INT_FIELDS else [r.choice(STRS)]
    if k == 0:
        return ("%s %s %%0" % (f, r.choice([">=", "<", ">", "<>", "!=", "LIKE"])), p)
    if k == 1:
        return ("nosuch %s %%0" % r.choice(["<=", "="]), p)
    if k == 2:
        return ("%s = %s" % (f, p[0]), p)             # literal on the right: code compares with parameter 0
    if k == 3:
        return ("%s <= %%0 AND aux = %%0" % f, p)     # compound: code evaluates the first comparison only
    if k == 4:
        return ("", p)
    if k == 5:
        return ("%s =< %%0" % f, p)
    if k == 6:
        return ("%s == %%0" % f, p)
    if k == 7:
        return ("%s <= %%3" % f, p)                   # index beyond the parameters
    if k == 8:
        return (r.choice(["%s = %%", "%s = %%+0", "%s <= %%99999999999999999999999", "%s = %%-0", "%s = %% 0", "%s = %%0x"]) % f, p)
    return ("Num = %0", [str(gen_int_param(r))])    # member names are case-sensitive


def panic_filter(r):
    k = r.randrange(6)
    if k == 0:
        return ("id = %0", ["1"])                     # UINT8 member: todo!()
    if k == 1:
        return ("small <= %0", ["1"])                 # INT16 member: todo!()
    if k == 2:
        return ("num = %0", [])                       # no parameter 0: rejected (was an index panic before 88b96b4)
    if k == 3:
        return ("num <= %0", [r.choice(["", " 5", "5 ", "abc", "2147483648", "-2147483649", "+", "-", "1e3", "0x10", "5.0", "+-5"])])
    if k == 4:
        return ("name = %0", [])
    return ("aux = %1", ["x", "5"])                   # parameter 1 is the number (parameter 0 is not parsed any more)


def gen_ops(r, n, piv_i, piv_s):
    ops, written = [], []
    near = [piv_i - 1, piv_i, piv_i + 1, I32MIN, I32MAX, 0]
    near = [x for x in near if I32MIN <= x <= I32MAX]
    sn = [piv_s, piv_s + "a", piv_s[:-1], "", "a", "RED", "zz"]
    for _ in range(n):
        if written and r.random() < 0.12:
            ops.append(("d", r.choice(written)))
            continue
        i = r.randint(1, 3)
        written.append(i)
        num = r.choice(near) if r.random() < 0.85 else r.randint(I32MIN, I32MAX)
        aux = r.choice(near) if r.random() < 0.85 else r.randint(I32MIN, I32MAX)
        ops.append(("w", i, num, r.choice(sn) if r.random() < 0.8 else r.choice(STRS),
                    aux, r.choice(sn) if r.random() < 0.8 else r.choice(STRS), r.randint(-3, 3)))
    return ops


def gen_groups(r, n, mode):
    if mode == "single":
        return [1] * n
    if mode == "all":
        return [n]
    g, left = [], n
    while left > 0:
        k = r.randint(1, min(left, 4))
        g.append(k)
        left -= k
    return g


def gen(r, tier):
    n = {"quick": 220, "search": 500, "thorough": 2500}[tier]
    cases = []
    # systematic: every two-sample batch [x; y] around the pivot, both operators, int and string
    for op in ("<=", "="):
        for (a, b) in ((4, 6), (6, 4), (5, 5), (6, 6), (6, 5)):
            cases.append(([("num %s %%0" % op, ["5"]), None],
                          [("w", 1, a, "a", 0, "", 0), ("w", 2, b, "a", 0, "", 0)], [2], 1))
        for (a, b) in (("RED", "REE"), ("REE", "RED"), ("RE", "RED"), ("REDa", "RED")):
            cases.append(([("name %s %%0" % op, ["RED"]), None],
                          [("w", 1, 0, a, 0, "", 0), ("w", 1, 0, b, 0, "", 0)], [2], 1))
    while len(cases) < n:
        k = r.random()
        nread = r.randint(1, 4)
        readers = []
        if k < 0.72:
            piv = None
            for _ in range(nread):
                q = r.random()
                if q < 0.7:
                    e, p, pi, ps = supported_filter(r, 1)
                    piv = piv or (pi, ps)
                    readers.append((e, p))
                elif q < 0.85:
                    readers.append(None)
                else:
                    readers.append(odd_filter(r))
            piv = piv or (5, "RED")
        elif k < 0.87:
            # parameter index other than 0 among ordinary readers
            e, p, pi, ps = supported_filter(r, 3)
            readers = [(e, p)] + [None] * (nread - 1)
            piv = (pi, ps)
        else:
            readers = [panic_filter(r)] + [None] * (nread - 1)
            r.shuffle(readers)
            piv = (1, "a")
        nops = r.randint(1, 8)
        ops = gen_ops(r, nops, piv[0], piv[1])
        mode = r.choice(["single", "all", "rand", "rand", "rand"])
        cases.append((readers, ops, gen_groups(r, len(ops), mode), 1 if r.random() < 0.75 else 0))
    return cases


def corpus():
    w = lambda i, n: ("w", i, n, "ab", 0, "", 0)
    return [
        # regression (C26-batch-dropped, fixed c4677f2): [fail; pass] in one group lost the passing sample
        ([("num <= %0", ["5"]), None], [w(1, 9), w(1, 4)], [2], 1),
        # same samples one per step: fine
        ([("num <= %0", ["5"]), None], [w(1, 9), w(1, 4)], [1, 1], 1),
        # pass; fail; pass with grouping [1,2]
        ([("num <= %0", ["5"])], [w(1, 3), w(2, 9), w(1, 4)], [1, 2], 1),
        # regression (C26-param-index-ignored, fixed 88b96b4)
        ([("num = %1", ["3", "9"])], [w(1, 3), w(2, 9)], [1, 1], 1),
        # the test of the repository
        ([("name = %0", ["RED"])], [("w", 1, 0, "RED", 0, "", 0), ("w", 2, 0, "BLUE", 0, "", 0)], [1, 1], 1),
    ]


def case_line(c):
    readers, ops, groups, rel = c
    s = ["P 0", "P 0", "T 0 t", "T 1 t"]
    for i, f in enumerate(readers):
        if f is not None:
            s.append("CFT 1 1 ft%d %s %s" % (i, hx(f[0]), " ".join(hx(p) for p in f[1])))
    s += ["PUB 0", "SUB 1", "W 0 0 rel=%d" % rel]
    j = 0
    for f in readers:
        if f is None:
            s.append("R 0 1 rel=%d" % rel)
        else:
            s.append("RC 0 %d rel=%d" % (j, rel))
            j += 1
    s += ["net", "adv 100000000", "net", "pm 0"]
    for o in ops:
        if o[0] == "w":
            s.append("w 0 %d %d %s %d %s %d" % (o[1], o[2], hx(o[3]), o[4], hx(o[5]), o[6]))
        else:
            s.append("d 0 %d" % o[1])
    s.append("netg " + " ".join(str(g) for g in groups))
    s.append("net")
    for i in range(len(readers)):
        s.append("r %d 0" % i)
    return " ; ".join(s)


def parse_line(line):
    ops = [x.strip() for x in line.split(";")]
    cfts, readers, wr, groups, rel = [], [], [], [], 1
    for o in ops:
        t = o.split()
        if t[0] == "CFT":
            cfts.append((unhx(t[4]).decode("utf-8"), [unhx(h).decode("utf-8") for h in t[5:]]))
        elif t[0] == "RC":
            readers.append(cfts[int(t[2])])
        elif t[0] == "R":
            readers.append(None)
        elif t[0] == "W":
            rel = int(t[3].split("=")[1])
        elif t[0] == "w":
            wr.append(("w", int(t[2]), int(t[3]), unhx(t[4]).decode("utf-8"), int(t[5]), unhx(t[6]).decode("utf-8"), int(t[7])))
        elif t[0] == "d":
            wr.append(("d", int(t[2])))
        elif t[0] == "netg":
            groups = [int(x) for x in t[1:]]
    return (readers, wr, groups, rel)


def cft_term(f):
    if f is None:
        return "None"
    return "(Some (mkCft %s [%s]))" % (cstr(f[0]), "; ".join(cstr(p) for p in f[1]))


def ch_term(o):
    if o[0] == "w":
        return "mkw %s %s %s %s %s %s" % (cz(o[1]), cz(o[2]), cstr(o[3]), cz(o[4]), cstr(o[5]), cz(o[6]))
    return "mkd %s" % cz(o[1])


def parse_read(seg):
    """`r N id num name aux tag small ... X ...` -> list of Coq item terms, or None"""
    t = seg.split()
    if not t or t[0] != "r":
        return None
    if t[1] == "E11":          # NoData
        return []
    if t[1].startswith("E") or t[1] == "STUCK":
        return None
    items, i = [], 2
    while i < len(t):
        if t[i] == "X":
            items.append("INoData 0")
            i += 1
        else:
            if i + 6 > len(t):
                return None
            items.append("IData (fdata %s %s %s %s %s %s)" % (
                cz(int(t[i])), cz(int(t[i + 1])), cstr(unhx(t[i + 2])), cz(int(t[i + 3])), cstr(unhx(t[i + 4])), cz(int(t[i + 5]))))
            i += 6
    if len(items) != int(t[1]):
        return None
    return items


def case_term(c, out):
    readers, ops, groups, rel = c
    if sum(groups) != len(ops):
        return None
    gs, i = [], 0
    for g in groups:
        gs.append("[" + "; ".join(ch_term(o) for o in ops[i:i + g]) + "]")
        i += g
    head = "mkC26 [%s] [%s] " % ("; ".join(cft_term(f) for f in readers), "; ".join(gs))
    if out.startswith("PANIC"):
        return head + "(Panic 0)"
    segs = [x.strip() for x in out.split("|")]
    want = len(case_line(c).split(";"))
    if len(segs) != want:
        return None
    # the set-up must have worked: entities created, writer matched with every reader, every write accepted
    for s in segs:
        t = s.split()
        if t and t[0] in ("P", "T", "CFT", "PUB", "SUB", "W", "R", "RC", "w", "d") and (len(t) < 2 or t[1] != "0"):
            return None
        if t and t[0] == "pm" and (len(t) < 4 or int(t[3]) != len(readers)):
            return None
        if t and t[0] == "netg" and int(t[2]) != len(ops):
            return None
    obs = []
    for s in segs[-len(readers):]:
        it = parse_read(s)
        if it is None:
            return None
        obs.append("[" + "; ".join(it) + "]")
    return head + "(Ok [%s])" % "; ".join(obs)


def nontrivial(c, out):
    readers, ops, groups, rel = c
    if out.startswith("PANIC"):
        return None
    segs = [x.strip() for x in out.split("|")]
    nw = sum(1 for o in ops if o[0] == "w")
    for f, s in zip(readers, segs[-len(readers):]):
        t = s.split()
        if f is not None and len(t) > 1 and t[1].isdigit() and 0 < int(t[1]) and s.count(" ") < 1 + 6 * nw:
            return case_line(c)
    return None


def distribution(cases, outs):
    d = {}
    for c, o in zip(cases, outs):
        readers, ops, groups, rel = c
        k = "panic" if o.startswith("PANIC") else ("grouped" if any(g > 1 for g in groups) else "one-per-step")
        k += "/rel" if rel else "/be"
        d[k] = d.get(k, 0) + 1
        d["readers=%d" % len(readers)] = d.get("readers=%d" % len(readers), 0) + 1
    return d


MANIFEST = {
    "text": ("Machine-checked proof (Coq) over a model of the content-filter evaluation and the per-reader batch loop of "
             "process_user_defined_received_cache_changes: the evaluator computes the `member <= %n` / `member = %n` "
             "predicate for int32 and string members for every parameter index n within the parameter list; for every "
             "list of samples and EVERY arrival grouping the reader presents exactly the samples that satisfy the filter, "
             "in order (so a failing sample never costs a passing one), and a reader on the plain topic presents all. "
             "The model is tied to the code by running whole-stack simulated scenarios (real writer, readers, RTPS "
             "messages; several DATA submessages per datagram, 1-4 readers per subscriber) and comparing every read() "
             "result with the model inside Coq; the property oracle is applied to the implementation's own output."),
    "note": ("Trusted: Coq kernel + vm_compute; hand model FilterModel.v; the simulator harness. Axioms: none. The two "
             "defects found here (C26-batch-dropped, C26-param-index-ignored) are fixed in /repo (c4677f2, 88b96b4) and "
             "kept as regression cases. Expressions outside the two supported forms are outside the domain (members "
             "of other kinds panic the worker through todo!(), a non-numeric parameter for an int32 member through expect)."),
    "technique": "Coq proof (induction over the arrival groups) + whole-stack simulation correspondence with oracle in Coq",
}
