"""C39 — compatible type evolution preserves common members; assignability is reflexive and
agrees with decoding."""
from vlib.core import cz, cbool

PID = "C39"
PROPS_FILE = "Props/C39.v"
CORR = "Xcdr.AssignCorr"
CORR_MODULES = ["Xcdr.AssignCorr"]
PREFIX = "C39"
CASE_TYPE = "C39_case"
HARNESS = "c39"
KNOWN = {1: "C39-int-from-hashed-type", 2: "C39-nested-types-unchecked", 7: "C39-typed-sample-none"}
# repaired in /repo (numbers not reused): 3 nested-appendable-dheader-ignored e71c8f0, 4 member-id-u16 1abc6cd,
# 5 todo-type-identifier abb552f, 6 optional-mismatch 05c4a3c
RULE = ("one `ev` case = a reader type T1 and a writer type T2 built at run time (DynamicTypeBuilderFactory), the "
        "real CompleteTypeObject::from + is_assignable_from_w_type_consistency decision for (T1 := T2) under a "
        "TypeConsistencyEnforcementQosPolicy, a value serialized by the real serializer with T2 and deserialized by the "
        "real deserializer with T1; one `ty` case = the same on a catalogue of compile-time #[derive(DdsType)] type pairs "
        "plus the typed sample Reader::create_sample builds from the decoded data; one `as` case = the decision on two "
        "hand-built structure type objects (hostile flags / type identifiers); type objects, decision, bytes and decoded value are compared with the Coq model "
        "and the C39 oracle is applied to the implementation's outputs; distinct = distinct input line; non-trivial = "
        "`ev` with T1 != T2 that the code declares assignable, or an `as`/`ev` case it rejects")
TRUSTED = ["theories/Xcdr/AssignModel.v is a hand transcription of TypeIdentifier::/CompleteTypeObject::"
           "is_assignable_from_w_type_consistency (structure branch) and of From<DynamicType> for CompleteTypeObject "
           "(type_object.rs); the codec is theories/Xcdr/XcdrModel.v (property C09)",
           "serializer.rs/deserializer.rs are pub(crate): the harness compiles the two unchanged source files of "
           "/repo into the harness binary via #[path] against the public dust_dds::xtypes API",
           "equivalence hashes and names are opaque tokens in the model (the code only compares them for equality)"]
ASSUMPTIONS = ["covered family: top-level structures whose members are primitives and (w)strings, not optional, with "
               "distinct member ids < 2^28; final / appendable types in XCDR1 and XCDR2, mutable types in XCDR2 (XCDR1 "
               "mutable: see C09-stage3-mutable-union)",
               "a member that is absent from the decoded DynamicData stands for its default value (the typed sample "
               "built from it is a separate matter: known finding C39-typed-sample-none)",
               "strings are shorter than 1 GiB, the whole encoding shorter than 4 GiB; char8 values are one octet",
               "NOT covered: unions, optional members, collections, nested evolution (known findings 1-2), "
               "TryConstruct behaviours, string/sequence bounds at decode time, key-member type rules (TODO in the code)"]

PRIMS = ["b", "y", "u8", "i8", "u16", "i16", "u32", "i32", "u64", "i64", "f32", "f64", "f128", "c8"]
PRIM_COQ = {"b": "PBool", "y": "PByte", "u8": "PU8", "i8": "PI8", "u16": "PU16", "i16": "PI16", "u32": "PU32",
            "i32": "PI32", "u64": "PU64", "i64": "PI64", "f32": "PF32", "f64": "PF64", "f128": "PF128", "c8": "PChar8"}
PRIM_SK = {"b": "b", "y": "u8", "u8": "u8", "i8": "i8", "u16": "u16", "i16": "i16", "u32": "u32", "i32": "i32",
           "u64": "u64", "i64": "i64", "f32": "f32", "f64": "f64", "f128": "f128", "c8": "c8"}
SK_COQ = {"u8": "KU8", "i8": "KI8", "u16": "KU16", "i16": "KI16", "i32": "KI32", "u32": "KU32", "i64": "KI64",
          "u64": "KU64", "f32": "KF32", "f64": "KF64", "f128": "KF128", "c8": "KChar8", "b": "KBool"}
RANGE = {"u8": (0, 255), "i8": (-128, 127), "u16": (0, 65535), "i16": (-32768, 32767), "u32": (0, 2**32 - 1),
         "i32": (-2**31, 2**31 - 1), "u64": (0, 2**64 - 1), "i64": (-2**63, 2**63 - 1), "f32": (0, 2**32 - 1),
         "f64": (0, 2**64 - 1), "f128": (-2**127, 2**127 - 1), "b": (0, 1), "c8": (0, 255)}
EXT_COQ = {"F": "Final", "A": "Appendable", "M": "Mutable"}
EXT_FLAG = {"F": 1, "A": 2, "M": 4}
BOUNDS = [0, 0, 0, 1, 5, 255, 256, 1000, 2**32 - 1]

# tid representatives for the `as` matrix
TID_SIMPLE = ["none", "bool", "byte", "i8", "u8", "i16", "u16", "i32", "u32", "i64", "u64", "f32", "f64", "f128",
              "c8", "c16", "maps", "mapl", "scc", "dflt"]
TID_COQ = {"none": "TkNone", "bool": "TkBoolean", "byte": "TkByte", "i8": "TkInt8", "u8": "TkUint8",
           "i16": "TkInt16", "u16": "TkUint16", "i32": "TkInt32", "u32": "TkUint32", "i64": "TkInt64",
           "u64": "TkUint64", "f32": "TkFloat32", "f64": "TkFloat64", "f128": "TkFloat128", "c8": "TkChar8",
           "c16": "TkChar16", "maps": "TiMapSmall", "mapl": "TiMapLarge", "scc": "TiScc", "dflt": "TiDefault"}
PRIM_TID = {"b": "bool", "y": "byte", "u8": "u8", "i8": "i8", "u16": "u16", "i16": "i16", "u32": "u32", "i32": "i32",
            "u64": "u64", "i64": "i64", "f32": "f32", "f64": "f64", "f128": "f128", "c8": "c8"}

# ----------------------------------------------------------------------------- values

def rprim(r, sk):
    lo, hi = RANGE[sk]
    k = r.random()
    if k < 0.35:
        return r.choice([lo, hi, 0, 1, hi - 1, lo + 1, (lo + hi) // 2, 0x01020304 & hi, 0x0102030405060708 & hi])
    if k < 0.55:
        return max(lo, min(hi, r.randint(-300, 300)))
    return r.randint(lo, hi)


SCALARS = [0, 65, 97, 122, 127, 128, 0xE9, 0x7FF, 0x800, 0x20AC, 0xD7FF, 0xE000, 0xFFFF, 0x10000, 0x1F600, 0x10FFFF]


def rstr(r):
    k = r.random()
    n = 0 if k < 0.15 else r.choice([1, 2, 3, 4, 5, 7, 8, 17]) if k < 0.97 else 300
    if r.random() < 0.6:
        return [r.randint(32, 126) for _ in range(n)]
    return [r.choice(SCALARS) if r.random() < 0.5 else r.randint(0, 0xD7FF) for _ in range(n)]


def gen_value(r, t):
    k = t[0]
    if k == "p":
        sk = PRIM_SK[t[1]]
        return ("p", sk, rprim(r, sk))
    if k in ("s", "w"):
        return ("s", rstr(r))
    if k == "S":
        d = []
        for (mid, flags, name, mt) in t[3]:
            if flags & 1 and r.random() < 0.4:
                continue
            d.append((mid, gen_value(r, mt)))
        return ("d", sorted(d, key=lambda x: x[0]))
    raise ValueError(t)

# ----------------------------------------------------------------------------- types

def gen_mtype(r):
    k = r.random()
    if k < 0.72:
        return ("p", r.choice(PRIMS))
    if k < 0.9:
        return ("s", r.choice(BOUNDS))
    return ("w", r.choice(BOUNDS))


def fresh(r, used, big=False):
    while True:
        k = r.random()
        if k < 0.55:
            x = r.randint(0, 12)
        elif k < 0.85 or not big:
            x = r.choice([16383, 16384, 255, 256, 65535, 1000, 40000]) if r.random() < 0.4 else r.randint(0, 65535)
        else:
            x = r.choice([65536, 65537, 2**28 - 1, 131072]) if r.random() < 0.6 else r.randint(65536, 2**28 - 1)
        if x not in used:
            used.add(x)
            return x


def gen_struct(r, ext, tname=1, nmin=1, big_ids=False, flat_flags=True):
    n = r.choice([nmin, 1, 2, 2, 3, 3, 4, 5, 6])
    n = max(n, nmin)
    ids, names = set(), set()
    seq = r.random() < (0.75 if ext != "M" else 0.35)
    ms = []
    for i in range(n):
        mid = i if seq else fresh(r, ids, big_ids and ext == "M")
        ids.add(mid)
        name = fresh(r, names)
        flags = 0
        if r.random() < 0.12:
            flags |= 2
        if r.random() < 0.12:
            flags |= 4
        if r.random() < 0.1:
            flags |= 8
        ms.append((mid, flags, name, gen_mtype(r)))
    return ("S", ext, tname, ms)


def used_ids(t):
    return set(m[0] for m in t[3])


def used_names(t):
    return set(m[2] for m in t[3])


def new_member(r, ids, names, plain=True, big=False):
    flags = 0
    if not plain:
        flags = r.choice([2, 4, 6, 0])
    if r.random() < 0.1:
        flags |= 8
    return (fresh(r, ids, big), flags, fresh(r, names), gen_mtype(r))


def evolve_ok(r, t):
    """a legitimate evolution of t (same extensibility): the result is (reader, writer) in either role"""
    ext, tname, ms = t[1], t[2], list(t[3])
    ids, names = used_ids(t), used_names(t)
    if ext == "F":
        # only flags that do not take part may change: nothing to evolve; rename the type
        return ("S", ext, tname + 1, ms)
    if ext == "A":
        k = r.choice([1, 1, 2, 3])
        seq = all(m[0] == i for i, m in enumerate(ms))
        extra = []
        for j in range(k):
            m = new_member(r, ids, names)
            if seq:
                m = (len(ms) + j, m[1], m[2], m[3])
            extra.append(m)
        return ("S", ext, tname, ms + extra)
    # mutable: remove some non-key / non-must-understand members (keep one), add some, reorder
    keep = [m for m in ms if (m[1] & 6) or r.random() < 0.7]
    if not keep:
        keep = [r.choice(ms)]
    add = [new_member(r, ids, names, big=False) for _ in range(r.choice([0, 1, 1, 2]))]
    out = keep + add
    r.shuffle(out)
    return ("S", ext, tname, out)


OTHER_PRIM = {"i32": ["i64", "u32", "i16", "f32"], "u8": ["i8", "y", "b", "c8"], "i64": ["u64", "f64", "i32"],
              "u16": ["i16", "u8", "u32"], "f32": ["u32", "f64"], "b": ["u8", "y"], "y": ["u8", "i8"],
              "c8": ["u8", "i8"]}


def mutate_bad(r, t):
    """an evolution that the XTypes rules reject (mostly) or that changes the decision input"""
    ext, tname, ms = t[1], t[2], list(t[3])
    ids, names = used_ids(t), used_names(t)
    k = r.random()
    i = r.randrange(len(ms))
    mid, flags, name, mt = ms[i]
    if k < 0.2:
        # change the type of a member
        if mt[0] == "p":
            nt = ("p", r.choice(OTHER_PRIM.get(mt[1], [p for p in PRIMS if p != mt[1]])))
        elif mt[0] == "s":
            nt = r.choice([("w", mt[1]), ("p", "u32"), ("s", r.choice(BOUNDS))])
        else:
            nt = r.choice([("s", mt[1]), ("p", "u16"), ("w", r.choice(BOUNDS))])
        ms[i] = (mid, flags, name, nt)
    elif k < 0.3:
        ms[i] = (mid, flags, fresh(r, names), mt)                   # rename
    elif k < 0.4:
        ms[i] = (fresh(r, ids), flags, name, mt)                    # change id, keep name
    elif k < 0.5:
        ms.insert(r.randrange(len(ms) + 1), new_member(r, ids, names, plain=False))   # insert anywhere, maybe key
    elif k < 0.6:
        if len(ms) > 1:
            del ms[i]                                               # remove anywhere
        else:
            ms[i] = (mid, flags ^ 2, name, mt)
    elif k < 0.68:
        ms[i] = (mid, flags ^ r.choice([2, 4, 1]), name, mt)        # flip key / must_understand / optional
    elif k < 0.76:
        ext = r.choice([e for e in "FAM" if e != ext])              # other extensibility
    elif k < 0.84:
        # no common member at all
        ms = [new_member(r, ids, names) for _ in range(r.choice([1, 2, 3]))]
    elif k < 0.90:
        # name clash: a new member re-using an existing name
        m = new_member(r, ids, names)
        ms.append((m[0], m[1], name, m[3]))
    elif k < 0.96:
        # a one-sided member (appended at the end) that is key / must_understand
        m = new_member(r, ids, names)
        if all(x[0] == j for j, x in enumerate(ms)):
            m = (len(ms), m[1], m[2], m[3])
        ms.append((m[0], (m[1] & 8) | r.choice([2, 4, 6]), m[2], m[3]))
    else:
        r.shuffle(ms)                                               # reorder (fine for mutable)
    return ("S", ext, tname, ms)


def norm(t):
    """try_construct = USE_DEFAULT changes the FINAL-structure reader (NotEnoughData ends the structure), which
    the codec model of C09 does not describe: keep it to appendable / mutable types, where it changes nothing"""
    if t[1] != "F":
        return t
    return ("S", t[1], t[2], [(i, f & ~8, nm, mt) for i, f, nm, mt in t[3]])


def has_prim(t, p):
    return any(m[3] == ("p", p) for m in t[3])


def gen_tc(r):
    k = r.random()
    if k < 0.6:
        return 3
    if k < 0.75:
        return 7
    return r.choice([0, 1, 2, 4, 5, 6, 11, 19, 35, 63])


def pick_enc(r, t1, t2):
    ver = 2
    if t1[1] != "M" and t2[1] != "M" and r.random() < 0.35:
        if not any(m[1] & 1 for m in t1[3] + t2[3]):
            ver = 1
    return ver, r.choice(["le", "le", "be"])


def ev_case(r, t1, t2, tc=None):
    t1, t2 = norm(t1), norm(t2)
    ver, end = pick_enc(r, t1, t2)
    return ("ev", ver, end, gen_tc(r) if tc is None else tc, t1, t2, gen_value(r, t2))

# ------------------------------------------------------------------- hand-built type objects

def tid_of_mtype(mt):
    if mt[0] == "p":
        return (PRIM_TID[mt[1]],)
    if mt[0] == "s":
        return ("s8s", mt[1]) if mt[1] <= 255 else ("s8l", mt[1])
    if mt[0] == "w":
        return ("s16s", mt[1]) if mt[1] <= 255 else ("s16l", mt[1])
    return ("ekc", 0)


def cto_of_type(t):
    ms = []
    for (mid, flags, name, mt) in t[3]:
        mf = (2 if flags & 8 else 1) | (32 if flags & 2 else 0) | (16 if flags & 4 else 0) | (8 if flags & 1 else 0)
        ms.append((mid, mf, name, tid_of_mtype(mt)))
    return (EXT_FLAG[t[1]], t[2], ms)


def gen_tid(r, depth=2):
    k = r.random()
    if k < 0.5 or depth == 0:
        return (r.choice(TID_SIMPLE[1:16]),)
    if k < 0.58:
        return (r.choice(["none", "maps", "mapl", "scc", "dflt"]),)
    if k < 0.7:
        kind = r.choice(["s8s", "s8l", "s16s", "s16l"])
        return (kind, r.choice([0, 1, 5, 255]) if kind.endswith("s") else r.choice([0, 5, 256, 2**32 - 1]))
    if k < 0.8:
        kind = r.choice(["seqs", "seql"])
        return (kind, r.choice([0, 3, 255]) if kind == "seqs" else r.choice([0, 3, 1000]), gen_tid(r, depth - 1))
    if k < 0.88:
        kind = r.choice(["arrs", "arrl"])
        return (kind, [r.choice([1, 2, 3]) for _ in range(r.choice([1, 1, 2]))], gen_tid(r, depth - 1))
    return (r.choice(["ekc", "ekm"]), r.choice([1, 2, 3]))


def mutate_tid(r, t):
    k = r.random()
    if k < 0.3:
        return gen_tid(r)
    if t[0] in ("s8s", "s8l", "s16s", "s16l"):
        kind = r.choice([t[0], t[0][:-1] + ("l" if t[0].endswith("s") else "s")])
        b = r.choice([0, 1, 5, 255]) if kind.endswith("s") else r.choice([0, 5, 256, 2**32 - 1])
        return (kind, b)
    if t[0] in ("seqs", "seql"):
        kind = r.choice(["seqs", "seql"])
        b = r.choice([0, 3, 255]) if kind == "seqs" else r.choice([0, 3, 1000])
        return (kind, b, t[2] if r.random() < 0.6 else mutate_tid(r, t[2]))
    if t[0] in ("arrs", "arrl"):
        return (t[0], t[1] if r.random() < 0.6 else [r.choice([1, 2, 3]) for _ in t[1]],
                t[2] if r.random() < 0.6 else mutate_tid(r, t[2]))
    if t[0] in ("ekc", "ekm"):
        return (r.choice(["ekc", "ekm", "i32", "u8", "f32"]),) + ((r.choice([1, 2, 3]),) if r.random() < 2 else ())
    return gen_tid(r)


def fix_tid(t):
    """drop the hash argument from simple kinds produced by mutate_tid"""
    if t[0] in TID_SIMPLE:
        return (t[0],)
    if t[0] in ("seqs", "seql", "arrs", "arrl"):
        return (t[0], t[1], fix_tid(t[2]))
    return t


def gen_cto(r):
    n = r.choice([0, 1, 1, 2, 2, 3, 4])
    flags = r.choice([1, 2, 4]) if r.random() < 0.8 else r.randint(0, 31)
    ids, names = set(), set()
    ms = []
    for i in range(n):
        mid = i if r.random() < 0.6 else r.choice([0, 1, 2, 7, 65536, 2**28 - 1])
        mf = r.choice([1, 1, 2, 1 | 32, 1 | 16, 1 | 8, 1 | 8 | 16, 1 | 32 | 16, 3, 0, 127])
        ms.append((mid, mf, r.choice([0, 1, 2, 3, 4, 5]) if r.random() < 0.5 else fresh(r, names), gen_tid(r)))
    return (flags, r.choice([1, 1, 2]), ms)


def mutate_cto(r, c):
    flags, tname, ms = c[0], c[1], list(c[2])
    k = r.random()
    if k < 0.15:
        return c
    if k < 0.25:
        return (flags, tname + 1, ms)
    if k < 0.35:
        return (r.choice([1, 2, 4, flags ^ 8, flags | 4, 0, 7]), tname, ms)
    if ms and k < 0.6:
        i = r.randrange(len(ms))
        mid, mf, name, t = ms[i]
        ms[i] = (mid, mf, name, fix_tid(mutate_tid(r, t)))
        return (flags, tname, ms)
    if ms and k < 0.7:
        i = r.randrange(len(ms))
        mid, mf, name, t = ms[i]
        ms[i] = (mid, mf ^ r.choice([8, 16, 32, 3]), name if r.random() < 0.5 else name + 1, t)
        return (flags, tname, ms)
    if ms and k < 0.8:
        del ms[r.randrange(len(ms))]
        return (flags, tname, ms)
    if k < 0.9:
        ms.append((r.choice([0, 1, 2, 3, 9]), r.choice([1, 33, 17]), r.choice([0, 1, 2, 9]), gen_tid(r)))
        return (flags, tname, ms)
    r.shuffle(ms)
    return (flags, tname, ms)

# ----------------------------------------------------------------------------- generation

def nested_witnesses():
    P = lambda k: ("p", k)
    S = lambda ext, tn, ms: ("S", ext, tn, ms)
    out = []
    # 1: long x := struct x
    inner = S("F", 2, [(0, 0, 0, P("i64"))])
    out.append(("ev", 2, "le", 3, S("F", 1, [(0, 0, 0, P("i32"))]), S("F", 1, [(0, 0, 0, inner)]),
                ("d", [(0, ("d", [(0, ("p", "i64", 4294967298))]))])))
    # 2: struct x := unrelated struct x
    out.append(("ev", 2, "le", 3, S("F", 1, [(0, 0, 0, S("F", 2, [(0, 0, 0, P("i32"))]))]),
                S("F", 1, [(0, 0, 0, S("F", 3, [(0, 0, 0, ("s", 0))]))]),
                ("d", [(0, ("d", [(0, ("s", [104, 105]))]))])))
    # former finding 3 (nested appendable struct extended by the writer / by the reader; repaired by e71c8f0)
    in1 = S("A", 2, [(0, 0, 0, P("i32"))])
    in2 = S("A", 2, [(0, 0, 0, P("i32")), (1, 0, 1, P("i32"))])
    out.append(("ev", 2, "le", 3, S("F", 1, [(0, 0, 0, in1), (1, 0, 1, P("i32"))]),
                S("F", 1, [(0, 0, 0, in2), (1, 0, 1, P("i32"))]),
                ("d", [(0, ("d", [(0, ("p", "i32", 5)), (1, ("p", "i32", 6))])), (1, ("p", "i32", 77))])))
    out.append(("ev", 2, "le", 3, S("F", 1, [(0, 0, 0, in2), (1, 0, 1, P("i32"))]),
                S("F", 1, [(0, 0, 0, in1), (1, 0, 1, P("i32"))]),
                ("d", [(0, ("d", [(0, ("p", "i32", 5))])), (1, ("p", "i32", 77))])))
    # former finding 4 (member id compared as u16; repaired by 1abc6cd)
    out.append(("ev", 2, "le", 3, S("M", 1, [(1, 0, 1, P("i32")), (65537, 0, 2, P("i32"))]),
                S("M", 1, [(65537, 0, 2, P("i32"))]), ("d", [(65537, ("p", "i32", 9))])))
    return out


I32 = ("p", "i32")
TY_TYPES = {
    "A1": ("S", "A", 1, [(0, 0, 0, I32)]),
    "A2": ("S", "A", 2, [(0, 0, 0, I32), (1, 0, 1, I32)]),
    "A3": ("S", "A", 3, [(0, 0, 0, I32), (1, 8, 1, I32)]),      # m1: try_construct = USE_DEFAULT
    "M1": ("S", "M", 1, [(1, 0, 0, I32)]),
    "M2": ("S", "M", 2, [(1, 0, 0, I32), (2, 0, 1, I32)]),
    "M3": ("S", "M", 3, [(1, 0, 0, I32), (2, 1, 1, I32)]),      # m1: optional
}
# k -> (writer, reader) of the compile-time catalogue in harness/src/bin/c39.rs
TY_PAIRS = {0: ("A2", "A1"), 1: ("A1", "A2"), 2: ("A1", "A3"), 3: ("M1", "M2"), 4: ("M2", "M1"), 5: ("M1", "M3"),
            6: ("A2", "A2"), 7: ("M3", "M2")}


def ty_value(k, vals):
    w = TY_TYPES[TY_PAIRS[k][0]]
    d = []
    for i, (mid, flags, name, mt) in enumerate(w[3]):
        if flags & 1 and vals[i] == 0:
            continue                      # the optional member is None
        d.append((mid, ("p", "i32", vals[i])))
    return ("d", sorted(d, key=lambda x: x[0]))


def ty_cases(r, n):
    out = []
    for i in range(n):
        k = i % 8
        ver = 2 if TY_PAIRS[k][0][0] == "M" or r.random() < 0.6 else 1
        out.append(("ty", k, ver, r.choice(["le", "be"]), 3 if r.random() < 0.7 else gen_tc(r),
                    [rprim(r, "i32"), 0 if r.random() < 0.25 else rprim(r, "i32")]))
    return out


def corpus():
    P = lambda k: ("p", k)
    S = lambda ext, tn, ms: ("S", ext, tn, ms)
    out = nested_witnesses()
    # former finding 5 (todo!() on hostile type identifiers, repaired by abb552f): regression cases, now `A 0`
    for t in ["none", "maps", "mapl", "scc", "dflt"]:
        out.append(("as", 3, (1, 1, [(0, 1, 0, (t,))]), (1, 2, [(0, 1, 0, ("i32",))])))
    out.append(("as", 3, (2, 1, [(0, 1, 0, ("seqs", 0, ("none",)))]), (2, 2, [(0, 1, 0, ("seqs", 0, ("i32",)))])))
    # the DESIGN witness of D35 (integer widening): rejected by the current code
    out.append(("ev", 2, "le", 3, S("F", 1, [(0, 0, 0, P("i32"))]), S("F", 1, [(0, 0, 0, P("i64"))]),
                ("d", [(0, ("p", "i64", 4294967298))])))
    # appendable: writer extended / reader extended (padding bytes read as zero members)
    a1 = S("A", 1, [(0, 0, 0, P("i32"))])
    a2 = S("A", 1, [(0, 0, 0, P("i32")), (1, 0, 1, P("i32"))])
    out.append(("ev", 2, "le", 3, a1, a2, ("d", [(0, ("p", "i32", 5)), (1, ("p", "i32", 77))])))
    out.append(("ev", 2, "le", 3, a2, a1, ("d", [(0, ("p", "i32", 5))])))
    out.append(("ev", 2, "le", 3, S("A", 1, [(0, 0, 0, P("u8")), (1, 0, 1, P("u8")), (2, 0, 2, P("u16"))]),
                S("A", 1, [(0, 0, 0, P("u8"))]), ("d", [(0, ("p", "u8", 5))])))
    # former finding 6 (optional on one side only, repaired by 05c4a3c): regression, now `A 0`
    out.append(("ev", 2, "le", 3, S("A", 1, [(0, 1, 0, P("i32"))]), S("A", 1, [(0, 0, 0, P("i32"))]),
                ("d", [(0, ("p", "i32", 2))])))
    out.append(("ev", 2, "le", 3, S("F", 1, [(0, 0, 0, P("i32"))]), S("F", 1, [(0, 1, 0, P("i32"))]),
                ("d", [(0, ("p", "i32", 2))])))
    # mutable: add / remove / reorder
    out.append(("ev", 2, "le", 3,
                S("M", 1, [(5, 0, 5, P("i32")), (1, 0, 1, P("u8")), (9, 0, 9, ("s", 0))]),
                S("M", 1, [(9, 0, 9, ("s", 0)), (7, 0, 7, P("i64")), (1, 0, 1, P("u8"))]),
                ("d", [(1, ("p", "u8", 200)), (7, ("p", "i64", -3)), (9, ("s", [104, 105]))])))
    # empty appendable structures: equal / different names
    out.append(("as", 3, (2, 1, []), (2, 1, [])))
    out.append(("as", 3, (2, 1, []), (2, 2, [])))
    # compile-time (derive) types: the typed sample of an extended reader
    for k in range(8):
        out.append(("ty", k, 2, "le", 3, [5, 6]))
    out.append(("ty", 7, 2, "le", 3, [5, 0]))      # the writer's optional member is absent
    return out


def gen(r, tier):
    n = {"quick": 2400, "search": 9000, "thorough": 18000}[tier]
    cases = []
    # systematic: the whole TypeIdentifier x TypeIdentifier table through a one-member FINAL structure
    reps = [(t,) for t in TID_SIMPLE] + [("s8s", 0), ("s8s", 5), ("s8l", 300), ("s8l", 2**32 - 1), ("s16s", 5),
                                         ("s16l", 300), ("seqs", 3, ("i32",)), ("seql", 300, ("i32",)),
                                         ("seqs", 0, ("u8",)), ("arrs", [2], ("i32",)), ("arrl", [2], ("i32",)),
                                         ("arrs", [3], ("i32",)), ("ekc", 1), ("ekc", 2), ("ekm", 1)]
    for a in reps:
        for b in reps:
            tc = 3 if (a, b) != (a, a) else 0
            cases.append(("as", r.choice([3, 3, 0]), (1, 1, [(0, 1, 0, a)]), (1, 2, [(0, 1, 0, b)])))
    cases += ty_cases(r, {"quick": 48, "search": 96, "thorough": 400}[tier])
    while len(cases) < n:
        k = r.random()
        if k < 0.74:
            ext = r.choice(["A", "A", "M", "M", "F"])
            t = gen_struct(r, ext, big_ids=(r.random() < 0.3))
            q = r.random()
            if q < 0.08:
                cases.append(ev_case(r, t, t))
            elif q < 0.55:
                u = evolve_ok(r, t)
                t1, t2 = (t, u) if r.random() < 0.5 else (u, t)
                cases.append(ev_case(r, t1, t2))
            elif q < 0.63:
                u = evolve_ok(r, evolve_ok(r, t))
                t1, t2 = (t, u) if r.random() < 0.5 else (u, t)
                cases.append(ev_case(r, t1, t2))
            else:
                u = mutate_bad(r, t if r.random() < 0.6 else evolve_ok(r, t))
                if not u[3]:
                    continue
                t1, t2 = (t, u) if r.random() < 0.5 else (u, t)
                # optional members: only XCDR2, and the codec sees them; keep them rare
                cases.append(ev_case(r, t1, t2))
        elif k < 0.78:
            w = r.choice(nested_witnesses())
            cases.append(("ev", w[1], r.choice(["le", "be"]), gen_tc(r), w[4], w[5], gen_value(r, w[5])))
        else:
            c = gen_cto(r) if r.random() < 0.6 else cto_of_type(gen_struct(r, r.choice("FAM")))
            d = mutate_cto(r, c)
            if r.random() < 0.3:
                d = mutate_cto(r, d)
            c1, c2 = (c, d) if r.random() < 0.5 else (d, c)
            cases.append(("as", gen_tc(r), c1, c2))
    return cases

# ------------------------------------------------------------------------------- text forms

def utf8_hex(s):
    b = "".join(chr(c) for c in s).encode("utf-8", "surrogatepass")
    return b.hex() if b else "-"


def type_text(t):
    k = t[0]
    if k == "p":
        return t[1]
    if k in ("s", "w"):
        return "%s %d" % (k, t[1])
    if k == "S":
        return "S %s %d %d %s" % (t[1], t[2], len(t[3]), " ".join(
            "%d %d %d %s" % (i, f, nm, type_text(mt)) for i, f, nm, mt in t[3]))
    raise ValueError(t)


def value_text(v):
    k = v[0]
    if k == "p":
        return "p%s %d" % (v[1], v[2])
    if k == "s":
        return "s " + utf8_hex(v[1])
    if k == "d":
        return "d " + data_text(v[1])
    raise ValueError(v)


def data_text(d):
    return "%d %s" % (len(d), " ".join("%d %s" % (i, value_text(x)) for i, x in d))


def tid_text(t):
    k = t[0]
    if k in TID_SIMPLE:
        return k
    if k in ("s8s", "s8l", "s16s", "s16l", "ekc", "ekm"):
        return "%s %d" % (k, t[1])
    if k in ("seqs", "seql"):
        return "%s %d %s" % (k, t[1], tid_text(t[2]))
    if k in ("arrs", "arrl"):
        return "%s %d %s %s" % (k, len(t[1]), " ".join(str(x) for x in t[1]), tid_text(t[2]))
    raise ValueError(t)


def cto_text(c):
    return "%d %d %d %s" % (c[0], c[1], len(c[2]), " ".join(
        "%d %d %d %s" % (i, f, nm, tid_text(t)) for i, f, nm, t in c[2]))


def case_line(c):
    if c[0] == "ty":
        return "ty %d %d %s %d | %s" % (c[1], c[2], c[3], c[4], " ".join(str(x) for x in c[5]))
    if c[0] == "ev":
        _, ver, end, tc, t1, t2, v = c
        return "ev %d %s %d | %s | %s | %s" % (ver, end, tc, type_text(t1), type_text(t2), value_text(v))
    _, tc, c1, c2 = c
    return "as %d | %s | %s" % (tc, cto_text(c1), cto_text(c2))


class Toks:
    def __init__(self, s):
        self.t = s.split()
        self.i = 0

    def next(self):
        x = self.t[self.i]
        self.i += 1
        return x

    def int(self):
        return int(self.next())

    def done(self):
        return self.i >= len(self.t)


def parse_type(tk):
    k = tk.next()
    if k in PRIMS:
        return ("p", k)
    if k in ("s", "w"):
        return (k, tk.int())
    if k == "S":
        e = tk.next()
        tn = tk.int()
        n = tk.int()
        ms = []
        for _ in range(n):
            i = tk.int()
            f = tk.int()
            nm = tk.int()
            ms.append((i, f, nm, parse_type(tk)))
        return ("S", e, tn, ms)
    raise ValueError(k)


def hex_scalars(h):
    if h == "-":
        return []
    return [ord(c) for c in bytes.fromhex(h).decode("utf-8")]


def parse_value(tk):
    k = tk.next()
    if k == "s":
        return ("s", hex_scalars(tk.next()))
    if k == "d":
        return ("d", parse_data(tk))
    if k.startswith("p"):
        return ("p", k[1:], tk.int())
    raise ValueError(k)


def parse_data(tk):
    n = tk.int()
    d = []
    for _ in range(n):
        i = tk.int()
        d.append((i, parse_value(tk)))
    return d


def parse_tid(tk):
    k = tk.next()
    if k in TID_SIMPLE:
        return (k,)
    if k in ("s8s", "s8l", "s16s", "s16l", "ekc", "ekm"):
        return (k, tk.int())
    if k in ("seqs", "seql"):
        b = tk.int()
        return (k, b, parse_tid(tk))
    if k in ("arrs", "arrl"):
        n = tk.int()
        bs = [tk.int() for _ in range(n)]
        return (k, bs, parse_tid(tk))
    raise ValueError(k)


def parse_cto(tk):
    flags = tk.int()
    tn = tk.int()
    n = tk.int()
    ms = []
    for _ in range(n):
        i = tk.int()
        f = tk.int()
        nm = tk.int()
        ms.append((i, f, nm, parse_tid(tk)))
    return (flags, tn, ms)


def parse_line(line):
    parts = line.split("|")
    tk = Toks(parts[0])
    op = tk.next()
    if op == "ev":
        ver = tk.int()
        end = tk.next()
        tc = tk.int()
        t1 = parse_type(Toks(parts[1]))
        t2 = parse_type(Toks(parts[2]))
        v = parse_value(Toks(parts[3]))
        return ("ev", ver, end, tc, t1, t2, v)
    if op == "as":
        tc = tk.int()
        return ("as", tc, parse_cto(Toks(parts[1])), parse_cto(Toks(parts[2])))
    if op == "ty":
        k = tk.int()
        ver = tk.int()
        end = tk.next()
        tc = tk.int()
        return ("ty", k, ver, end, tc, [int(x) for x in parts[1].split()])
    return None

# ------------------------------------------------------------------------------- Coq terms

def coq_tc(bits):
    return "(mkTce %s %s %s %s %s %s)" % tuple(cbool(bits & b != 0) for b in (1, 2, 4, 8, 16, 32))


def coq_minfo(mid, flags):
    return "(mkM %s %s %s %s false [])" % (cz(mid), cbool(flags & 1 != 0), cbool(flags & 2 != 0), cbool(flags & 4 != 0))


def coq_ty(t):
    k = t[0]
    if k == "p":
        return "(TPrim %s)" % PRIM_COQ[t[1]]
    if k == "s":
        return "TStr"
    if k == "w":
        return "TWStr"
    if k == "S":
        return "(TStruct %s [%s])" % (EXT_COQ[t[1]], "; ".join(
            "(%s, %s)" % (coq_minfo(i, f), coq_ty(mt)) for i, f, nm, mt in t[3]))
    raise ValueError(t)


def coq_aty(t):
    k = t[0]
    if k == "p":
        return "(APrim %s)" % PRIM_COQ[t[1]]
    if k == "s":
        return "(AStr %d)" % t[1]
    if k == "w":
        return "(AWStr %d)" % t[1]
    return "(ANested %s)" % coq_ty(t)


def coq_adesc(t):
    return "(mkAD %s %d [%s])" % (EXT_COQ[t[1]], t[2], "; ".join(
        "mkAM %s %d %s %s" % (coq_minfo(i, f), nm, cbool(f & 8 != 0), coq_aty(mt)) for i, f, nm, mt in t[3]))


def coq_val(v):
    k = v[0]
    if k == "p":
        return "(VP %s %s)" % (SK_COQ[v[1]], cz(v[2]))
    if k == "s":
        return "(VStr [%s])" % ";".join(str(c) for c in v[1])
    if k == "d":
        return "(VData [%s])" % "; ".join("(%s, %s)" % (cz(i), coq_val(x)) for i, x in v[1])
    raise ValueError(v)


def coq_tid(t):
    k = t[0]
    if k in TID_SIMPLE:
        return TID_COQ[k]
    names = {"s8s": "TiString8Small", "s8l": "TiString8Large", "s16s": "TiString16Small", "s16l": "TiString16Large",
             "ekc": "EkComplete", "ekm": "EkMinimal", "seqs": "TiSeqSmall", "seql": "TiSeqLarge",
             "arrs": "TiArrSmall", "arrl": "TiArrLarge"}
    if k in ("s8s", "s8l", "s16s", "s16l", "ekc", "ekm"):
        return "(%s %d)" % (names[k], t[1])
    if k in ("seqs", "seql"):
        return "(%s %d %s)" % (names[k], t[1], coq_tid(t[2]))
    return "(%s [%s] %s)" % (names[k], ";".join(str(x) for x in t[1]), coq_tid(t[2]))


def coq_cto(c):
    return "(mkST %d %s [%s])" % (c[0], cz(c[1]), "; ".join(
        "mkSM %s %d %s %s" % (cz(i), f, cz(nm), coq_tid(t)) for i, f, nm, t in c[2]))


def coq_resb(a):
    return {"1": "(Ok true)", "0": "(Ok false)", "P": "(Panic 0)"}.get(a)


def coq_bytes(h):
    if h == "-":
        return "[]"
    b = bytes.fromhex(h)
    return "[" + ";".join(str(x) for x in b) + "]"


def coq_dec(tk):
    k = tk.next()
    if k == "D":
        return "(Ok %s)" % coq_val(parse_value(tk))
    if k == "E":
        return "(Err %d)" % tk.int()
    if k == "P":
        return "(Panic 0)"
    return None


def case_term(c, out):
    try:
        if c[0] == "as":
            p = out.split()
            if len(p) != 2 or p[0] != "A" or coq_resb(p[1]) is None:
                return None
            return "mkC39 (As %s %s %s) (OAs %s)" % (coq_tc(c[1]), coq_cto(c[2]), coq_cto(c[3]), coq_resb(p[1]))
        typed = None
        if c[0] == "ty":
            _, k, ver, end, tc, vals = c
            t2, t1 = TY_TYPES[TY_PAIRS[k][0]], TY_TYPES[TY_PAIRS[k][1]]
            v = ty_value(k, vals)
            if " ; TY " not in out:
                return None
            out, ty_out = out.rsplit(" ; TY ", 1)
            tk = Toks(ty_out)
            kind = tk.next()
            if kind == "some":
                typed = "(Some [%s])" % "; ".join("(%s, %s)" % (cz(i), coq_val(x)) for i, x in parse_data(tk))
            elif kind in ("none", "na"):
                typed = "None"
            else:
                return None
        else:
            _, ver, end, tc, t1, t2, v = c
        if not out.startswith("A "):
            return None
        head, rest = out.split(" C ", 1)
        a = coq_resb(head.split()[1])
        parts = rest.split(";")
        if a is None or len(parts) != 3 or "NOTSTRUCT" in rest or "UNSUPPORTED" in rest:
            return None
        c1 = parse_cto(Toks(parts[0]))
        c2 = parse_cto(Toks(parts[1]))
        tk = Toks(parts[2])
        k = tk.next()
        if k == "S":
            bs = coq_bytes(tk.next())
            dec = coq_dec(tk)
            if dec is None:
                return None
            ser = "(SOk %s %s)" % (bs, dec)
        elif k == "SE":
            ser = "(SFail (Err %d))" % tk.int()
        elif k == "SP":
            ser = "(SFail (Panic 0))"
        else:
            return None
        if typed is not None:
            return "mkC39 (Ty %s %s %s %s %s %s) (OTy %s %s %s %s %s)" % (
                "V%d" % ver, end.upper(), coq_tc(tc), coq_adesc(t1), coq_adesc(t2), coq_val(v),
                a, coq_cto(c1), coq_cto(c2), ser, typed)
        return "mkC39 (Ev %s %s %s %s %s %s) (OEv %s %s %s %s)" % (
            "V%d" % ver, end.upper(), coq_tc(tc), coq_adesc(t1), coq_adesc(t2), coq_val(v),
            a, coq_cto(c1), coq_cto(c2), ser)
    except (ValueError, IndexError, UnicodeDecodeError):
        return None


def nontrivial(c, out):
    if c[0] == "ty":
        return case_line(c) if " ; TY " in out else None
    if c[0] == "ev":
        if out.startswith("A 1") and c[4] != c[5] and " D d " in out:
            return case_line(c)
        if out.startswith("A 0"):
            return case_line(c)
        return None
    return case_line(c) if out in ("A 0", "A 1") and c[2] != c[3] else None


def distribution(cases, outs):
    d = {}
    for c, o in zip(cases, outs):
        if c[0] == "ty":
            k = "ty/%s:=%s/%s" % (TY_PAIRS[c[1]][1], TY_PAIRS[c[1]][0], o.rsplit(" ; TY ", 1)[-1].split()[0])
        elif c[0] == "ev":
            k = "ev/%s%s/xcdr%d/%s" % (c[4][1], c[5][1], c[1],
                                        "assignable" if o.startswith("A 1") else "rejected" if o.startswith("A 0") else "panic")
        else:
            k = "as/" + ("assignable" if o == "A 1" else "rejected" if o == "A 0" else "panic")
        d[k] = d.get(k, 0) + 1
    return d


MANIFEST = {
    "text": ("Machine-checked proof (Coq) over a model of the assignability decision of type_object.rs (TypeIdentifier "
             "table and the structure branch with the TypeConsistencyEnforcement flags) combined with the XCDR codec "
             "model of C09. Covered exactly: top-level FINAL/APPENDABLE/MUTABLE structures whose members are "
             "primitives and (w)strings, not optional, distinct ids; appendable evolution (members appended by the "
             "writer or by the reader) in XCDR1/XCDR2, both byte orders; mutable evolution (members added, removed, "
             "reordered) in XCDR2. Proved: every type object is assignable from itself (also by the rules without the "
             "equality shortcut); the decision never panics, for any two type objects; on the family the decision "
             "equals a declarative relation `evolves` (same names and types on corresponding members, a common member, "
             "one-sided members neither key nor must-understand and not reusing a reader name) or the type objects are "
             "equal; whenever the reader type is declared assignable from the writer type, every writer sample decodes "
             "with the reader type into the writer's values for the common members and defaults (absent or zero) for "
             "the rest; hence legitimate evolutions are accepted AND decode, and pairs whose common members differ in "
             "type are rejected. The model is tied to the code by running the real TypeObject construction, the real "
             "decision and the real serializer/deserializer on generated related type pairs and on hand-built hostile "
             "type objects, comparing everything inside Coq and applying the oracle to the implementation's outputs. "
             "Not covered (stated, not modelled): unions, optional members, collections, TryConstruct, nested "
             "evolution, typed samples built from the decoded DynamicData."),
    "note": ("Trusted: Coq kernel + vm_compute; hand models AssignModel.v and XcdrModel.v (checked against the code on "
             "every run); harness and comparator. Known findings (each with a Coq witness and a patch proposal): "
             "integers assignable from any hashed type, hashed member types never compared, typed sample None for an "
             "extended reader type. Repaired in /repo and followed by the model: todo!() on unsupported type "
             "identifiers (abb552f, the decision is proved total), nested appendable DHEADER ignored (e71c8f0), member "
             "ids compared as u16 (1abc6cd), optional mismatch accepted for FINAL/APPENDABLE (05c4a3c). prevent_type_widening, force_type_validation and "
             "TypeConsistencyKind are never read by the code (modelled as such). The integer-widening candidate D35 of "
             "DESIGN.md is not present in this tree (proved: long := long long is rejected)."),
    "technique": "Coq proof (induction over member lists and over the XCDR2 parameter list; boolean characterisation "
                 "of the decision) + differential correspondence with the oracle evaluated in Coq",
}
