"""C12 — the key hash follows DDS-XTypes 7.6.8 (zero-padded big-endian key when the key's maximum
serialized size is at most 16 bytes, MD5 otherwise).  Model, harness and generator shared with C11."""
from props.C11 import (CORR, CORR_MODULES, CASE_TYPE, gen as _gen, corpus, case_line, parse_line,  # noqa: F401
                       case_term, nontrivial, distribution, TRUSTED)

PID = "C12"
PROPS_FILE = "Props/C12.v"
PREFIX = "C12"
HARNESS = "c12"
KNOWN = {1: "C12-actual-length"}
RULE = ("as C11: keyed DynamicTypes built at run time, writer-side handles of two samples per case; types and "
        "values are biased towards serialized key sizes 15..17 and towards unbounded / large-bound strings and "
        "sequences holding short values; distinct = distinct input line; non-trivial = at least one key member "
        "and every output is a 16-byte handle")
ASSUMPTIONS = ["the key stream is XCDR version 1, big endian, members in declaration order (what the code does; the "
               "property text does not fix the version)",
               "maximum serialized size: string/sequence bounds count bytes/elements, char8 is one byte, every "
               "element type occupies at least one byte",
               "the rule is claimed outside the recorded class C12-actual-length only"]


def gen(r, tier):
    return _gen(r, tier)


MANIFEST = {
    "text": ("Machine-checked proof (Coq) over a model of get_instance_handle_from_key_holder_data and the "
             "big-endian XCDR1 key serializer: the handle is the zero-padded key serialization when the key type's "
             "maximum serialized size is at most 16 bytes and its MD5 digest (RFC 1321 implemented in Coq, checked "
             "on the RFC vectors and against the md5 crate) whenever the actual serialization is longer than 16 "
             "bytes; because the code tests the ACTUAL length, a key type that can exceed 16 bytes but holds a "
             "short value (unbounded string \"ab\") is zero-padded instead of hashed: the rule is false on the model "
             "and on the real code in exactly that class (recorded finding) and proved outside it. Tied to the code "
             "by running the real handle computation on thousands of generated keyed types and values and comparing "
             "inside Coq."),
    "note": ("Trusted: Coq kernel + vm_compute; hand model KeyModel.v/Md5Model.v (checked against the code on every "
             "check); the max-size function max_end is our reading of 'maximum serialized size'. Axioms: none. "
             "Known finding: C12-actual-length."),
    "technique": "Coq proof (structural induction, monotone offsets) + differential correspondence with oracle evaluated in Coq",
}
