"""C05 — fragmented samples are reassembled byte-identically for any size."""
import itertools

from vlib.core import cz, cbool

PID = "C05"
PROPS_FILE = "Props/C05.v"
CORR = "Proto.FragCorr"
CORR_MODULES = ["Proto.FragCorr"]
PREFIX = "C05"
CASE_TYPE = "C05_case"
HARNESS = "c05"
KNOWN = {}  # the six findings of this check are repaired in /repo (known_findings.json: status fixed)
RULE = ("one case = a scenario on a real RtpsStatefulWriter + RtpsStatefulReader pair: writes of payloads of "
        "size k*f-1, k*f, k*f+1 (f in 8, 9, 64, 1344, 65000 and random), deliveries of the writer's own datagrams "
        "(parsed from the wire) in every order / with loss subsets / duplicates / interleaved samples, hand-made "
        "DATA_FRAGs, heartbeats, the reader's own ACKNACK / NACK_FRAG fed back to the writer, forged NACK_FRAGs; "
        "distinct = distinct input line; non-trivial = at least one sample was fragmented and the reader ended "
        "up holding at least one change, or a NACK_FRAG/ACKNACK round was exercised")
TRUSTED = ["theories/Proto/FragModel.v is a hand transcription of cache_change.rs (as_data_frag_submessage), "
           "stateful_writer.rs (fragment emission, on_nack_frag_submessage_received, the requested-changes resend), "
           "writer_proxy.rs (push/reconstruct/total_fragments_expected/write_message), stateful_reader.rs "
           "(on_data_submessage, on_data_frag_submessage) and FragmentNumberSet::new's bitmap index",
           "the harness transcribes the heartbeat handling of communication_methods.rs (the only caller of "
           "RtpsWriterProxy::write_message) and plays the network"]
ASSUMPTIONS = ["fragment size 1 <= f <= 65535 and payload length < 2^32 (the u16 / u32 wire fields); the accepted "
               "range 8..=65000 lies inside; data_max_size_serialized = 0 is outside (the writer divides by it)",
               "all changes are ALIVE, without inline QoS; sequence numbers are 1, 2, 3, ... as the DCPS writer assigns",
               "no hand-made DATA_FRAGs in the theorems about byte identity and panic freedom (they are exercised in the "
               "correspondence run); repair theorems: reliable reader and writer, fewer than 2^31 - 1 replies (i32 counts), "
               "the resent fragments of a round are delivered"]

FSIZES = [8, 9, 64, 1344, 65000]


# ------------------------------------------------------------------ cases
# case = dict(rel, nreaders, f, ops, fair); op = tuple

M63 = 2**63 - 1


class Pat(bytes):
    """payload bytes that Coq recomputes from (seed, len) with FragCorr.patb"""
    seed = 0


def patb(seed, n):
    x = seed & M63
    out = bytearray(n)
    for i in range(n):
        out[i] = (x >> 33) & 255
        x = (x * 6364136223846793005 + 1442695040888963407) & M63
    p = Pat(bytes(out))
    p.seed = seed
    return p


def payload(r, n):
    if n <= 1024:
        return bytes(r.getrandbits(8) for _ in range(n))
    return patb(r.randint(0, 2**40), n)


def nfrag(n, f):
    return -(-n // f)


def sizes_around(f, kmax):
    out = []
    for k in range(1, kmax + 1):
        out += [k * f - 1, k * f, k * f + 1]
    return out


def deliver_all(sn, n, which=1):
    return [("D", sn, i, which) for i in range(max(n, 1))]


def repair_rounds(nrounds, first, last, start_count=1):
    ops = []
    for j in range(nrounds):
        ops += [("H", first, last, start_count + j, 0), ("A",), ("N",)]
    return ops


def case(rel, nreaders, f, ops, fair):
    return {"rel": rel, "nreaders": nreaders, "f": f, "ops": ops, "fair": fair}


def gen_split(r, f, n, rel, nreaders):
    p = payload(r, n)
    k = nfrag(n, f)
    return case(rel, nreaders, f, [("W", p)] + deliver_all(1, k), True)


def gen_perm(r, f, lens, rel, final_pass=True):
    """several samples, fragments in random order with duplicates, interleaved"""
    ops = [("W", payload(r, n)) for n in lens]
    ev = []
    for sn, n in enumerate(lens, 1):
        k = max(nfrag(n, f), 1)
        idx = list(range(k))
        for _ in range(r.choice([1, 1, 2])):
            ev += [("D", sn, i, 1) for i in idx]
    r.shuffle(ev)
    if r.random() < 0.5 and ev:
        del ev[r.randrange(len(ev))]
    ops += ev
    fair = False
    if final_pass and rel:
        for sn, n in enumerate(lens, 1):
            idx = list(range(max(nfrag(n, f), 1)))
            r.shuffle(idx)
            ops += [("D", sn, i, 1) for i in idx]
        fair = True
    return case(rel, 1, f, ops, fair)


def gen_loss(r, f, n, subset, order=None, rounds=None):
    """reliable: deliver only `subset` of the fragments, then loss-free repair rounds"""
    k = nfrag(n, f)
    idx = list(subset) if order is None else order
    ops = [("W", payload(r, n))] + [("D", 1, i, 1) for i in idx]
    nr = rounds if rounds is not None else k + 2
    ops += repair_rounds(nr, 1, 1)
    # with a working repair protocol one round fetches fragment 1 if nothing arrived, every further
    # round up to 256 missing fragments: only then is delivery owed
    lost = set(range(k)) - set(idx)
    return case(1, 1, f, ops, (not lost) or nr >= 3 + k // 256)


def gen_forged(r, f, n, rel=1):
    k = nfrag(n, f)
    ops = [("W", payload(r, n))]
    have = [i for i in range(k) if r.random() < 0.5]
    ops += [("D", 1, i, 1) for i in have]
    count = 0
    for _ in range(r.choice([1, 2, 3])):
        count = count + r.choice([1, 1, 2, 0, -1]) if r.random() < 0.8 else r.randint(-3, 5)
        base = r.randint(1, k + 1)
        members = sorted(set(x for x in (base + r.randint(0, min(k + 2, 255)) for _ in range(r.randint(0, 4)))
                             if x - base <= 255))
        if r.random() < 0.7 and base not in members:
            members = [base] + members
        ops.append(("F", count, r.choice([1, 1, 1, 2]), base, members))
    return case(rel, 1, f, ops, False)


def gen_foreign(r, f):
    """hand-made fragments on sequence numbers the writer never uses (>= 50), mixed with real traffic"""
    ops = []
    nw = r.randint(0, 2)
    lens = [r.choice(sizes_around(f, 3)) for _ in range(nw)] if f <= 64 else []
    ops += [("W", payload(r, n)) for n in lens]
    for sn, n in enumerate(lens, 1):
        ops += deliver_all(sn, nfrag(n, f))
    # the reliable reader only buffers fragments of the expected sn = len(lens)+1: speak for that sn
    sn = len(lens) + 1
    fs = r.choice([1, 2, 3, 4, 8])
    nsub = r.choice([1, 1, 2, 3])
    total = r.randint(1, 6) * nsub
    dsize = total * fs - r.randint(0, fs - 1)
    data = payload(r, dsize)
    frs = []
    for j in range(0, total, nsub):
        frs.append(("X", 1, sn, j + 1, nsub, fs, dsize, data[j * fs:(j + nsub) * fs]))
    if r.random() < 0.4:
        frs.append(r.choice(frs))
    if r.random() < 0.3 and len(frs) > 1:
        del frs[r.randrange(len(frs))]
    r.shuffle(frs)
    if r.random() < 0.2:
        frs.insert(r.randrange(len(frs) + 1), ("X", r.choice([1, 2, 7]), sn + r.choice([0, 1, 5]), r.randint(0, 3),
                                               r.choice([0, 1, 2]), fs, dsize, payload(r, r.randint(0, fs))))
    ops += frs
    if r.random() < 0.5:
        ops += [("H", 1, sn, 1, 0)]
    return case(r.choice([0, 1, 1]), 1, f, ops, False)


def gen_fsize0(r, f):
    ops = []
    if r.random() < 0.5:
        n = r.choice(sizes_around(8, 3))
        ops += [("W", payload(r, n))] + deliver_all(1, nfrag(n, 8))
        sn = 2
    else:
        sn = 1
    ops.append(("X", 1, sn, r.choice([1, 2]), 1, 0, r.choice([0, 1, 21]), payload(r, r.randint(0, 4))))
    return case(1, 1, 8, ops, False)


def gen_bitmap(r, k, have):
    """k fragments of 8 bytes, only `have` arrive: the NACK_FRAG window is 256 numbers, several rounds repair"""
    nr = 3 + k // 256
    ops = [("W", payload(r, 8 * k - r.randint(0, 7)))] + [("D", 1, i, 1) for i in have] + repair_rounds(nr, 1, 1)
    return case(1, 1, 8, ops, True)


def gen_mixed(r, f, n, rel=1):
    """two reader proxies (two DataReaders of one participant): R1 also receives R2's copies"""
    k = nfrag(n, f)
    ops = [("W", payload(r, n))]
    ev = [("D", 1, i, w) for i in range(k) for w in (1, 2) if r.random() < 0.6]
    r.shuffle(ev)
    ops += ev
    if r.random() < 0.5:
        ops += [("H", 1, 1, 1, 0)]
    return case(rel, 2, f, ops, False)


def gen_hb(r, f):
    """several samples, some lost completely, heartbeats with assorted first/last, ACKNACK rounds"""
    ns = r.randint(1, 4)
    lens = [r.choice(sizes_around(f, 3) + [0, 1]) for _ in range(ns)]
    ops = [("W", payload(r, n)) for n in lens]
    for sn, n in enumerate(lens, 1):
        k = max(nfrag(n, f), 1)
        mode = r.random()
        if mode < 0.4:
            ops += deliver_all(sn, k)
        elif mode < 0.7:
            ops += [("D", sn, i, 1) for i in range(k) if r.random() < 0.5]
    cnt = 0
    for _ in range(r.randint(1, 4)):
        cnt += r.choice([1, 1, 1, 0, 2])
        ops.append(("H", r.choice([1, 1, 1, 2, 0]), r.choice([ns, ns, ns - 1, ns + 1, 0]), cnt, r.choice([0, 0, 1])))
        ops += r.choice([[("A",)], [("A",), ("N",)], [("N",)], [], [("A",), ("A",)]])
    return case(r.choice([1, 1, 1, 0]), 1, f, ops, False)


def gen(r, tier):
    cases = []
    big = {"quick": 2, "search": 2, "thorough": 5}[tier]
    # (a) every boundary size for every fragment size: split + in-order delivery
    for f in FSIZES:
        kmax = 5 if f < 65000 else big
        for n in sizes_around(f, kmax):
            if f >= 1344 and tier != "thorough" and n > 3 * f + 1 and f < 65000:
                continue
            rel = r.choice([0, 1])
            cases.append(gen_split(r, f, n, rel, r.choice([1, 1, 2]) if f < 1344 else 1))
    # (b) all loss subsets, all fragment counts <= 5, fragment sizes 8 and 9, then repair rounds
    for f in (8, 9):
        for k in range(2, 6):
            for n in sorted(set([k * f - 1, k * f, (k - 1) * f + 1])):
                if nfrag(n, f) != k:
                    continue
                for m in range(0, k + 1):
                    for subset in itertools.combinations(range(k), m):
                        cases.append(gen_loss(r, f, n, subset))
    # all arrival orders for <= 4 fragments
    for k in range(2, 5):
        for order in itertools.permutations(range(k)):
            cases.append(gen_loss(r, 8, 8 * k - 3, None, order=list(order), rounds=1))
    # (c) NACK_FRAG bitmap span
    for k, have in ((256, [0]), (257, [1]), (257, [0]), (258, [0]), (300, [0]), (300, [150]), (300, [0, 299]),
                    (257, [256]), (600, [1, 2, 3]), (257, list(range(1, 257))), (520, list(range(0, 520, 2)))):
        cases.append(gen_bitmap(r, k, have))
    n_rand = {"quick": 500, "search": 3000, "thorough": 2500}[tier]
    for j in range(n_rand):
        x = r.random()
        f = r.choice(FSIZES[:3]) if r.random() < 0.8 else r.choice([1344, r.randint(8, 300), r.randint(8, 2000)])
        if x < 0.25:
            ns = r.randint(1, 3)
            cases.append(gen_perm(r, f, [r.choice(sizes_around(f, 5)) for _ in range(ns)], r.choice([0, 1, 1])))
        elif x < 0.40:
            n = r.choice(sizes_around(f, 5)[3:])
            k = nfrag(n, f)
            subset = [i for i in range(k) if r.random() < 0.7]
            r.shuffle(subset)
            cases.append(gen_loss(r, f, n, subset, rounds=r.choice([1, 2, k + 2])))
        elif x < 0.55:
            cases.append(gen_forged(r, f, r.choice(sizes_around(f, 5)[2:]), rel=r.choice([1, 1, 1, 0])))
        elif x < 0.67:
            cases.append(gen_foreign(r, f))
        elif x < 0.70:
            cases.append(gen_fsize0(r, f))
        elif x < 0.82:
            cases.append(gen_mixed(r, f, r.choice(sizes_around(f, 5)[3:]), rel=r.choice([1, 1, 0])))
        else:
            cases.append(gen_hb(r, f))
    if tier == "thorough":
        # large random payloads up to 300 kB
        for _ in range(12):
            f = r.choice([1344, 65000, r.randint(8, 65000)])
            n = r.randint(f + 1, 300000)
            cases.append(gen_perm(r, f, [n], 1))
        for _ in range(6):
            f = r.choice([1344, 65000])
            n = r.randint(2 * f + 1, 300000)
            k = nfrag(n, f)
            cases.append(gen_loss(r, f, n, [i for i in range(k) if r.random() < 0.8], rounds=2))
    return cases


def corpus():
    import random
    r = random.Random("C05-corpus")
    p21 = bytes(range(1, 22))
    p29 = bytes(range(1, 30))
    return [
        # in-order, no loss
        case(1, 1, 8, [("W", p21), ("D", 1, 0, 1), ("D", 1, 2, 1), ("D", 1, 1, 1)], True),
        # regression C05-nackfrag-count-zero: one fragment lost, repaired through the reader's NACK_FRAG
        case(1, 1, 8, [("W", p21), ("D", 1, 0, 1), ("D", 1, 2, 1)] + repair_rounds(3, 1, 1), True),
        # regression C05-nackfrag-off-by-one: forged NACK_FRAG for fragment 2 / for the last fragment
        case(1, 1, 8, [("W", p21), ("D", 1, 0, 1), ("D", 1, 2, 1), ("F", 1, 1, 2, [2])], False),
        case(1, 1, 8, [("W", p21), ("D", 1, 0, 1), ("D", 1, 1, 1), ("F", 1, 1, 3, [3])], False),
        # regression C05-fragsize-zero-div: fragment_size 0 is ignored
        case(1, 1, 8, [("X", 1, 1, 1, 1, 0, 21, bytes([1, 2]))], False),
        # regression C05-mixed-readerid-truncation: two readers of one participant
        case(1, 2, 8, [("W", p29), ("D", 1, 0, 1), ("D", 1, 1, 1), ("D", 1, 0, 2), ("D", 1, 1, 2)], False),
        # regression C05-nackfrag-bitmap-overflow: 300 fragments, one received, repaired in rounds
        gen_bitmap(r, 300, [0]),
        # regression C05-nackfrag-none-missing-panic: both copies of fragment 2 before fragment 1
        case(1, 2, 8, [("W", bytes(range(1, 10))), ("D", 1, 1, 1), ("D", 1, 1, 2), ("D", 1, 0, 1), ("D", 1, 0, 2),
                       ("H", 1, 1, 1, 0)], False),
        # foreign fragments: numbers 1..4 all present, one extra copy with fragments_in_submessage 2
        case(1, 1, 8, [("X", 1, 1, 4, 1, 1, 4, b"\xde"), ("X", 1, 1, 3, 1, 1, 4, b"\x68"), ("X", 1, 1, 2, 1, 1, 4, b"\x62"),
                       ("X", 2, 1, 1, 2, 1, 4, b""), ("X", 1, 1, 1, 1, 1, 4, b"\x67"), ("H", 1, 1, 1, 0)], False),
        # 84c5233: fragments_in_submessage = payload length + 1 is accepted, + 2 is ignored
        case(1, 1, 8, [("X", 1, 1, 1, 3, 1, 3, b"\x01\x02"), ("H", 1, 1, 1, 0)], False),
        case(1, 1, 8, [("X", 1, 1, 1, 3, 1, 3, b"\x01"), ("H", 1, 1, 1, 0)], False),
        # 9291c1e: sequence number i64::MAX is not accepted; 1f8d93c: HEARTBEAT with firstSN <= 0 is ignored
        case(0, 1, 8, [("X", 1, 2**63 - 1, 1, 1, 1, 1, b"\x07"), ("H", 0, 1, 1, 0), ("H", 1, 1, 1, 0)], False),
    ]


# ------------------------------------------------------------------ text forms

def hx(b):
    return b.hex() if len(b) else "-"


def op_text(o):
    k = o[0]
    if k == "W":
        return "W " + hx(o[1])
    if k == "D":
        return "D %d %d %d" % o[1:]
    if k == "X":
        return "X %d %d %d %d %d %d %s" % (o[1], o[2], o[3], o[4], o[5], o[6], hx(o[7]))
    if k == "H":
        return "H %d %d %d %d" % o[1:]
    if k == "F":
        return "F %d %d %d %s" % (o[1], o[2], o[3], ",".join(str(x) for x in o[4]))
    return k


def case_line(c):
    return "%d %d %d %d | %s" % (c["rel"], c["nreaders"], c["f"], 1 if c["fair"] else 0,
                                 " | ".join(op_text(o) for o in c["ops"]))


def parse_line(line):
    parts = [p.strip() for p in line.split("|")]
    h = [int(x) for x in parts[0].split()]
    ops = []
    for p in parts[1:]:
        t = p.split()
        k = t[0]
        if k == "W":
            ops.append(("W", bytes.fromhex(t[1]) if t[1] != "-" else b""))
        elif k == "D":
            ops.append(("D", int(t[1]), int(t[2]), int(t[3])))
        elif k == "X":
            ops.append(("X",) + tuple(int(x) for x in t[1:7]) + ((bytes.fromhex(t[7]) if len(t) > 7 and t[7] != "-" else b""),))
        elif k == "H":
            ops.append(("H",) + tuple(int(x) for x in t[1:5]))
        elif k == "F":
            ops.append(("F", int(t[1]), int(t[2]), int(t[3]), [int(x) for x in t[4].split(",")] if len(t) > 4 and t[4] else []))
        else:
            ops.append((k,))
    return case(h[0], h[1], h[2], ops, bool(h[3]) if len(h) > 3 else False)


def cb(b):
    if isinstance(b, Pat):
        return "(patb %d %d)" % (b.seed, len(b))
    if len(b) <= 1024:
        return "[" + ";".join(str(x) for x in b) + "]"
    # (replay of a big case from its text line) chunked, a flat 100k-element list overflows coqc's stack
    return "(concat [" + ";".join("[" + ";".join(str(x) for x in b[i:i + 512]) + "]"
                                  for i in range(0, len(b), 512)) + "])"


def od(tok):
    """implementation data token: hex, '-' or '#len.digest'"""
    if tok.startswith("#"):
        l, h = tok[1:].split(".")
        return "(Dig %d %d)" % (int(l), int(h))
    return "(Raw %s)" % cb(bytes.fromhex(tok) if tok != "-" else b"")


def czl(l):
    return "[" + ";".join(cz(x) for x in l) + "]"


def frag_term(rid, sn, start, nsub, fsize, dsize, data):
    return "(mkfrag %s %s %s %s %s %s %s)" % (cz(rid), cz(sn), cz(start), cz(nsub), cz(fsize), cz(dsize), cb(data))


def op_term(o):
    k = o[0]
    if k == "W":
        return "OWrite " + cb(o[1])
    if k == "D":
        return "ODeliver %s %s %s" % (cz(o[1]), cz(o[2]), cz(o[3]))
    if k == "X":
        # the wire fields are u32 / u16 / u16 / u32: the harness casts
        return "OForeign " + frag_term(o[1], o[2], o[3] % 2**32, o[4] % 2**16, o[5] % 2**16, o[6] % 2**32, o[7])
    if k == "H":
        return "OHb %s %s %s %s" % (cz(o[1]), cz(o[2]), cz(o[3]), cbool(o[4] != 0))
    if k == "F":
        return "OForged %s %s %s %s" % (cz(o[1]), cz(o[2]), cz(o[3]), czl(o[4]))
    if k == "N":
        return "ONackFrag"
    if k == "A":
        return "OAckNack"
    raise ValueError(k)


def item_term(s):
    t = s.split(":")
    if t[0] == "F":
        return "VFrag (mkofrag %s %s)" % (" ".join(cz(int(x)) for x in t[1:7]), od(t[7]))
    if t[0] == "D":
        return "VData %s %s %s" % (cz(int(t[1])), cz(int(t[2])), od(t[3]))
    if t[0] == "G":
        return "VGap %s" % cz(int(t[1]))
    raise ValueError(s)


def zs(s):
    return [int(x) for x in s.split(",") if x != ""]


def obs_term(o, text):
    k = o[0]
    text = text.strip()
    if k == "W":
        assert text.startswith("S")
        return "VSent [" + "; ".join(item_term(x) for x in text[1:].split()) + "]"
    if k in ("D", "X"):
        assert text.startswith("C ")
        return "VCount " + cz(int(text[2:]))
    if k == "H":
        assert text.startswith("R")
        ack, nf = None, None
        for w in text[1:].split():
            t = w.split(":")
            if t[0] == "ack":
                ack = "(mkAck %s %s %s)" % (cz(int(t[1])), czl(zs(t[2])), cz(int(t[3])))
            elif t[0] == "nf":
                nf = "(mkNf %s %s %s %s)" % (cz(int(t[1])), cz(int(t[2])), czl(zs(t[3])), cz(int(t[4])))
        if ack is None:
            return "VReply None"
        return "VReply (Some (%s, %s))" % (ack, "Some " + nf if nf else "None")
    if k in ("N", "F", "A"):
        a, b = text.split(";")
        a, b = a.strip(), b.strip()
        assert a.startswith("S") and b.startswith("C ")
        return "VResp [%s] %s" % ("; ".join(item_term(x) for x in a[1:].split()), cz(int(b[2:])))
    raise ValueError(k)


def out_term(c, out):
    if out.startswith("PANIC"):
        return "(Panic 0)"
    if " # " not in out + " ":
        return None
    tr, ch = (out + " ").split(" # ")
    obs = [x for x in tr.split("|")]
    if len(c["ops"]) == 0:
        obs = []
    if len(obs) != len(c["ops"]):
        return None
    ot = "[" + "; ".join(obs_term(o, t) for o, t in zip(c["ops"], obs)) + "]"
    cht = []
    for w in ch.split():
        sn, h = w.split(":")
        cht.append("(%s, %s)" % (cz(int(sn)), od(h)))
    return "(Ok (%s, [%s]))" % (ot, "; ".join(cht))


def case_term(c, out):
    try:
        o = out_term(c, out)
    except (ValueError, AssertionError, IndexError):
        return None
    if o is None:
        return None
    return "mkC05 %s %s %s [%s] %s %s" % (cbool(c["rel"]), cz(c["nreaders"]), cz(c["f"]),
                                          "; ".join(op_term(x) for x in c["ops"]), cbool(c["fair"]), o)


def nontrivial(c, out):
    if out.startswith("PANIC"):
        return None
    frag = any(o[0] == "W" and len(o[1]) > c["f"] for o in c["ops"])
    delivered = (out + " ").split(" # ")[-1].strip() != ""
    rounds = any(o[0] in ("N", "A", "F") for o in c["ops"])
    if frag and (delivered or rounds):
        return case_line(c)
    return None


def distribution(cases, outs):
    d = {}
    for c, o in zip(cases, outs):
        kinds = set(x[0] for x in c["ops"])
        k = "rel" if c["rel"] else "be"
        if "X" in kinds:
            k += "/foreign"
        if "F" in kinds:
            k += "/forged"
        if "N" in kinds or "A" in kinds:
            k += "/repair"
        if c["nreaders"] == 2:
            k += "/2readers"
        if o.startswith("PANIC"):
            k += "/panic"
        d[k] = d.get(k, 0) + 1
        fk = "f=%d" % c["f"] if c["f"] in FSIZES else "f=other"
        d[fk] = d.get(fk, 0) + 1
        nmax = max([len(x[1]) for x in c["ops"] if x[0] == "W"] + [0])
        b = "len<=64" if nmax <= 64 else "len<=1k" if nmax <= 1024 else "len<=16k" if nmax <= 16384 else "len>16k"
        d[b] = d.get(b, 0) + 1
    return d


MANIFEST = {
    "text": ("Machine-checked proof (Coq) over a model of as_data_frag_submessage, the writer's fragment emission and its "
             "NACK_FRAG / ACKNACK answers, RtpsWriterProxy (push_data_frag, total_fragments_expected, "
             "reconstruct_data_from_frag, NACK_FRAG generation) and RtpsStatefulReader::on_data(_frag)_submessage. "
             "Proved for every payload and every fragment size 1..65535: the fragments concatenate to the payload, are "
             "numbered 1..ceil(len/f), the reader's expected count is that ceiling; reconstruct returns exactly the "
             "payload from ANY list that contains every fragment (any order, duplicates, copies for other readers, other "
             "samples interleaved) and nothing from an incomplete one; for EVERY history of writes, deliveries, losses, "
             "heartbeats, ACKNACK / NACK_FRAG rounds the reader only ever holds byte-identical payloads, once, in order, "
             "and nothing panics; a reliable reader that received every fragment holds the sample; every NACK_FRAG the "
             "reader emits has a fresh count and is processed; the fragment resent for number n is fragment n; lost "
             "fragments are repaired: one heartbeat -> NACK_FRAG -> resend round completes the sample when the missing "
             "fragments lie within 256 of the first one, k+1 rounds complete any sample of fewer than 2+256k fragments "
             "from any loss pattern. The model is tied to the code by driving the real RtpsStatefulWriter / "
             "RtpsStatefulReader on generated scenarios and comparing every observation with the model inside Coq; the "
             "property oracle judges the implementation's own trace."),
    "note": ("Trusted: Coq kernel + vm_compute; hand model FragModel.v (checked against the code on every run); the harness "
             "(plays the network, transcribes the heartbeat handling of communication_methods.rs); payloads above 1 kB "
             "are compared by length + 63-bit FNV-1a digest computed on both sides (PrimInt63 in FragCorr.v only). "
             "Axioms: none. Not covered: inline QoS / key-only fragments, non-ALIVE changes, fragment sizes above 65535 "
             "and 0, the datagram codec itself (C07). Six defects found by this check were repaired in /repo (fix commits "
             "9534038 46bd1ab f7fe2df d6a64f9 a2cc75b d077ac8); their inputs are regression cases."),
    "technique": "Coq proof (list induction, invariants over all histories) + differential correspondence with oracle evaluated in Coq",
}
