"""Shared by C01..C04: scenarios of the RTPS reliability protocol run through the simulated real
stack (harness bin `proto`), Coq terms of type Rel_case, generators."""
from vlib.core import cz, cbool, clist

CORR = "Proto.RelCorr"
CORR_MODULES = ["Proto.RelCorr"]
CASE_TYPE = "Rel_case"
HARNESS = "proto"
TRUSTED = ["theories/Proto/RelModel.v is a hand transcription of rtps/stateful_writer.rs, reader_proxy.rs, "
           "writer_proxy.rs, stateful_reader.rs and of the DCPS glue (communication_methods.rs handle_data/gap/"
           "heartbeat/acknack, writer_methods.rs write path and notify_acknowledgments, discovery_methods.rs "
           "add_matched_reader / remove_discovered_reader / remove_discovered_participant, reader_methods.rs "
           "notify_historical_data, the worker loop's poke) for ONE writer and ONE reader",
           "harness/src/sim.rs: hand-driven executor, simulated clock and in-memory network around the real stack"]
ASSUMPTIONS = ["one writer / one reader pair (independence of reader proxies is argued, not proved)",
               "payload bytes are abstracted to (key, serialized length, checksum); byte-level fragment reassembly is C05",
               "HEARTBEAT / ACKNACK counters do not reach 2^31 (wrap-around not modelled)",
               "the writer's max_blocking_time is 0 in every scenario (blocking behaviour itself is C27)",
               "liveness is stated for a healing period whose deliveries drain the network (termination of the "
               "exchange is observed on every scenario, not proved)"]

PRE = "cfg frag=%d ; P 0 ; P 0 ; T 0 t ; T 1 t ; PUB 0 ; SUB 1 ; netm ; W 0 0 rel=%d dur=%d hist=%d mbt=0 ; netm"
M64 = (1 << 64) - 1


def payload(n, seed):
    x = (seed * 6364136223846793005 + 1442695040888963407) & M64
    out = []
    for _ in range(n):
        x = (x * 6364136223846793005 + 1442695040888963407) & M64
        out.append((x >> 33) & 0xFF)
    return out


_ck = {}


def checksum(n, seed):
    k = (n, seed)
    if k not in _ck:
        h = 1469598103934665603
        for b in payload(n, seed):
            h ^= b
            h = (h * 1099511628211) & M64
        _ck[k] = h % 1000000007
    return _ck[k]


def ser_len(n):
    return 12 + 4 * ((n + 3) // 4)


# ------------------------------------------------------------------ case <-> line
# case = (frag, wrel, wtl, depth, ops); ops are tuples, see op_text
def op_text(o):
    k = o[0]
    if k == "w":
        return "w 0 %d %d %d" % (o[1], o[2], o[3])
    if k == "tk":
        return "adv %d" % (o[1] * 50000000)
    if k in ("dl", "dr", "du"):
        return "%s %d" % (k, o[1])
    if k == "x":
        return "x %s %s %d %d" % (o[1], o[2], o[3], o[4])
    if k == "pu":
        return "pu"
    if k == "t":
        return "t 0 0"
    if k == "R":
        return "R 0 1 rel=%d dur=%d ; netm" % (o[1], o[2])
    if k == "delR":
        return "delR 0 ; netm"
    if k == "delP":
        return "delall 1 ; delP 1 ; netm"
    if k == "heal":
        return " ; ".join(["adv 250000000 ; pu"] * o[1])
    if k in ("wa", "ha"):
        return k + " 0"
    if k in ("wp", "hp", "q", "now"):
        return k
    raise ValueError(o)


def case_line(c):
    frag, wrel, wtl, depth, ops = c
    return " ; ".join([PRE % (frag, wrel, wtl, depth)] + [op_text(o) for o in ops])


def parse_line(line):
    t = [x.strip() for x in line.split(";")]
    frag = int(t[0].split("frag=")[1])
    w = dict(x.split("=") for x in t[8].split()[3:])
    ops = []
    i = 10
    while i < len(t):
        p = t[i].split()
        i += 1
        if not p:
            continue
        if p[0] == "w":
            ops.append(("w", int(p[2]), int(p[3]), int(p[4])))
        elif p[0] == "adv":
            n = int(p[1]) // 50000000
            if n == 5 and i < len(t) and t[i] == "pu":
                i += 1
                if ops and ops[-1][0] == "heal":
                    ops[-1] = ("heal", ops[-1][1] + 1)
                else:
                    ops.append(("heal", 1))
            else:
                ops.append(("tk", n))
        elif p[0] in ("dl", "dr", "du"):
            ops.append((p[0], int(p[1])))
        elif p[0] == "x":
            ops.append(("x", p[1], p[2], int(p[3]), int(p[4])))
        elif p[0] == "pu":
            ops.append(("pu",))
        elif p[0] == "t":
            ops.append(("t",))
        elif p[0] == "R":
            q = dict(x.split("=") for x in p[3:])
            ops.append(("R", int(q.get("rel", 1)), int(q.get("dur", 0))))
            i += 1  # netm
        elif p[0] == "delR":
            ops.append(("delR",))
            i += 1
        elif p[0] == "delall":
            ops.append(("delP",))
            i += 2
        elif p[0] in ("wa", "ha"):
            ops.append((p[0],))
        elif p[0] in ("wp", "hp", "q", "now"):
            ops.append((p[0],))
        else:
            raise ValueError(line)
    return (frag, int(w["rel"]), int(w["dur"]), int(w["hist"]), ops)


# ------------------------------------------------------------------ Coq terms
def ch(sn, key, ln, sm):
    return "(mkCh %s %s %s %s)" % (cz(sn), cz(key), cz(ln), cz(sm))


def zl(xs):
    return clist([cz(x) for x in xs])


def sub_term(s):
    p = s.split(":")
    k = p[0]

    def st(x):
        return [int(y) for y in x.split(".")] if x else []
    if k == "D":
        return "SData " + ch(int(p[1]), 0, int(p[2]), 0)
    if k == "F":
        if p[3] != "1":
            return None
        return "SFrag %s %s" % (ch(int(p[1]), 0, int(p[5]), 0), p[2])
    if k == "H":
        if p[4] != "0":
            return None
        return "SHb %s %s %s" % (cz(int(p[1])), cz(int(p[2])), cz(int(p[3])))
    if k == "A":
        return "SAck %s %s %s" % (cz(int(p[1])), zl(st(p[2])), cz(int(p[3])))
    if k == "G":
        if p[3]:
            return None
        return "SGap %s %s" % (cz(int(p[1])), cz(int(p[2])))
    if k == "N":
        return "SNack %s %s %s %s" % (cz(int(p[1])), cz(int(p[2])), zl(st(p[3])), cz(int(p[4])))
    return None


def q_term(tok):
    ds = []
    for d in tok:
        hdr, subs = d.split("/")
        to_reader = hdr == "0>1"
        ss = [sub_term(s) for s in subs.split(",")] if subs else []
        if any(s is None for s in ss):
            return None
        ds.append("mkDg %s %s" % (cbool(to_reader), clist(ss)))
    return "OQuery " + clist(ds)


def code(tok):
    if tok == "PENDING":
        return -1
    if tok.startswith("E"):
        return int(tok[1:])
    return int(tok)


BIG = 999


def pairs(c, out):
    """[(action term, out term)] or None if the output cannot be represented."""
    frag, wrel, wtl, depth, ops = c
    toks = [x.strip() for x in out.split("|")]
    if len(toks) < 10 or toks[:7] != ["c", "P 0", "P 0", "T 0", "T 0", "PUB 0", "SUB 0"] or toks[8] != "W 0":
        return None
    if not toks[7].startswith("netm") or not toks[9].startswith("netm"):
        return None
    i = 10
    res = []

    def nxt():
        nonlocal i
        if i >= len(toks):
            raise IndexError
        i += 1
        return toks[i - 1].split()
    try:
        for o in ops:
            k = o[0]
            if k == "w":
                p = nxt()
                res.append(("AWrite %s %s %s" % (cz(o[1]), cz(ser_len(o[2])), cz(checksum(o[2], o[3]))),
                            "OCode %s" % cz(code(p[1]))))
            elif k == "tk":
                nxt()
                res += [("ATick", "ONone")] * o[1]
            elif k in ("dl", "dr", "du", "x"):
                p = nxt()
                a = {"dl": "ADeliver", "dr": "ADrop", "du": "ADup"}[p[0]]
                idx = int(p[1])
                want = o[1] if k != "x" else None
                if idx < 0:
                    res.append(("%s %d" % (a, want if want is not None else BIG), "OCode (-1)"))
                else:
                    res.append(("%s %d" % (a, idx), "OCode %d" % idx))
            elif k == "pu":
                p = nxt()
                res.append(("APump", "OCount %s" % p[1]))
            elif k == "t":
                p = nxt()
                if p[1] == "E11":
                    res.append(("ATake", "OTake []"))
                elif p[1].startswith("E"):
                    res.append(("ATake", "OCode %d" % code(p[1])))
                else:
                    n = int(p[1])
                    v = [int(x) for x in p[2:]]
                    if len(v) != 5 * n:
                        return None
                    items = []
                    for j in range(n):
                        key, ln, sm, ist, ts = v[5 * j:5 * j + 5]
                        if key < 0:
                            return None
                        items.append(ch(0, key, ser_len(ln), sm))
                    res.append(("ATake", "OTake " + clist(items)))
            elif k == "R":
                p = nxt()
                if p[1] != "0":
                    return None
                nxt()
                res.append(("AMatch %s %s" % (cbool(o[1]), cbool(o[2])), "ONone"))
            elif k == "delR":
                p = nxt()
                if p[1] != "0":
                    return None
                nxt()
                res.append(("ADelReader", "ONone"))
            elif k == "delP":
                p1, p2 = nxt(), nxt()
                if p1[1] != "0" or p2[1] != "0":
                    return None
                nxt()
                res.append(("ADelPart", "ONone"))
            elif k == "heal":
                for _ in range(o[1]):
                    nxt()
                    res += [("ATick", "ONone")] * 5
                    p = nxt()
                    res.append(("APump", "OCount %s" % p[1]))
            elif k in ("wa", "ha"):
                p = nxt()
                res.append(({"wa": "AWfa", "ha": "AWfh"}[k], "OCode %s" % cz(code(p[1]))))
            elif k in ("wp", "hp"):
                p = nxt()
                m = {"0": 0, "P": 1, "-": 2}
                if any(x not in m for x in p[1:]):
                    return None
                res.append(({"wp": "AWfaPoll", "hp": "AWfhPoll"}[k], "OPoll " + zl([m[x] for x in p[1:]])))
            elif k == "q":
                p = nxt()
                qt = q_term(p[1:])
                if qt is None:
                    return None
                res.append(("AQuery", qt))
            elif k == "now":
                p = nxt()
                res.append(("ANow", "OCount %s" % p[1]))
        if i != len(toks):
            return None
    except (IndexError, ValueError):
        return None
    return res


def case_term(c, out):
    if out is None or out.startswith(("ABORT", "HANG", "PANIC")):
        return None
    pr = pairs(c, out)
    if pr is None:
        return None
    frag, wrel, wtl, depth, ops = c
    return "mkCase (mkCfg %d %s %s %d) %s" % (
        frag, cbool(wrel), cbool(wtl), depth, clist(["(%s, %s)" % (a, o) for a, o in pr]))


def nontrivial(c, out):
    ops = c[4]
    nw = sum(1 for o in ops if o[0] == "w")
    nf = sum(1 for o in ops if o[0] in ("dr", "du", "x", "dl"))
    if nw >= 2 and nf >= 1 and " t " in (" " + out + " ") and any(ch.isdigit() for ch in out):
        return case_line(c)
    return None


def distribution(cases, outs):
    d = {}
    for c, o in zip(cases, outs):
        frag, wrel, wtl, depth, ops = c
        rd = [x for x in ops if x[0] == "R"]
        k = "w%s%s/h%d/" % ("R" if wrel else "B", "T" if wtl else "V", depth)
        k += ("r%s%s" % ("R" if rd[0][1] else "B", "T" if rd[0][2] else "V")) if rd else "noreader"
        if any(ser_len(x[2]) > frag for x in ops if x[0] == "w"):
            k += "/frag"
        if any(x[0] in ("delR", "delP") for x in ops):
            k += "/del"
        d[k] = d.get(k, 0) + 1
    return d


# ------------------------------------------------------------------ generators
FRAGS = [64, 128, 1344]
KINDS = ["DATA", "DATA_FRAG", "HEARTBEAT", "ACKNACK", "GAP", "NACK_FRAG", "ANY"]


def lens_for(r, frag, allow_frag):
    small = [0, 1, 3, 4, 10, frag - 12 - 3, frag - 12]          # serialized <= frag
    big = [frag - 12 + 1, frag - 12 + 4, 2 * frag - 12, 2 * frag - 12 + 1, 3 * frag - 11, 3000]
    if allow_frag and r.random() < 0.35:
        return r.choice(big)
    return max(0, r.choice(small))


def fault_ops(r, nsn, rate, frags):
    """a burst of network events on the currently queued datagrams"""
    ops = []
    for _ in range(r.randint(1, 5)):
        x = r.random()
        if x < rate:
            act = r.choice(["dr", "dr", "du", "dl"])
            if r.random() < 0.6:
                kind = r.choice(["DATA", "DATA", "HEARTBEAT", "ACKNACK", "GAP", "ANY"] + (["DATA_FRAG"] * 3 if frags else []))
                sn = r.randint(1, max(1, nsn)) if r.random() < 0.8 else -1
                fr = r.randint(1, 3) if kind == "DATA_FRAG" and r.random() < 0.7 else -1
                ops.append(("x", act, kind, sn, fr))
            else:
                ops.append((act, r.randint(0, 4)))
        elif x < rate + 0.35:
            ops.append(("dl", r.choice([0, 0, 0, 1, 2, 3])))
        elif x < rate + 0.45:
            ops.append(("tk", r.choice([1, 2, 4, 5])))
        elif x < rate + 0.5:
            ops.append(("pu",))
    return ops


def gen_case(r, focus):
    frag = r.choice(FRAGS)
    # with fragment sizes <= 128 the SEDP dispose of a deleted reader is not noticed by the writer's
    # participant at all (a discovery matter outside these properties): deletions use the default size
    will_del = focus == "C03" and r.random() < 0.2
    if will_del:
        frag = 1344
    allow_frag = r.random() < (0.35 if focus in ("C01", "C02") else 0.15)
    depth = r.choice([0, 0, 0, 1, 2, 3])
    nkeys = r.choice([1, 1, 2, 3])
    if focus == "C02":
        wrel = r.choice([0, 1])
        rrel, rtl = 0, 0
        wtl = r.choice([0, 0, 1])
    elif focus == "C04":
        wrel = r.choice([1, 1, 1, 0])
        wtl = r.choice([1, 1, 0])
        rrel = r.choice([1, 1, 0]) if wrel else 0
        rtl = r.choice([1, 1, 0]) if wtl else 0
    else:
        wrel, rrel = 1, 1
        wtl = r.choice([0, 0, 1])
        rtl = r.choice([0, 1]) if wtl else 0
    rate = r.choice([0.0, 0.2, 0.35, 0.5])
    ops = []
    late = (focus == "C04" and r.random() < 0.85) or (focus != "C04" and r.random() < 0.12)
    nw = r.randint(1, 8) if focus != "C04" else r.randint(1, 6)
    nsn = 0
    seed = r.randint(1, 10 ** 6)

    def wr():
        nonlocal nsn, seed
        nsn += 1
        seed += 1
        return ("w", r.randint(1, nkeys), lens_for(r, frag, allow_frag), seed)
    if late:
        for _ in range(r.randint(0, 5)):
            ops.append(wr())
            if r.random() < 0.1:
                ops.append(("tk", r.choice([1, 4])))
    ops.append(("R", rrel, rtl))
    if focus == "C04" and rtl and r.random() < 0.5:
        ops.append(("ha",))
    gone = False
    for _ in range(nw):
        ops.append(wr())
        ops += fault_ops(r, nsn, rate, allow_frag)
        if focus == "C03" and r.random() < 0.3:
            ops += [("wa",), ("t",)]
        if r.random() < 0.1:
            ops.append(("t",))
        if r.random() < 0.08:
            ops.append(("q",))
    if focus == "C03":
        ops += [("wa",), ("t",)]
        if will_del:
            ops.append(("delR",) if r.random() < 0.6 else ("delP",))
            gone = True
        if r.random() < 0.3:
            ops.append(wr())
            ops.append(("wa",))
            if not gone:
                ops.append(("t",))
    if r.random() < 0.85:
        ops.append(("q",))
        # a fragmented sample needs up to two heartbeat rounds of its own (ACKNACK -> fragment 1, NACK_FRAG -> rest)
        nfw = sum(1 for o in ops if o[0] == "w" and ser_len(o[2]) > frag)
        ops.append(("heal", min(14, r.choice([2, 2, 3]) + 2 * nfw)))
        if focus == "C03":
            ops += [("wp",), ("wa",)]
            if not gone:
                ops.append(("t",))
        elif focus == "C04":
            if rtl:
                ops += [("hp",), ("ha",)]
            ops.append(("t",))
            ops.append(("wa",))
        else:
            ops.append(("t",))
            if r.random() < 0.5:
                ops.append(("wa",))
        ops.append(("q",))
        if r.random() < 0.3:
            ops.append(("now",))
    else:
        ops.append(("pu",))
        if not gone:
            ops.append(("t",))
        ops.append(("q",))
    return (frag, wrel, wtl, depth, ops)


def gen_for(focus):
    def gen(r, tier):
        n = {"quick": 140, "search": 600, "thorough": 5000}[tier]
        return [gen_case(r, focus) for _ in range(n)]
    return gen
