"""C10 — XCDR encoding matches the DDS-XTypes standard as implemented independently (PARTIAL:
the oracle is Xcdr/SpecEncode.v, our transcription of the rule table of DDS-XTypes 1.3 7.4.3.5)."""
from props import C09 as g

PID = "C10"
PROPS_FILE = "Props/C10.v"
CORR = "Xcdr.SpecCorr"
CORR_MODULES = ["Xcdr.SpecCorr"]
PREFIX = "C10"
CASE_TYPE = "C10_case"
HARNESS = "c09"
LEVEL = "proof"
# classes 1 (C10-char8-utf8), 3 (C10-xcdr1-optional-origin), 4 (C10-float128-xcdr1-reader) were repaired in /repo
# (c6ffb24, addc370, 0b5427b)
KNOWN = {2: "C10-wstring-format"}
RULE = ("one case = a run-time built DynamicType + DynamicData (common subset: no mutable structure, no union) "
        "serialized by the real serializer and read back by the real deserializer; the bytes are compared inside Coq "
        "with the code model's encoder AND with the specification encoder, the decoded value with the input; "
        "distinct = distinct input line; non-trivial = serialization succeeded and the value has >= 2 storage nodes")
TRUSTED = ["theories/Xcdr/SpecEncode.v is OUR reading of DDS-XTypes 1.3 7.4.3.5.3 rules (1)-(20),(29),(30) and of the "
           "encapsulation header; it stands in for an independent DDS implementation (none is available offline)",
           "theories/Xcdr/XcdrModel.v (hand transcription of serializer.rs / deserializer.rs, tied by the correspondence)",
           "harness compiles /repo's serializer.rs and deserializer.rs unchanged via #[path]"]
ASSUMPTIONS = ["the oracle is our transcription of the standard, not a second implementation: PARTIAL",
               "rule (4) (wide strings) is read as: length = number of octets, no terminator; the implementation writes "
               "number of UTF-16 units + 1 and a NUL unit (recorded as C10-wstring-format, reading unconfirmed)",
               "mutable structures and unions are outside the compared subset (see the C09 findings)",
               "floats are raw bits; collections shorter than 2^32"]


def gen(r, tier):
    n = {"quick": 2300, "search": 6000, "thorough": 9000}[tier]
    cases = []
    for p in g.PRIMS:
        t = ("S", "A", [(0, 0, ("p", "u8")), (1, 0, ("p", p)), (2, 0, ("A", 2, ("p", p)))])
        for ver in (1, 2):
            for end in ("le", "be"):
                cases.append(("rt", ver, end, t, g.gen_value(r, t)))
    cases += g.phase_cases(r)
    while len(cases) < n:
        stage = 1 if r.random() < 0.5 else 2
        t = g.gen_struct(r, r.choice([0, 1, 1, 2, 2, 3]), stage)
        v = g.gen_value(r, t)
        if g.count_nodes(v) > 700 or g.est_size(v) > 3000:
            continue
        ver = r.choice([1, 2])
        end = r.choice(["le", "be"])
        if g.risky(ver, t, v):
            continue
        cases.append(("rt", ver, end, t, v))
    return cases


def corpus():
    P = lambda k: ("p", k)
    pv = lambda k, x: ("p", k, x)
    return [
        # struct Track { sequence<double> samples; unsigned long count; } = {[], 42}: XCDR1 has NO padding after the
        # zero length (rule (11) applies rule (2) once per element); and a nested variant with sequence<uint64>
        ("rt", 1, "le", ("S", "F", [(0, 0, ("Q", P("f64"))), (1, 0, P("u32"))]), ("d", [(0, ("q", "f64", [])), (1, pv("u32", 42))])),
        ("rt", 1, "be", ("S", "F", [(0, 0, P("u64")), (1, 0, ("S", "F", [(0, 0, ("Q", P("u64"))), (1, 0, P("u32"))]))]),
         ("d", [(0, pv("u64", 1)), (1, ("d", [(0, ("q", "u64", [])), (1, pv("u32", 42))]))])),
        ("rt", 2, "le", ("S", "F", [(0, 0, ("w",))]), ("d", [(0, ("s", [97]))])),
        ("rt", 2, "le", ("S", "F", [(0, 0, P("c8"))]), ("d", [(0, pv("c8", 233))])),
        ("rt", 1, "le", ("S", "F", [(0, 1, P("u8")), (1, 0, P("u64"))]), ("d", [(0, pv("u8", 1)), (1, pv("u64", 2))])),
        ("rt", 1, "be", ("S", "F", [(0, 0, P("u64")), (1, 0, P("f128"))]), ("d", [(0, pv("u64", 7)), (1, pv("f128", 9))])),
    ]


case_line = g.case_line
parse_line = g.parse_line
nontrivial = g.nontrivial
distribution = g.distribution


def case_term(c, out):
    t = g.case_term(c, out)
    return t


MANIFEST = {
    "text": ("PARTIAL. No independent DDS implementation exists in the sandbox; the oracle is SpecEncode.v, a second "
             "encoder written by us from the rule table of DDS-XTypes 1.3 7.4.3.5.3 with a structure independent of the "
             "code model (type-driven, offsets from the origin, ALIGN as a residue). Machine-checked proof (Coq): on the "
             "common subset (primitives, strings, enumerations, sequences, arrays, FINAL/APPENDABLE structures, optional "
             "members; XCDR1 and XCDR2, both byte orders) the implementation model's bytes equal the specification "
             "encoder's bytes and the implementation reads them back to the same value, outside one recorded class "
             "(wide strings, with a witness) and the case C09 reports (XCDR1 optional member with an empty value); "
             "three earlier classes (char8 >= 0x80, XCDR1 optional member origin, XCDR1 float128 reader) were repaired "
             "in /repo. The "
             "correspondence run compares the REAL serializer's bytes with both Coq encoders and the real "
             "deserializer's result with the input value. Mutable structures and unions are not compared."),
    "note": ("Partial because the oracle is our reading of the standard (in particular rule (4), wide strings, is recalled "
             "without the text at hand). Trusted: Coq kernel + vm_compute; SpecEncode.v; XcdrModel.v (tied to the code on every "
             "run); harness and comparator."),
    "technique": "Coq proof of encoder equality by induction on the type + differential correspondence against both encoders",
}
