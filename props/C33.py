"""C33 — each status change reaches exactly one listener, the most specific enabled one."""

PID = "C33"
PROPS_FILE = "Props/C33.v"
CORR = "Sched.ListenerCorr"
CORR_MODULES = ["Sched.ListenerCorr"]
PREFIX = "C33"
CASE_TYPE = "C33_case"
HARNESS = "lst"
KNOWN = {}
RULE = ("one case = one simulated three-participant scenario with RECORDING listeners (dust_dds::dds_async::*_listener "
        "traits) on seven writers / publisher / participant 0 and eight readers / subscriber / participant 1 (participant 2 is "
        "a plain remote peer), each level "
        "with its own (listener installed?, mask) configuration; the script raises publication/subscription matched, "
        "offered/requested incompatible QoS, new data, sample rejected (resource limits), offered/requested deadline "
        "missed and the loss of a match in all three ways (matched endpoint deleted, matched endpoint's QoS update "
        "incompatible, participant of the matched endpoint removed), plus two phases in which several changes are added "
        "to readers of one subscriber within ONE worker pass (one DATA accepted by two readers of the same topic; two "
        "samples merged into one datagram), and dumps the recorded calls after each phase; quick = the 128 "
        "configurations (3 installed bits x 3 data-available mask bits x data-on-readers bit; the 64 (installed, enabled) "
        "combinations of every other status appear twice) + random per-entity configurations; distinct = distinct "
        "scenario line; non-trivial = some callback was recorded at publisher/subscriber or participant level")
TRUSTED = ["theories/Sched/ListenerModel.v is a hand transcription of the dispatch chains of communication_methods.rs:306-372 "
           "and discovery_methods.rs:313-455, 1162-1434, 1779-2040, 2596-2627",
           "harness/src/bin/lst.rs recording listeners; deadlines are crossed with `jump` (clock moved without stopping at "
           "intermediate timer deadlines) because the worker spins on delay(0) when the simulated clock stands exactly at "
           "last_write + period"]
ASSUMPTIONS = ["a level whose mask enables a status but which has no listener object has the nil listener (DDS 1.4 2.2.4.2.3): "
               "the status is consumed there and nothing is called; the stricter reading is characterised by the theorems "
               "C33_strict_reading_eq_unless_swallowed / C33_swallowed_differs",
               "InconsistentTopic is modelled and proved but not raised in the simulation (type lookup between the two simulated "
               "participants never completes); SampleLost / LivelinessLost / LivelinessChanged are never raised by the implementation"]

KINDS = ["IT", "ODM", "RDM", "OIQ", "RIQ", "SL", "SR", "DOR", "DA", "LL", "LC", "PM", "SM"]
WKINDS = ["PM", "OIQ", "ODM"]
RKINDS = ["SM", "RIQ", "RDM", "SR", "DA"]
CONST = {"PM": 1, "OIQ": 2, "ODM": 3, "SM": 4, "RIQ": 5, "RDM": 6, "SR": 7, "DA": 0}
NW, NR = 7, 8        # W6 is matched with TWO readers (R6, R7) of the same subscriber on one topic
PHASES = [["EvPM 0", "EvPM 2", "EvPM 3", "EvPM 4", "EvPM 5", "EvPM 6", "EvPM 6", "EvOIQ 1",
           "EvSM 0", "EvSM 2", "EvSM 3", "EvSM 4", "EvSM 5", "EvSM 6", "EvSM 7", "EvRIQ 1"],
          ["EvData 0"], ["EvSR 0"], ["EvODM 0", "EvRDM 0"],
          ["EvData 6", "EvData 7"],                          # one DATA accepted by two readers in ONE worker pass
          ["EvData 6", "EvData 6", "EvData 7", "EvData 7"],  # two samples in one datagram: four changes in one pass
          ["EvPMun 0"],                      # the matched reader is deleted
          ["EvSMun 2"],                      # the matched writer is deleted
          ["EvPMupd 3", "EvOIQ 3"],          # the matched reader's QoS update is incompatible
          ["EvSMupd 4", "EvRIQ 4"],          # the matched writer's QoS update is incompatible
          ["EvPMgone 5", "EvSMgone 5"],      # the participant of the matched endpoints is removed
          []]                                # its endpoint disposals arrive afterwards: nothing more


def exhaustive(i):
    """configuration number i of 128: same configuration for the three writers / readers"""
    inst = [(i >> b) & 1 for b in range(3)]
    m = (i >> 3) & 7
    dor = (i >> 6) & 1
    lv = lambda side_kinds, b: (inst[b], sorted(k for k in side_kinds if ((m ^ CONST[k]) >> b) & 1))
    w, pub, p0 = lv(WKINDS, 0), lv(WKINDS, 1), lv(WKINDS, 2)
    r, sub, p1 = lv(RKINDS, 0), lv(RKINDS, 1), lv(RKINDS, 2)
    if dor:
        sub = (sub[0], sorted(sub[1] + ["DOR"]))
    return {"W": [w] * NW, "PUB": pub, "P0": p0, "R": [r] * NR, "SUB": sub, "P1": p1}


def rand_level(r, pool):
    k = r.random()
    if k < 0.15:
        mask = []
    elif k < 0.3:
        mask = list(KINDS)
    else:
        mask = [x for x in pool if r.random() < 0.45]
        if r.random() < 0.2:
            mask += [x for x in KINDS if x not in pool and r.random() < 0.3]
    return (1 if r.random() < 0.6 else 0, sorted(set(mask)))


def gen(r, tier):
    n_rand = {"quick": 40, "search": 200, "thorough": 1200}[tier]
    cases = [exhaustive(i) for i in range(128)]
    wp, rp = WKINDS, RKINDS + ["DOR"]
    for j in range(n_rand):
        c = {"W": [rand_level(r, wp) for _ in range(NW)], "PUB": rand_level(r, wp), "P0": rand_level(r, wp),
             "R": [rand_level(r, rp) for _ in range(NR)], "SUB": rand_level(r, rp), "P1": rand_level(r, rp)}
        if j % 2 == 1:
            # half of the random cases reach their configuration through set_listener
            c["SL"] = {k: rand_level(r, wp if k[0] in "W" or k in ("PUB", "P0") else rp) for k in ENT if r.random() < 0.5}
        cases.append(c)
    return cases


def corpus():
    none = (0, [])
    base = lambda: {"W": [none] * NW, "PUB": none, "P0": none, "R": [none] * NR, "SUB": none, "P1": none}
    out = []
    # regression (C33-data-available-no-fallback, fixed 8c56825): subscriber / participant fallback for data-available
    c = base(); c["R"] = [(1, [])] * NR; c["SUB"] = (1, ["DA"]); c["P1"] = (1, ["DA"]); out.append(c)
    c = base(); c["R"] = [(1, [])] * NR; c["SUB"] = (1, []); c["P1"] = (1, ["DA"]); out.append(c)
    # a mask-enabled level without listener consumes the status (nil listener)
    c = base(); c["R"] = [(0, ["SR", "SM", "DA"])] * NR; c["SUB"] = (1, ["SR", "SM", "DA"]); c["P1"] = (1, KINDS); out.append(c)
    # everything at participant level
    c = base(); c["P0"] = (1, KINDS); c["P1"] = (1, KINDS); out.append(c)
    # regression (C33-unmatch-no-listener, fixed 16b74b1): un-match with entity listeners;
    # (C33-incompatible-qos-repeated, fixed 1fc584d, is covered by every case: the counts are compared exactly)
    c = base(); c["W"] = [(1, ["PM"])] * NW; c["R"] = [(1, ["SM"])] * NR; out.append(c)
    # regression (C33-unmatch-no-listener-2): a match lost through an incompatible QoS update or the removal
    # of the participant reaches the publisher's / subscriber's / participant's listener as well
    c = base(); c["PUB"] = (1, ["PM"]); c["SUB"] = (1, ["SM"]); out.append(c)
    c = base(); c["W"] = [(1, [])] * NW; c["R"] = [(1, [])] * NR; c["P0"] = (1, ["PM"]); c["P1"] = (1, ["SM"]); out.append(c)
    # several changes added to readers of one subscriber in ONE worker pass: data-on-readers for EVERY change when the
    # subscriber's mask enables it (seeded C33: only the first change of a pass, the rest signalled as data-available)
    c = base(); c["R"] = [(1, ["DA"])] * NR; c["SUB"] = (1, ["DOR"]); c["P1"] = (1, ["DA"]); out.append(c)
    c = base(); c["R"] = [(1, [])] * NR; c["SUB"] = (1, ["DOR", "DA"]); out.append(c)
    c = base(); c["R"] = [(1, ["DA"])] * NR; c["SUB"] = (0, ["DOR"]); c["P1"] = (1, ["DA"]); out.append(c)
    c = base(); c["R"] = [(1, ["DA"])] * (NR - 1) + [(1, [])]; c["SUB"] = (1, ["DA"]); out.append(c)
    # configuration reached through set_listener: listener removed / installed / mask replaced
    c = base(); c["W"] = [(1, ["PM"]), (0, ["OIQ"]), (1, [])] + [(1, ["PM", "OIQ"])] * (NW - 3)
    c["R"] = [(0, []), (1, ["RIQ"]), (1, ["SM"])] + [(1, ["SM", "RIQ"])] * (NR - 3)
    c["PUB"] = (1, KINDS); c["SUB"] = (1, ["SM", "SR"]); c["P1"] = (1, KINDS)
    c["SL"] = {"W0": (1, KINDS), "W1": (1, KINDS), "R0": (1, KINDS), "R2": (0, []), "PUB": (0, []), "SUB": (1, KINDS), "P1": (0, KINDS)}
    out.append(c)
    return out


def lm(l):
    return "l=%d m=%s" % (l[0], ",".join(l[1]) if l[1] else "-")


ENT = ["P0", "P1", "PUB", "SUB", "W0", "R0", "W1", "R1", "W2", "R2", "W3", "R3", "W4", "R4", "W5", "R5", "W6", "R6", "R7"]


def final_cfg(c, key):
    return c[key[0]][int(key[1])] if key[0] in "WR" else c[key]


def case_line(c):
    sl = c.get("SL", {})
    # an entity listed in c["SL"] is created with that (old) configuration and re-configured with set_listener
    cr = lambda key: (lm(sl[key]) + " old=1") if key in sl else lm(final_cfg(c, key))
    # participant 2 is the plain remote peer of W5 / R5 (no listeners): its writer has index 7, its reader index 8
    s = ["P 0 " + cr("P0"), "P 0 " + cr("P1"), "P 0", "T 0 a", "T 1 a", "T 0 b", "T 1 b", "T 0 c", "T 1 c",
         "T 0 d", "T 1 d", "T 0 e", "T 1 e", "T 0 f", "T 2 f", "T 2 g", "T 1 g", "T 0 h", "T 1 h",
         "PUB 0 " + cr("PUB"), "SUB 1 " + cr("SUB"), "PUB 2", "SUB 2",
         "W 0 0 rel=1 dl=100000000 " + cr("W0"), "R 0 1 rel=1 dl=100000000 ms=1 mspi=1 " + cr("R0"),
         "W 0 2 rel=0 " + cr("W1"), "R 0 3 rel=1 " + cr("R1"),
         "W 0 4 rel=1 " + cr("W2"), "R 0 5 rel=1 " + cr("R2"),
         "W 0 6 rel=1 " + cr("W3"), "R 0 7 rel=1 " + cr("R3"),
         "W 0 8 rel=1 " + cr("W4"), "R 0 9 rel=1 " + cr("R4"),
         "W 0 10 rel=1 " + cr("W5"), "R 0 13 rel=1 " + cr("R5"),
         "W 0 14 rel=1 " + cr("W6"), "R 0 15 rel=1 " + cr("R6"), "R 0 15 rel=1 " + cr("R7"),
         "W 1 12 rel=1", "R 1 11 rel=1"]
    for key in ENT:
        if key in sl:
            kind, idx = (key[0], key[1]) if key[0] in "WR" else (("P", key[1]) if key[0] == "P" and key[1:].isdigit() else (key, "0"))
            s.append("SL %s %s %s" % (kind, idx, lm(final_cfg(c, key))))
    s += ["net", "adv 100000000", "net", "delW 1", "net", "ev",
         "w 0 1 10 1", "net", "ev",
         "w 0 1 10 2", "net", "ev",
         "jump 150000000", "net", "ev",
         "w 6 1 10 1", "net", "ev",
         "w 6 1 10 2", "w 6 2 10 3", "netm", "net", "ev",
         "delR 0", "net", "pm 0", "ev",
         "delW 2", "net", "sm 2", "ev",
         "Q R 3 dl=50000000", "net", "pm 3", "ev",
         "Q W 4 lb=1000000000", "net", "sm 4", "ev",
         "delall 2", "delP 2", "netw 256", "pm 5", "sm 5", "ev",
         "net", "ev"]
    return " ; ".join(s)


def parse_lm(tokens):
    l, m = 0, []
    for t in tokens:
        if t.startswith("l="):
            l = int(t[2:])
        if t.startswith("m="):
            m = [] if t[2:] == "-" else t[2:].split(",")
    return (l, m)


def parse_line(line):
    c = {"W": [], "R": [], "SL": {}}
    np = 0
    for o in [x.strip().split() for x in line.split(";")]:
        if o[0] == "P":
            if np < 2:
                c["P%d" % np] = parse_lm(o)
            np += 1
        elif o[0] in ("PUB", "SUB"):
            if o[0] not in c:
                c[o[0]] = parse_lm(o)
        elif o[0] in ("W", "R"):
            if len(c[o[0]]) < (NW if o[0] == "W" else NR):
                c[o[0]].append(parse_lm(o))
        elif o[0] == "SL":
            key = o[1] + o[2] if o[1] in "WRP" else o[1]
            new = parse_lm(o)
            if o[1] in "WR":
                c["SL"][key] = c[o[1]][int(o[2])]
                c[o[1]][int(o[2])] = new
            else:
                c["SL"][key] = c[key]
                c[key] = new
    return c


def lterm(l):
    return "(mkL %s [%s])" % ("true" if l[0] else "false", "; ".join("K" + k for k in l[1]))


def lab_term(s):
    for pre, con in (("PUB", "LPub"), ("SUB", "LSub")):
        if s.startswith(pre):
            return con if s[len(pre):] == "0" else None
    for pre, con in (("W", "LW"), ("R", "LR"), ("P", "LP")):
        if s.startswith(pre) and s[len(pre):].isdigit():
            return "(%s %s)" % (con, s[len(pre):])
    return None


def case_term(c, out):
    if out.startswith("PANIC") or out.startswith("HANG") or out.startswith("ABORT"):
        return None
    segs = [x.strip() for x in out.split("|")]
    if len(segs) != len(case_line(c).split(";")):
        return None
    obs = []
    for s in segs:
        t = s.split()
        if not t:
            return None
        if t[0] in ("P", "T", "PUB", "SUB", "W", "R", "w", "delW", "delR", "SL", "Q", "delall", "delP") and (len(t) < 2 or t[1] != "0"):
            return None
        # the un-match status changes did happen: current_count_change = -1
        # (total_count 1, current_count 0; the *_change fields depend on whether a listener read the status before)
        if t[0] in ("pm", "sm") and (len(t) != 5 or t[1] != "1" or t[3] != "0"):
            return None
        if t[0] == "ev":
            items = []
            for e in t[1:]:
                lab, k, n = e.split(":")
                lt = lab_term(lab)
                if lt is None or k not in KINDS:
                    return None
                items.append("((%s, K%s), %s%%nat)" % (lt, k, n))
            obs.append("[" + "; ".join(items) + "]")
    if len(obs) != len(PHASES):
        return None
    world = "(mkWorld [%s] %s %s [%s] %s %s)" % (
        "; ".join(lterm(x) for x in c["W"]), lterm(c["PUB"]), lterm(c["P0"]),
        "; ".join(lterm(x) for x in c["R"]), lterm(c["SUB"]), lterm(c["P1"]))
    phases = "[" + "; ".join("[" + "; ".join(p) + "]" for p in PHASES) + "]"
    return "mkC33 %s %s [%s]" % (world, phases, "; ".join(obs))


def nontrivial(c, out):
    if any(x in out for x in (" PUB0:", " SUB0:", " P0:", " P1:")):
        return case_line(c)
    return None


def distribution(cases, outs):
    d = {"calls at entity level": 0, "calls at publisher/subscriber level": 0, "calls at participant level": 0, "no call at all": 0}
    for c, o in zip(cases, outs):
        evs = [e for s in o.split("|") if s.strip().startswith("ev") for e in s.split()[1:]]
        if not evs:
            d["no call at all"] += 1
        if any(e[0] in "WR" for e in evs):
            d["calls at entity level"] += 1
        if any(e.startswith("PUB") or e.startswith("SUB") for e in evs):
            d["calls at publisher/subscriber level"] += 1
        if any(e.startswith("P0") or e.startswith("P1") for e in evs):
            d["calls at participant level"] += 1
    return d


MANIFEST = {
    "text": ("Machine-checked proof (Coq) over a model with one function per listener dispatch chain exactly as coded: for "
             "sample rejected, requested/offered deadline missed, subscription/publication matched (gained and lost), "
             "requested/offered incompatible QoS, inconsistent topic and new data the chain equals the DDS rule (entity's "
             "listener if its mask enables the status, else publisher's/subscriber's, else participant's, none if no mask "
             "enables it; new data as data-on-readers on the subscriber when enabled there, as data-available otherwise) "
             "for every listener/mask configuration, and exactly one or zero listener is called per status change in every "
             "history, also when listeners are replaced in between. The model is tied to the code by whole-stack simulation "
             "with recording listeners at all three levels over all 128 configurations of the decision table and random "
             "per-entity configurations (half of them reached through set_listener), every recorded callback with its "
             "multiplicity compared with the model inside Coq."),
    "note": ("Trusted: Coq kernel + vm_compute; hand model ListenerModel.v; the simulator harness with recording listeners. "
             "Axioms: none. The three defects found here are fixed in /repo (8c56825, 16b74b1, 1fc584d) and kept as "
             "regression cases. A mask-enabled level without listener object consumes the status (nil listener), as in DDS. "
             "Not covered: InconsistentTopic in simulation."),
    "technique": "Coq proof (finite case analysis per chain, induction over histories) + whole-stack simulation correspondence",
}
