"""C38 — set_fragment_size accepts exactly 8..=65000 and leaves the old value on rejection."""
from vlib.core import cz

PID = "C38"
PROPS_FILE = "Props/C38.v"
CORR = "Transport.FragSizeCorr"
CORR_MODULES = ["Transport.FragSizeCorr"]
PREFIX = "C38"
CASE_TYPE = "C38_case"
HARNESS = "c38"
KNOWN = {}
RULE = ("a case is a sequence of 1-6 set_fragment_size calls on a fresh factory, values from every usize class "
        "(0, 7, 8, 9, 1344, 64999, 65000, 65001, 2^16, 2^32, 2^63, usize::MAX and random); distinct = distinct "
        "sequence; non-trivial = contains at least one accepted and one rejected value")
TRUSTED = ["theories/Transport/FragSizeModel.v transcribes udp_transport.rs::set_fragment_size"]
ASSUMPTIONS = ["usize is 64 bit"]
VALS = [0, 1, 7, 8, 9, 10, 1344, 64999, 65000, 65001, 65535, 65536, 2**31, 2**32, 2**63, 2**64 - 1]


def gen(r, tier):
    n = {"quick": 1500, "search": 6000, "thorough": 40000}[tier]
    cases = [[a, b] for a in VALS for b in VALS] + [[a] for a in VALS]
    while len(cases) < n:
        k = r.randint(1, 6)
        cases.append([r.choice(VALS) if r.random() < 0.6 else (r.randint(0, 70000) if r.random() < 0.7 else r.randint(0, 2**64 - 1)) for _ in range(k)])
    return cases


def corpus():
    return [[3], [3, 100], [7, 8, 65000, 65001]]


def case_line(c):
    return " ".join(str(x) for x in c)


def parse_line(line):
    return [int(x) for x in line.split()]


def case_term(c, out):
    p = out.split()
    if not p or not all(x.lstrip("-").isdigit() for x in p):
        return None
    xs = [int(x) for x in p]
    if xs[0] != 1344 or len(xs) != 1 + 2 * len(c):
        return None
    obs = "; ".join("(%s, %s)" % (cz(xs[i]), cz(xs[i + 1])) for i in range(1, len(xs), 2))
    return "mkC38 [%s] [%s]" % ("; ".join(cz(x) for x in c), obs)


def nontrivial(c, out):
    acc = any(8 <= x <= 65000 for x in c)
    rej = any(not (8 <= x <= 65000) for x in c)
    return tuple(c) if acc and rej else None


def distribution(cases, outs):
    d = {"accepted_calls": 0, "rejected_calls": 0}
    for c in cases:
        for x in c:
            d["accepted_calls" if 8 <= x <= 65000 else "rejected_calls"] += 1
    return d


MANIFEST = {
    "text": ("Coq proof over the model of set_fragment_size: accepted iff 8 <= n <= 65000, rejected with BadParameter "
             "otherwise, a rejected call leaves the stored value unchanged, and for every call history the stored "
             "value stays in range. Tied to the code by running call sequences over every usize class on the real "
             "RtpsUdpTransportParticipantFactory and comparing result and stored value after each call inside Coq."),
    "note": "Trusted: Coq kernel, the 10-line hand model (checked by the correspondence run), harness. Axioms: none.",
    "technique": "Coq proof (case analysis + induction over call histories) + differential correspondence",
}
