"""C19 — resource limits are enforced and rejections are reported (reader history cache)."""
from props._reader import *  # noqa
from props import _reader

PID = "C19"
PROPS_FILE = "Props/C19.v"
PREFIX = "C19"
KNOWN = {}
RULE = ("a case is a reader QoS with max_samples 1-6, max_instances 1-3, max_samples_per_instance 1-4 (each set or "
        "unlimited, with KEEP_ALL or KEEP_LAST 1-4) plus a sequence of 1-40 operations (add_reader_change of all "
        "change kinds from 1-3 writers over 1-4 instances, read/take/next_instance with random masks, match/unmatch) "
        "run on a fresh real UserDefinedDataReader; distinct = distinct operation line; non-trivial = at least two "
        "adds, one read/take and one stored sample")
gen = _reader.gen_for("limits")


def corpus():
    return [
        # all three reasons and the priority samples > instances > per-instance in one history
        parse_line("Q 0 0 3 2 2 0 0 ; A 1 1 0 1 101 10 ; A 1 1 0 2 102 20 ; A 1 1 0 3 103 30 ; A 1 2 0 4 104 40 ; "
                   "A 1 3 0 5 105 50 ; T 1 3 3 7 -1 ; A 1 3 0 6 106 60 ; R 10 3 3 7 -1"),
        # not-alive samples count against max_samples (fix a2ae1ce)
        parse_line("Q 0 0 2 -1 -1 0 0 ; A 1 1 0 1 101 10 ; A 1 1 2 2 102 20 ; A 1 1 0 3 103 30 ; R 10 3 3 7 -1"),
        # KEEP_LAST replacement at max_samples: not rejected, total stays at the limit
        parse_line("Q 0 1 2 -1 1 0 0 ; A 1 1 0 1 101 10 ; A 1 2 0 2 102 20 ; A 1 1 0 3 103 30 ; A 1 3 0 4 104 40 ; "
                   "R 10 3 3 7 -1"),
        # max_instances: a taken instance frees its slot
        parse_line("Q 0 0 -1 1 -1 0 0 ; A 1 1 0 1 101 10 ; A 1 2 0 2 102 20 ; T 10 3 3 7 -1 ; A 1 2 0 3 103 30 ; "
                   "A 1 1 0 4 104 40 ; R 10 3 3 7 -1"),
        # limit 0 rejects everything
        parse_line("Q 0 0 0 -1 -1 0 0 ; A 1 1 0 1 101 10 ; R 10 3 3 7 -1"),
        # by-source order with limits
        parse_line("Q 1 2 3 2 2 0 0 ; A 1 1 0 9 101 10 ; A 1 1 0 2 102 20 ; A 1 1 0 5 103 30 ; A 2 2 0 1 104 40 ; "
                   "A 1 3 0 7 105 50 ; R 10 3 3 7 -1"),
    ]


MANIFEST = {
    "text": ("READER: Coq proofs over the model of the reader cache, for every QoS (limits that are set are >= 0; no "
             "consistency condition is needed) and every operation history: the number of stored samples, of distinct "
             "instances among them, and of samples of any one instance never exceed max_samples, max_instances, "
             "max_samples_per_instance; in any state a change that is not accepted (Rejected, NotAdded, error) leaves "
             "the stored samples untouched and every stored sample is one that was accepted; the result is Rejected "
             "with reason samples / instances / samples-per-instance exactly when (iff) the change passed the ownership "
             "and time-filter gates and that limit is exactly full and storing would add one (not a KEEP_LAST "
             "replacement / a new instance), in the code's priority order; a change that passes the gates and hits no "
             "limit is stored. WRITER: Coq proofs over a model of DataWriterEntity::write_w_timestamp and of the "
             "KEEP_LAST step of its caller: over every history of DataWriter::write calls (set limits >= 0, depth >= 1) "
             "total samples, registered instances and samples per instance never exceed the limits; OutOfResources is "
             "returned exactly when (iff) one of the three tests of the code is met; a refused write changes nothing: no "
             "sample, no sequence number, nothing handed to the transport writer and no instance record (the former "
             "deviation C19-failed-write-registers-instance is fixed, 3010f06); an accepted write records exactly one; a "
             "KEEP_LAST replacement is never followed by a refusal. Both models are tied to the code by exact comparison "
             "of every return value and of the state on generated histories evaluated inside Coq (harness rdr: real "
             "UserDefinedDataReader; harness c19w: real DataWriterEntity with a recording mock transport writer); the "
             "oracles C19_oracle_ok / C19W_oracle_ok judge the real code's own outputs. NOT covered: the "
             "SampleRejectedStatus counters (increment_sample_rejected_status and its call site in "
             "communication_methods.rs consume the AddChangeResult::Rejected value characterised here); the reliable "
             "writer's wait for acknowledgements before a KEEP_LAST replacement; register/unregister/dispose."),
    "note": ("Trusted: Coq kernel, hand models ReaderModel.v / WriterModel.v (correspondence-checked each run), "
             "harnesses (c19w repeats the caller's 20-line KEEP_LAST step of writer_methods.rs on the real entity), "
             "generators. Axioms: none. Defect fixed earlier: reader max_samples counted only Alive samples (a2ae1ce). "
             "Observations reported, not judged by the oracle: writer `samples` bookkeeping is only ever reduced by the "
             "KEEP_LAST step, so a KEEP_ALL writer with max_samples(_per_instance) N refuses every write after N "
             "accepted ones for ever, also after acknowledgement or lifespan expiry; unregister keeps the instance "
             "entry (only its `registered` flag is cleared), so max_instances counts instances ever written; a sample already expired at write time is "
             "counted but never sent; a Rejected/NotAdded reader change has already updated the instance state (C22)."),
    "technique": "Coq proof (limit invariants by induction over operation histories; exact case analysis of add_reader_change and write_w_timestamp) + differential correspondence (reader and writer harness)",
}


# ====================================================================== writer clause
# DataWriterEntity::write_w_timestamp (+ the caller's KEEP_LAST step) against Cache/WriterModel.v,
# harness bin c19w; evaluated with the C19W_* functions of Cache/WriterCorr.v.
from vlib import core as _core  # noqa: E402

CORR_MODULES = ["Cache.ReaderCorr", "Cache.WriterCorr"]
W_KNOWN = {}   # C19-failed-write-registers-instance was fixed in /repo (3010f06); its inputs stay in w_corpus()
TRUSTED = list(_reader.TRUSTED) + [
    "theories/Cache/WriterModel.v is a hand transcription of DataWriterEntity::write_w_timestamp "
    "(data_writer_entity.rs:73-178) and of the KEEP_LAST step of its caller (writer_methods.rs:355-405, branch "
    "without the wait for acknowledgements); harness c19w.rs repeats that caller step on the real entity and "
    "uses a recording mock for the transport writer"]
ASSUMPTIONS = list(_reader.ASSUMPTIONS) + [
    "writer: limits that are set are >= 0, depth < 2^31, sequence numbers stay below 2^63; the reliable "
    "writer's wait for acknowledgements before the KEEP_LAST replacement is not modelled"]


def w_lim(x):
    return "None" if x < 0 else "(Some %d)" % x


def w_qos_term(q):
    return "(mkWQ %s %s %s %s %s)" % ("None" if q[0] == 0 else "(Some %d)" % q[0], w_lim(q[1]), w_lim(q[2]),
                                      w_lim(q[3]), w_lim(q[4]))


def w_case_line(c):
    q, ops = c
    return "Q " + " ".join(str(x) for x in q) + " ; " + " ; ".join(n + " " + " ".join(str(x) for x in v) for n, v in ops)


def w_op_term(o):
    n, v = o
    if n == "P":
        return "WPre %d" % v[0]
    return "%s %d %d %d %d" % ("WWrite" if n == "W" else "WApp", v[0], v[1], v[2], v[3])


def w_case_term(c, out):
    q, ops = c
    if out.startswith("PANIC") or out.startswith("ABORT") or out.startswith("HANG"):
        return None
    toks = [t.strip() for t in out.split("|")]
    if len(toks) != len(ops) + 1:
        return None
    try:
        evs = []
        for t in toks[:-1]:
            f = t.split()
            assert f[1] == "n"
            ni = int(f[2])
            snap = ["(%s, %s)" % (f[3 + 2 * i], f[4 + 2 * i]) for i in range(ni)]
            rest = f[3 + 2 * ni:]
            assert rest[0] == "c" and rest[2] == "s"
            evs.append("mkWev %s [%s] %s %s" % (f[0], "; ".join(snap), rest[1], rest[3]))
        f = toks[-1].split()
        assert f[0] == "F" and f[1] == "n"
        ni = int(f[2])
        k = 3
        insts = []
        for _ in range(ni):
            h, lwt, ln = int(f[k]), int(f[k + 1]), int(f[k + 2])
            seqs = f[k + 3:k + 3 + ln]
            k += 3 + ln
            insts.append("mkWI %d %s [%s]" % (h, w_lim(lwt), "; ".join(seqs)))
        assert f[k] == "C"
        nc = int(f[k + 1])
        k += 2
        chs = []
        for _ in range(nc):
            chs.append("mkCh %s %s %s %s" % tuple(f[k:k + 4]))
            k += 4
        assert f[k] == "S"
        fs = f[k + 1]
    except (IndexError, ValueError, AssertionError):
        return None
    return "mkWr %s [%s] [%s] [%s] [%s] %s" % (w_qos_term(q), "; ".join(w_op_term(o) for o in ops), "; ".join(evs),
                                               "; ".join(insts), "; ".join(chs), fs)


def w_gen_case(r):
    hist = r.choice([1, 2, 2, 3]) if r.random() < 0.6 else 0
    if r.random() < 0.04:
        hist = r.choice([4, 5])
    mspi = r.choice([1, 2, 3, 4]) if r.random() < 0.5 else -1
    if hist and 0 < mspi < hist and r.random() < 0.8:
        mspi = hist                      # mostly consistent QoS, sometimes depth > mspi
    ms = r.choice([1, 2, 3, 4, 6, 8]) if r.random() < 0.5 else -1
    if ms > 0 and mspi > 0 and ms < mspi and r.random() < 0.8:
        ms = mspi
    mi = r.choice([1, 2, 3]) if r.random() < 0.4 else -1
    if r.random() < 0.03:
        ms, mi, mspi = r.choice([(0, -1, -1), (-1, 0, -1), (-1, -1, 0)])
    life = -1 if r.random() < 0.7 else r.choice([0, 5, 10, 50])
    q = [hist, ms, mi, mspi, life]
    ninst = r.choice([1, 2, 3, 4])
    nops = r.randint(1, 12) if r.random() < 0.7 else r.randint(13, 30)
    raw = r.random() < 0.25              # entity-level cases: W and P separately
    ops, data, clock = [], 100, 10
    for _ in range(nops):
        clock += r.randint(0, 8)
        data += 1
        h = r.randint(1, ninst)
        ts = clock if r.random() < 0.7 else r.randint(0, clock + 10)
        now = clock if r.random() < 0.6 else clock + r.randint(0, 60)
        x = r.random()
        if raw and x < 0.2:
            ops.append(("P", [h]))
        elif raw and x < 0.7:
            ops.append(("W", [h, data, ts, now]))
        else:
            ops.append(("A", [h, data, ts, now]))
    return (q, ops)


def w_corpus():
    return [_reader.parse_line(x) for x in [
        # regression (fixed finding C19-failed-write-registers-instance, 3010f06): the write of instance 2 is refused
        # for max_samples and must not register it; instance 3 is refused for max_samples too, not max_instances
        "Q 0 1 2 -1 -1 ; A 1 101 10 10 ; A 2 102 20 20 ; A 3 103 30 30",
        # KEEP_LAST 2 = max_samples_per_instance: the oldest is replaced, never OutOfResources
        "Q 2 -1 -1 2 -1 ; A 1 101 10 10 ; A 1 102 20 20 ; A 1 103 30 30 ; A 1 104 40 40",
        # the entity alone relies on its caller: raw writes exceed max_samples_per_instance
        "Q 2 -1 -1 2 -1 ; W 1 101 10 10 ; W 1 102 20 20 ; W 1 103 30 30",
        # each limit once (KEEP_ALL)
        "Q 0 3 2 2 -1 ; A 1 101 10 10 ; A 1 102 20 20 ; A 1 103 30 30 ; A 2 104 40 40 ; A 2 105 50 50 ; A 3 106 60 60",
        # a sample already expired when written is counted but not handed to the transport
        "Q 0 -1 -1 2 5 ; A 1 101 10 10 ; A 1 102 10 30 ; A 1 103 30 30",
        # inconsistent QoS depth 3 > max_samples_per_instance 2
        "Q 3 -1 -1 2 -1 ; A 1 101 10 10 ; A 1 102 20 20 ; A 1 103 30 30",
    ]]


def extra(ctx, binary):
    wbin, out = _core.cargo_build(ctx, bin="c19w")
    if wbin is None:
        ctx.broken.append("writer harness c19w does not build against the current /repo tree: " + out[-600:])
        return
    n = {"quick": 1000, "thorough": 20000}.get(ctx.tier, 1000)
    cases = w_corpus() + [w_gen_case(ctx.rng) for _ in range(n)]
    lines = [w_case_line(c) for c in cases]
    outs = _core.run_harness(wbin, "c19w", lines)
    terms, usable = [], []
    for i, (c, o) in enumerate(zip(cases, outs)):
        t = w_case_term(c, o)
        if t is None:
            ctx.violations.append(("impl-crash", "writer: implementation output %r on case %s" % (o, lines[i]),
                                   {"case": lines[i], "impl_output": o, "harness": "c19w"}))
            continue
        terms.append(t)
        usable.append(i)
    model_bad, oracle_bad, err = _core.coq_eval_cases(ctx, "Cache.WriterCorr", "C19W", "Wr_case", terms, tag="writer")
    if err:
        ctx.broken.append("writer correspondence evaluation failed: " + err[-600:])
    known = _core.known_ids(ctx.pid)
    bad = []
    for j, cls in oracle_bad:
        fid = W_KNOWN.get(cls)
        if fid is not None and fid in known:
            ctx.known_seen.setdefault(fid, lines[usable[j]])
        else:
            bad.append(usable[j])
    for i in bad[:5]:
        ctx.violations.append(("oracle", "writer: property oracle rejects implementation behaviour on case: %s -> %s"
                               % (lines[i], outs[i]), {"case": lines[i], "harness": "c19w", "impl_output": outs[i]}))
    if model_bad and not bad:
        i0 = usable[model_bad[0]]
        ctx.broken.append("correspondence C19W: implementation differs from model on %d case(s), e.g. %s -> %s"
                          % (len(model_bad), lines[i0], outs[i0]))
    ctx.cov["writer_evaluations"] = len(cases)
    ctx.cov["writer_model_disagreements"] = len(model_bad)
    ctx.cov["writer_refused_writes"] = sum(o.count("| 1 n") + o.startswith("1 n") for o in outs)
    ctx.cov["writer_accepted_writes"] = (sum(o.count("| 0 n") + o.startswith("0 n") for o in outs)
                                         - sum(1 for c in cases for o in c[1] if o[0] == "P"))
    ctx.cov["writer_known_class_cases"] = len(oracle_bad) - len(bad)
    ctx.cov["writer_rule"] = ("a case is a writer QoS (KEEP_ALL or KEEP_LAST 1-5, max_samples/max_instances/"
                              "max_samples_per_instance unlimited or 0-6, lifespan infinite or 0-50 ns) plus 1-30 "
                              "operations over 1-4 instances on a fresh real DataWriterEntity: A = caller's KEEP_LAST step "
                              "+ write_w_timestamp, in a quarter of the cases also the two steps separately")
