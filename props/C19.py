"""C19 — resource limits are enforced and rejections are reported (reader history cache)."""
from props._reader import *  # noqa
from props import _reader

PID = "C19"
PROPS_FILE = "Props/C19.v"
PREFIX = "C19"
KNOWN = {}
RULE = ("a case is a reader QoS with max_samples 1-6, max_instances 1-3, max_samples_per_instance 1-4 (each set or "
        "unlimited, with KEEP_ALL or KEEP_LAST 1-4) plus a sequence of 1-40 operations (add_reader_change of all "
        "change kinds from 1-3 writers over 1-4 instances, read/take/next_instance with random masks, match/unmatch) "
        "run on a fresh real UserDefinedDataReader; distinct = distinct operation line; non-trivial = at least two "
        "adds, one read/take and one stored sample")
gen = _reader.gen_for("limits")


def corpus():
    return [
        # all three reasons and the priority samples > instances > per-instance in one history
        parse_line("Q 0 0 3 2 2 0 0 ; A 1 1 0 1 101 10 ; A 1 1 0 2 102 20 ; A 1 1 0 3 103 30 ; A 1 2 0 4 104 40 ; "
                   "A 1 3 0 5 105 50 ; T 1 3 3 7 -1 ; A 1 3 0 6 106 60 ; R 10 3 3 7 -1"),
        # not-alive samples count against max_samples (fix a2ae1ce)
        parse_line("Q 0 0 2 -1 -1 0 0 ; A 1 1 0 1 101 10 ; A 1 1 2 2 102 20 ; A 1 1 0 3 103 30 ; R 10 3 3 7 -1"),
        # KEEP_LAST replacement at max_samples: not rejected, total stays at the limit
        parse_line("Q 0 1 2 -1 1 0 0 ; A 1 1 0 1 101 10 ; A 1 2 0 2 102 20 ; A 1 1 0 3 103 30 ; A 1 3 0 4 104 40 ; "
                   "R 10 3 3 7 -1"),
        # max_instances: a taken instance frees its slot
        parse_line("Q 0 0 -1 1 -1 0 0 ; A 1 1 0 1 101 10 ; A 1 2 0 2 102 20 ; T 10 3 3 7 -1 ; A 1 2 0 3 103 30 ; "
                   "A 1 1 0 4 104 40 ; R 10 3 3 7 -1"),
        # limit 0 rejects everything
        parse_line("Q 0 0 0 -1 -1 0 0 ; A 1 1 0 1 101 10 ; R 10 3 3 7 -1"),
        # by-source order with limits
        parse_line("Q 1 2 3 2 2 0 0 ; A 1 1 0 9 101 10 ; A 1 1 0 2 102 20 ; A 1 1 0 5 103 30 ; A 2 2 0 1 104 40 ; "
                   "A 1 3 0 7 105 50 ; R 10 3 3 7 -1"),
    ]


MANIFEST = {
    "text": ("READER side, Coq proofs over the model of the reader cache, for every QoS (limits that are set are "
             ">= 0; no consistency condition is needed) and every operation history: the number of stored samples, "
             "of distinct instances among them, and of samples of any one instance never exceed max_samples, "
             "max_instances, max_samples_per_instance; in any state a change that is not accepted (Rejected, "
             "NotAdded, error) leaves the stored samples untouched and every stored sample is one that was accepted; "
             "the result is Rejected with reason samples / instances / samples-per-instance exactly when (iff) the "
             "change passed the ownership and time-filter gates and that limit is exactly full and storing would add "
             "one (not a KEEP_LAST replacement / a new instance), in the code's priority order; a change that passes "
             "the gates and hits no limit is stored. The model is tied to the code by exact comparison (every return "
             "value incl. the rejection reason, state before every read/take, final cache) on generated histories "
             "evaluated inside Coq; C19_oracle_ok judges the real reader's own outputs. NOT covered: the "
             "SampleRejectedStatus counters (increment_sample_rejected_status and its call site in "
             "communication_methods.rs take the AddChangeResult::Rejected value proved here) and the WRITER side "
             "(DataWriterEntity returning OutOfResources and storing nothing)."),
    "note": ("Trusted: Coq kernel, hand model ReaderModel.v (correspondence-checked each run), harness, generator. "
             "Axioms: none. Defect fixed earlier: max_samples counted only Alive samples (fix commit a2ae1ce). "
             "Observation: a Rejected/NotAdded change has already updated the instance state (recorded under C22)."),
    "technique": "Coq proof (limit invariant by induction over operation histories; exact case analysis of add_reader_change) + differential correspondence",
}
