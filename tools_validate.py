#!/usr/bin/env python3-vt
import json, jsonschema, glob, sys
ok = True
m = json.load(open('/verif/MANIFEST.json'))
jsonschema.validate(m, json.load(open('/root/.vp/MANIFEST.schema.json')))
es = json.load(open('/root/.vp/EVIDENCE.schema.json'))
for f in sorted(glob.glob('/verif/evidence/*.json')):
    try:
        jsonschema.validate(json.load(open(f)), es)
    except Exception as e:
        ok = False
        print("INVALID", f, str(e)[:300])
print("manifest ok; checks:", len(m['checks']), "not_applicable:", len(m.get('not_applicable', [])))
sys.exit(0 if ok else 1)
