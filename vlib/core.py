"""Shared machinery of ./check: Coq build + audit, harness build + run,
correspondence evaluation inside Coq (vm_compute), known findings, evidence."""
import fcntl
import hashlib
import json
import os
import random
import re
import subprocess
import sys
import time

VERIF = os.path.dirname(os.path.dirname(os.path.abspath(__file__)))
COQ = os.path.join(VERIF, "coq")
CACHE = os.path.join(VERIF, ".cache")
HARNESS = os.path.join(VERIF, "harness")
REPO = os.environ.get("VERIF_REPO", "/repo")
GUARD = "dust_dds_verif"
NPROC = int(os.environ.get("VERIF_NPROC", "16"))

FORBIDDEN = re.compile(
    r"\b(Admitted|admit|Axiom|Axioms|Parameter|Parameters|Conjecture|Conjectures|"
    r"Hypothesis|Hypotheses|Variable|Variables|Abort)\b|Unset\s+Guard|bypass_check|"
    r"Unset\s+Positivity|Unset\s+Universe|type-in-type|impredicative-set|native_compute"
)
# standard-library axioms a theorem may depend on (named in the trusted base when seen)
ALLOWED_AXIOMS = {
    "functional_extensionality_dep",
    "FunctionalExtensionality.functional_extensionality_dep",
    "proof_irrelevance",
    "ProofIrrelevance.proof_irrelevance",
    "Eqdep.Eq_rect_eq.eq_rect_eq",
    "Eq_rect_eq.eq_rect_eq",
    "JMeq_eq",
    "JMeq.JMeq_eq",
    "classic",
    "Classical_Prop.classic",
}


class Ctx:
    def __init__(self, pid, tier, seed):
        self.pid = pid
        self.tier = tier
        self.seed = seed
        self.t0 = time.time()
        self.rng = random.Random(f"{pid}-{seed}")
        self.log = []
        self.known_seen = {}  # finding id -> example text
        self.violations = []  # (kind, text, replay_payload)
        self.broken = []  # names of theorems / correspondences that no longer check
        self.cov = {}
        self.assumptions = []

    def say(self, *a):
        print(*a, flush=True)


def sh(cmd, cwd=None, timeout=None, env=None, input=None):
    e = dict(os.environ)
    e["CARGO_NET_OFFLINE"] = "true"
    if env:
        e.update(env)
    try:
        p = subprocess.run(
            cmd, cwd=cwd, timeout=timeout, env=e, input=input,
            stdout=subprocess.PIPE, stderr=subprocess.STDOUT, text=True,
            shell=isinstance(cmd, str),
        )
        return p.returncode, p.stdout
    except subprocess.TimeoutExpired as ex:
        out = ex.stdout or ""
        if isinstance(out, bytes):
            out = out.decode(errors="replace")
        return 124, out + "\n[timeout]"


class Lock:
    def __init__(self, name):
        os.makedirs(CACHE, exist_ok=True)
        self.path = os.path.join(CACHE, name + ".lock")

    def __enter__(self):
        self.f = open(self.path, "w")
        fcntl.flock(self.f, fcntl.LOCK_EX)
        return self

    def __exit__(self, *a):
        fcntl.flock(self.f, fcntl.LOCK_UN)
        self.f.close()


# --------------------------------------------------------------------------- Coq

def coq_files():
    out = []
    for d, _, fs in os.walk(os.path.join(COQ, "theories")):
        for f in fs:
            if f.endswith(".v"):
                out.append(os.path.relpath(os.path.join(d, f), COQ))
    return sorted(out)


def coq_makefile():
    files = coq_files()
    stamp = os.path.join(CACHE, "coqfiles.txt")
    os.makedirs(CACHE, exist_ok=True)
    cur = "\n".join(files)
    old = open(stamp).read() if os.path.exists(stamp) else None
    if old != cur or not os.path.exists(os.path.join(COQ, "Makefile")):
        rc, out = sh(["coq_makefile", "-f", "_CoqProject", "-o", "Makefile"] + files, cwd=COQ, timeout=60)
        if rc != 0:
            raise RuntimeError("coq_makefile failed: " + out)
        open(stamp, "w").write(cur)


def coq_make(targets, timeout=1500):
    """Full .vo build of the given targets (and their dependencies) through the
    generated Makefile, under a lock so concurrent checks do not race."""
    with Lock("coq"):
        coq_makefile()
    rc, out = sh(["make", "-j%d" % NPROC] + targets, cwd=COQ, timeout=timeout)
    return rc, out


def parse_props_file(relpath):
    """Theorem names stated in a Props file and the names under Print Assumptions."""
    txt = open(os.path.join(COQ, relpath)).read()
    txt_nc = strip_comments(txt)
    thms = re.findall(r"^\s*Theorem\s+([A-Za-z0-9_']+)", txt_nc, re.M)
    printed = re.findall(r"Print Assumptions\s+([A-Za-z0-9_']+)\s*\.", txt_nc)
    stmts = {}
    for m in re.finditer(r"Theorem\s+([A-Za-z0-9_']+)\s*:(.*?)\.\s*Proof\.", txt_nc, re.S):
        stmts[m.group(1)] = " ".join(m.group(2).split())
    return thms, printed, stmts


def strip_comments(txt):
    out = []
    depth = 0
    i = 0
    while i < len(txt):
        if txt.startswith("(*", i):
            depth += 1
            i += 2
        elif txt.startswith("*)", i) and depth > 0:
            depth -= 1
            i += 2
        else:
            if depth == 0:
                out.append(txt[i])
            i += 1
    return "".join(out)


def coq_assumptions(relpath, timeout=600):
    """Recompile the Props file alone (its deps are already built) to capture the
    Print Assumptions output.  Returns (rc, list of per-theorem axiom lists)."""
    rc, out = sh(["coqc", "-Q", "theories", "DustDDS", relpath], cwd=COQ, timeout=timeout)
    blocks = []
    cur = None
    for line in out.splitlines():
        if line.startswith("Closed under the global context"):
            if cur is not None:
                blocks.append(cur)
                cur = None
            blocks.append([])
        elif line.startswith("Axioms:"):
            if cur is not None:
                blocks.append(cur)
            cur = []
        elif cur is not None:
            m = re.match(r"^([A-Za-z0-9_.']+)\s*:", line)
            if m:
                cur.append(m.group(1))
    if cur is not None:
        blocks.append(cur)
    return rc, out, blocks


def dep_closure(relpaths):
    """The .v files (relative to coq/) that the given files transitively Require
    from this development."""
    seen, todo = [], list(relpaths)
    while todo:
        f = todo.pop()
        if f in seen or not os.path.exists(os.path.join(COQ, f)):
            continue
        seen.append(f)
        txt = strip_comments(open(os.path.join(COQ, f)).read())
        for m in re.finditer(r"From\s+DustDDS\s+Require\s+(?:Import\s+|Export\s+)?([A-Za-z0-9_.\s]+?)\.(?:\s|$)", txt):
            for name in m.group(1).split():
                todo.append("theories/" + name.replace(".", "/") + ".v")
    return sorted(seen)


def audit_sources(files=None):
    """grep the development (the dependency closure of the property's files) for
    anything that declares an axiom or switches off a kernel check."""
    bad = []
    for f in (files if files is not None else coq_files()):
        txt = strip_comments(open(os.path.join(COQ, f)).read())
        # Section-local Variables/Hypotheses are allowed only inside a Section
        depth = 0
        for n, line in enumerate(txt.splitlines(), 1):
            if re.match(r"\s*Section\s", line):
                depth += 1
            if re.match(r"\s*End\s", line) and depth > 0:
                depth -= 1
            for m in FORBIDDEN.finditer(line):
                w = m.group(0)
                if depth > 0 and w in ("Variable", "Variables", "Hypothesis", "Hypotheses"):
                    continue
                bad.append(f"{f}:{n}: {w}")
    return bad


def prove(ctx, mod):
    """Build the property's theorem file and audit it.  Records obligations /
    discharged in ctx.cov and any broken theorem in ctx.broken."""
    rel = "theories/" + mod.PROPS_FILE
    thms, printed, stmts = parse_props_file(rel)
    ctx.cov["obligations"] = len(thms)
    ctx.cov["theorems"] = thms
    ctx.cov["statement_sha256"] = hashlib.sha256(
        json.dumps(stmts, sort_keys=True).encode()).hexdigest()[:16]
    missing = [t for t in thms if t not in printed]
    target = rel[:-2] + ".vo"
    extra = ["theories/" + m.replace(".", "/") + ".vo" for m in getattr(mod, "CORR_MODULES", [])]
    rc, out = coq_make([target] + extra)
    ctx.cov["checker_cmd"] = (
        "coq_makefile -f _CoqProject -o Makefile && make -j16 %s && coqc -Q theories DustDDS %s "
        "(Print Assumptions) && source audit" % (target, rel))
    if rc != 0:
        ctx.log.append(out[-4000:])
        # which file failed?
        m = re.findall(r'File "\./([^"]+)", line (\d+)', out)
        where = "%s:%s" % m[-1] if m else "build"
        ctx.broken.append("proof build failed at %s" % where)
        ctx.cov["discharged"] = 0
        ctx.cov["proof_log_tail"] = out[-1500:]
        return False
    rc, out, blocks = coq_assumptions(rel)
    ok = rc == 0
    if rc != 0:
        ctx.broken.append("Props file does not compile: " + out[-500:])
    axioms_by_thm = {}
    if len(blocks) != len(printed):
        ok = False
        ctx.broken.append("Print Assumptions output could not be parsed (%d blocks for %d theorems)"
                          % (len(blocks), len(printed)))
    else:
        for name, axs in zip(printed, blocks):
            axioms_by_thm[name] = axs
            for a in axs:
                if a not in ALLOWED_AXIOMS and a.split(".")[-1] not in ALLOWED_AXIOMS:
                    ok = False
                    ctx.broken.append("theorem %s depends on non-allow-listed axiom %s" % (name, a))
    if missing:
        ok = False
        ctx.broken.append("no Print Assumptions for: " + ", ".join(missing))
    closure = dep_closure([rel] + [e[:-1] for e in extra])
    ctx.cov["audited_files"] = closure
    bad = audit_sources(closure)
    if bad:
        ok = False
        ctx.broken.append("forbidden vernacular: " + "; ".join(bad[:5]))
    ctx.cov["axioms"] = {k: v for k, v in axioms_by_thm.items() if v} or "none (every theorem: Closed under the global context)"
    ctx.cov["discharged"] = len(thms) if ok else 0
    return ok


# ------------------------------------------------------------------------ cargo

def cargo_build(ctx, release=False, bin=None):
    """Builds harness/src/bin/<bin>.rs against /repo's current working tree."""
    env = {"RUSTFLAGS": "--cfg " + GUARD}
    bin = bin or ctx.pid.lower()
    cmd = ["cargo", "build", "--offline", "--quiet", "--bin", bin] + (["--release"] if release else [])
    target = os.path.join(CACHE, "target")
    if os.path.realpath(REPO) != "/repo":
        # checking a scratch copy of the repository (seeded-change runs): override the path
        # dependency and keep the build output apart from the main cache
        target = os.path.join(CACHE, "target_alt")
        ps = [os.path.join(REPO, d) for d in ("dds", "dds_gen", "dds_derive") if os.path.isdir(os.path.join(REPO, d))]
        cmd += ["--config", "paths=[%s]" % ",".join('"%s"' % x for x in ps)]
    # always say where the output goes: harness/.cargo/config.toml names /verif/.cache/target, which is
    # wrong when this tree is checked out somewhere else (vp run snapshots)
    cmd += ["--target-dir", target]
    with Lock("cargo" if target.endswith("target") else "cargo_alt"):
        rc, out = sh(cmd, cwd=HARNESS, timeout=3000, env=env)
    if rc != 0:
        ctx.log.append(out[-4000:])
        return None, out
    return os.path.join(target, "release" if release else "debug", bin), out


def run_harness(binary, sub, lines, shards=NPROC, timeout=int(os.environ.get("VERIF_SHARD_TIMEOUT", "600")), extra_args=()):
    """Feed `lines` (one case per line) to `vh <sub>`; returns the output lines, one
    per case, in order.  Cases are sharded over processes; a crashed shard (abort)
    is re-run case by case so the offending case is identified."""
    n = len(lines)
    if n == 0:
        return []
    shards = max(1, min(shards, n))
    chunks = [list(range(i, n, shards)) for i in range(shards)]
    procs = []
    for ch in chunks:
        inp = "\n".join(lines[i] for i in ch) + "\n"
        p = subprocess.Popen([binary] + list(extra_args), stdin=subprocess.PIPE, stdout=subprocess.PIPE,
                             stderr=subprocess.DEVNULL, text=True)
        procs.append((p, ch, inp))
    # write inputs in threads to avoid pipe deadlock
    import threading
    results = [None] * n
    outs = {}

    def feed(p, inp, key):
        try:
            o, _ = p.communicate(inp, timeout=timeout)
        except subprocess.TimeoutExpired:
            p.kill()
            o, _ = p.communicate()
            o = (o or "") + "\n"
            outs[key] = (o, "timeout")
            return
        outs[key] = (o, p.returncode)

    ths = []
    for k, (p, ch, inp) in enumerate(procs):
        t = threading.Thread(target=feed, args=(p, inp, k))
        t.start()
        ths.append(t)
    for t in ths:
        t.join()
    for k, (p, ch, inp) in enumerate(procs):
        o, rc = outs[k]
        ol = [l for l in o.splitlines() if l.strip() != ""]
        if rc == 0 and len(ol) == len(ch):
            for i, l in zip(ch, ol):
                results[i] = l
        else:
            # shard died (abort / hang): run one by one with a short limit; after a few hangs the
            # rest of the shard is not run (a change that makes the code hang would otherwise
            # cost a minute per case)
            hangs = 0
            for j, i in enumerate(ch):
                if j < len(ol) - 1 and rc != "timeout":
                    results[i] = ol[j]
                    continue
                if hangs >= 2:
                    results[i] = "NOTRUN after repeated hangs"
                    continue
                try:
                    q = subprocess.run([binary] + list(extra_args), input=lines[i] + "\n", stdout=subprocess.PIPE,
                                       stderr=subprocess.DEVNULL, text=True, timeout=int(os.environ.get("VERIF_CASE_TIMEOUT", "45")))
                    l = [x for x in q.stdout.splitlines() if x.strip()]
                    if q.returncode == 0 and l:
                        results[i] = l[0]
                    else:
                        results[i] = "ABORT rc=%s" % q.returncode
                except subprocess.TimeoutExpired:
                    results[i] = "HANG"
                    hangs += 1
    return results


# -------------------------------------------------------- evaluation inside Coq

def coq_eval_cases(ctx, corr_module, prefix, case_type, terms, shards=NPROC, timeout=900, tag="cases"):
    """Writes sharded cases_k.v files containing the cases (input together with
    the implementation's output) and evaluates, with vm_compute inside Coq:
      <prefix>_model_ok  : the model's output equals the implementation's
      <prefix>_oracle_ok : the property oracle accepts the implementation's output
      <prefix>_known     : known-finding class of the case (0 = none)
    Returns (model_bad, oracle_bad) as lists of global indices / (index, class)."""
    n = len(terms)
    if n == 0:
        return [], [], None
    work = os.path.join(CACHE, "cases", ctx.pid)
    os.makedirs(work, exist_ok=True)
    # bounded files (memory: ~0.5 MB per case inside coqc), at most `shards` coqc at a time
    per_file = int(os.environ.get("VERIF_CASES_PER_FILE", "800"))
    nfiles = max(1, min(max(shards, (n + per_file - 1) // per_file), max(1, (n + 49) // 50)))
    chunks = [list(range(i, n, nfiles)) for i in range(nfiles)]
    model_bad, oracle_bad = [], []
    err = None

    def launch(k, ch):
        path = os.path.join(work, "%s_%d.v" % (tag, k))
        with open(path, "w") as f:
            f.write("From DustDDS Require Import Base.Machine %s.\n" % corr_module)
            f.write("Open Scope Z_scope.\nSet Printing Width 1000000.\nSet Printing Depth 100000000.\n")
            f.write("Definition cases : list %s := [\n" % case_type)
            f.write(";\n".join(terms[i] for i in ch))
            f.write("\n].\n")
            f.write("Eval vm_compute in (bad_idx %s_model_ok cases).\n" % prefix)
            f.write("Eval vm_compute in (bad_classes %s_oracle_ok %s_known cases).\n" % (prefix, prefix))
        p = subprocess.Popen(["coqc", "-noglob", "-Q", os.path.join(COQ, "theories"), "DustDDS",
                              "-o", path + "o", path], cwd=work,
                             stdout=subprocess.PIPE, stderr=subprocess.STDOUT, text=True)
        return (p, ch, path, time.time())

    pending = list(enumerate(chunks))
    running = []
    while pending or running:
        while pending and len(running) < shards:
            k, ch = pending.pop(0)
            running.append(launch(k, ch))
        p, ch, path, t0 = running.pop(0)
        try:
            out, _ = p.communicate(timeout=timeout)
        except subprocess.TimeoutExpired:
            p.kill()
            p.communicate()
            out = "[timeout]"
        flat = " ".join(out.split())
        ms = re.findall(r"= (\[.*?\]|nil) : list", flat)
        if p.returncode != 0 or len(ms) != 2:
            err = "coqc failed on %s: %s" % (path, out[-800:])
            continue
        try:
            os.remove(path + "o")
        except OSError:
            pass
        mb = [int(x) for x in re.findall(r"(\d+)%N", ms[0])] if ms[0] != "nil" else []
        pairs = re.findall(r"\(\s*(\d+)%N\s*,\s*(\d+)%N\s*\)", ms[1])
        if ms[1] != "nil" and len(pairs) != ms[1].count(","  ) - max(0, ms[1].count(";")) and len(pairs) != ms[1].count(";") + 1 and ms[1].strip() != "[]":
            err = "could not parse the oracle result list of %s" % path
        model_bad += [ch[i] for i in mb]
        oracle_bad += [(ch[int(i)], int(c)) for i, c in pairs]
    return sorted(model_bad), sorted(oracle_bad), err


def coq_eval_expr(ctx, corr_module, expr, timeout=300):
    """Evaluate one closed expression with vm_compute; returns the printed text."""
    work = os.path.join(CACHE, "cases", ctx.pid)
    os.makedirs(work, exist_ok=True)
    path = os.path.join(work, "expr_%d.v" % os.getpid())
    with open(path, "w") as f:
        f.write("From DustDDS Require Import Base.Machine %s.\nOpen Scope Z_scope.\n" % corr_module)
        f.write("Eval vm_compute in (%s).\n" % expr)
    rc, out = sh(["coqc", "-noglob", "-Q", os.path.join(COQ, "theories"), "DustDDS", "-o", path + "o", path],
                 cwd=work, timeout=timeout)
    return " ".join(out.split())


# ------------------------------------------------------------------ Coq syntax

def cz(x):
    return "(%d)" % x if x < 0 else "%d" % x


def cbool(b):
    return "true" if b else "false"


def clist(items):
    return "[" + "; ".join(items) + "]"


def copt(x, f=lambda v: v):
    return "None" if x is None else "(Some %s)" % f(x)


def cbytes(bs):
    return "[" + ";".join(str(b) for b in bs) + "]"


# ------------------------------------------------------------- known findings

def load_known():
    p = os.path.join(VERIF, "known_findings.json")
    if not os.path.exists(p):
        return []
    return json.load(open(p))


def known_ids(pid):
    return {e["id"]: e for e in load_known() if e.get("property") == pid and e.get("status") == "known"}


# -------------------------------------------------------------------- evidence

def write_replay(ctx, payload):
    d = os.path.join(VERIF, "replays")
    os.makedirs(d, exist_ok=True)
    h = hashlib.sha256(json.dumps(payload, sort_keys=True, default=str).encode()).hexdigest()[:10]
    p = os.path.join(d, "%s-%s.json" % (ctx.pid, h))
    with open(p, "w") as f:
        json.dump(payload, f, indent=1, default=str)
    return p


def finish(ctx, mod):
    """Print KNOWN-FINDING / VIOLATION lines, write evidence, return exit code."""
    known = known_ids(ctx.pid)
    for fid, what in sorted(ctx.known_seen.items()):
        ctx.say("KNOWN-FINDING: property=%s %s: %s" % (ctx.pid, fid, known[fid]["what"]))
    rc = 0
    nviol = 0
    # hangs/aborts first (they name the offending case), at most five replays per run
    order = sorted(ctx.violations, key=lambda v: 0 if ('HANG' in v[1] or 'ABORT' in v[1] or 'PANIC' in v[1]) and 'NOTRUN' not in v[1] else (2 if 'NOTRUN' in v[1] else 1))
    for kind, text, payload in order[:5]:
        payload = dict(payload)
        payload.update({"property": ctx.pid, "kind": kind, "what": text, "seed": ctx.seed, "tier": ctx.tier,
                        "replay_cmd": "./check %s --replay <this file>" % ctx.pid})
        path = write_replay(ctx, payload)
        ctx.say("VIOLATION property=%s replay=%s" % (ctx.pid, path))
        ctx.say("  " + text[:400])
        rc = 1
        nviol += 1
    if rc == 0 and ctx.broken:
        payload = {"property": ctx.pid, "kind": "unproved", "no_longer_checks": ctx.broken,
                   "seed": ctx.seed, "tier": ctx.tier, "log": ctx.log[-2:]}
        path = write_replay(ctx, payload)
        ctx.say("VIOLATION property=%s replay=%s no-failing-input-found" % (ctx.pid, path))
        for b in ctx.broken[:5]:
            ctx.say("  no longer checks: " + b[:300])
        rc = 1
        nviol += 1
    cov = dict(ctx.cov)
    cov.setdefault("obligations", 0)
    cov.setdefault("discharged", 0)
    cov.setdefault("checker_cmd", "make (Coq 8.16.1)")
    cov["trusted_base"] = list(getattr(mod, "TRUSTED", [])) + [
        "Coq 8.16.1 kernel, coqc, vm_compute (no native_compute)",
        "hand-written Gallina model tied to /repo by the correspondence run of this check (vh harness built from the current working tree with --cfg dust_dds_verif)",
        "rustc/LLVM semantics of the modelled fragments; the Python case generator and comparator (vlib)",
    ]
    cov["known_findings_seen"] = sorted(ctx.known_seen)
    ev = {
        "property_id": ctx.pid,
        "tier": ctx.tier,
        "seed": ctx.seed,
        "level": getattr(mod, "LEVEL", "proof"),
        "coverage": cov,
        "assumptions": list(getattr(mod, "ASSUMPTIONS", [])) + ctx.assumptions,
        "wall_s": round(time.time() - ctx.t0, 2),
        "violations": nviol,
    }
    os.makedirs(os.path.join(VERIF, "evidence"), exist_ok=True)
    with open(os.path.join(VERIF, "evidence", ctx.pid + ".json"), "w") as f:
        json.dump(ev, f, indent=1, default=str)
    ctx.say("%s %s: obligations=%s discharged=%s evaluations=%s distinct_nontrivial=%s wall=%.1fs -> %s" % (
        ctx.pid, ctx.tier, cov.get("obligations"), cov.get("discharged"), cov.get("evaluations"),
        cov.get("distinct_nontrivial"), time.time() - ctx.t0, "FAIL" if rc else "ok"))
    return rc


# ------------------------------------------------- the standard property driver

def correspond(ctx, mod, binary, cases, label="main", shrink=True):
    """Run cases through the implementation, then let Coq compare with the model
    and apply the oracle.  Returns dict with counts; records violations."""
    lines = [mod.case_line(c) for c in cases]
    outs = run_harness(binary, mod.HARNESS, lines, extra_args=getattr(mod, "HARNESS_ARGS", ()))
    terms = []
    usable = []
    for i, (c, o) in enumerate(zip(cases, outs)):
        t = mod.case_term(c, o)
        if t is None:
            # output the Coq side cannot even represent (abort, hang, garbage)
            ctx.violations.append(("impl-crash", "implementation output %r on case %s" % (o, lines[i]),
                                   {"case": lines[i], "impl_output": o, "harness": mod.HARNESS}))
            continue
        terms.append(t)
        usable.append(i)
    model_bad, oracle_bad, err = coq_eval_cases(ctx, mod.CORR, mod.PREFIX, mod.CASE_TYPE, terms, tag=label)
    if err:
        ctx.broken.append("correspondence evaluation failed: " + err[-600:])
    known = known_ids(ctx.pid)
    kmap = getattr(mod, "KNOWN", {})
    res = {"model_bad": [], "oracle_bad": [], "known": 0}
    for j, cls in oracle_bad:
        i = usable[j]
        fid = kmap.get(cls)
        if fid is not None and fid in known:
            ctx.known_seen.setdefault(fid, lines[i])
            res["known"] += 1
        else:
            res["oracle_bad"].append(i)
    res["model_bad"] = [usable[j] for j in model_bad]
    return res, lines, outs


def run_standard(ctx, mod):
    proved = prove(ctx, mod)
    binary, out = cargo_build(ctx, bin=getattr(mod, 'HARNESS', None))
    if binary is None:
        ctx.broken.append("harness does not build against the current /repo tree (correspondence broken): "
                          + out[-600:])
        return finish(ctx, mod)
    # corpus first, then generated cases
    cases = list(mod.corpus()) if hasattr(mod, "corpus") else []
    cases += mod.gen(ctx.rng, ctx.tier)
    res, lines, outs = correspond(ctx, mod, binary, cases)
    nontriv = set()
    for c, o in zip(cases, outs):
        k = mod.nontrivial(c, o)
        if k is not None:
            nontriv.add(k)
    ctx.cov["evaluations"] = len(cases)
    ctx.cov["distinct_nontrivial"] = len(nontriv)
    ctx.cov["rule"] = mod.RULE
    ctx.cov["traces_validated_against_impl"] = len(cases) - len(res["model_bad"])
    ctx.cov["model_disagreements"] = len(res["model_bad"])
    ctx.cov["samples"] = [{"case": lines[i], "impl": outs[i]} for i in
                          sorted(set([0, len(cases) // 2, len(cases) - 1]))] if cases else []
    if hasattr(mod, "distribution"):
        ctx.cov["input_distribution"] = mod.distribution(cases, outs)
    # oracle failures on implementation output: concrete violations
    for i in res["oracle_bad"][:5]:
        small = shrink_case(ctx, mod, binary, cases[i]) if hasattr(mod, "shrink") else cases[i]
        ctx.violations.append((
            "oracle", "property oracle rejects implementation behaviour on case: %s -> %s" % (
                mod.case_line(small), run_harness(binary, mod.HARNESS, [mod.case_line(small)], shards=1)[0]),
            {"case": mod.case_line(small), "harness": mod.HARNESS,
             "impl_output": run_harness(binary, mod.HARNESS, [mod.case_line(small)], shards=1)[0]}))
    if res["model_bad"] and not res["oracle_bad"]:
        # model drift: search harder for a failing input with the oracle
        i0 = res["model_bad"][0]
        ctx.broken.append("correspondence %s: implementation differs from model on %d case(s), e.g. %s -> %s"
                          % (mod.PREFIX, len(res["model_bad"]), lines[i0], outs[i0]))
        if ctx.tier == "quick" and hasattr(mod, "gen"):
            more = mod.gen(random.Random("search-%s-%d" % (ctx.pid, ctx.seed)), "search")
            res2, lines2, outs2 = correspond(ctx, mod, binary, more, label="search")
            ctx.cov["search_evaluations"] = len(more)
            for i in res2["oracle_bad"][:3]:
                ctx.violations.append((
                    "oracle", "property oracle rejects implementation behaviour on case: %s -> %s" % (lines2[i], outs2[i]),
                    {"case": lines2[i], "harness": mod.HARNESS, "impl_output": outs2[i]}))
    if hasattr(mod, "extra"):
        mod.extra(ctx, binary)
    return finish(ctx, mod)


def shrink_case(ctx, mod, binary, case):
    try:
        return mod.shrink(ctx, binary, case)
    except Exception:
        return case


def replay(ctx, mod, path):
    payload = json.load(open(path))
    line = payload.get("case")
    if line is None:
        ctx.say("replay file names no concrete case: " + json.dumps(payload.get("no_longer_checks")))
        return 1
    binary, out = cargo_build(ctx, bin=getattr(mod, 'HARNESS', None))
    if binary is None:
        ctx.say("harness does not build")
        return 1
    o = run_harness(binary, payload.get("harness", mod.HARNESS), [line], shards=1)[0]
    ctx.say("case: %s\nimplementation: %s" % (line, o))
    c = mod.parse_line(line) if hasattr(mod, "parse_line") else None
    if c is None:
        return 0
    t = mod.case_term(c, o)
    if t is None:
        ctx.say("VIOLATION property=%s replay=%s" % (ctx.pid, path))
        return 1
    mb, ob, err = coq_eval_cases(ctx, mod.CORR, mod.PREFIX, mod.CASE_TYPE, [t], shards=1, tag="replay")
    ctx.say("model agrees: %s; oracle accepts: %s" % (not mb, not ob))
    if ob:
        fid = getattr(mod, "KNOWN", {}).get(ob[0][1])
        if fid is not None and fid in known_ids(ctx.pid):
            ctx.say("KNOWN-FINDING: property=%s %s: %s" % (ctx.pid, fid, known_ids(ctx.pid)[fid]["what"]))
            return 0
        ctx.say("VIOLATION property=%s replay=%s" % (ctx.pid, path))
        return 1
    return 0
