#!/usr/bin/env python3
"""Regenerates DESIGN.md section 10 (seeded changes and which check catches them) from
seeded/<id>/meta.json and seeded/<id>/check_<prop>.log."""
import glob, json, os, re
HERE = os.path.dirname(os.path.abspath(__file__))
rows = []
for d in sorted(glob.glob(os.path.join(HERE, "seeded", "C*"))):
    sid = os.path.basename(d)
    try:
        m = json.load(open(os.path.join(d, "meta.json")))
    except Exception:
        continue
    res = []
    for log in sorted(glob.glob(os.path.join(d, "check_*.log"))):
        prop = os.path.basename(log)[6:-4]
        txt = open(log).read()
        nv = len(re.findall(r"^VIOLATION", txt, re.M))
        nofail = "no-failing-input-found" in txt
        first = re.search(r"^VIOLATION.*\n\s+(.*)", txt, re.M)
        how = "not detected" if nv == 0 else ("model/correspondence only (no-failing-input-found)" if nofail and nv == 1 else "VIOLATION with concrete replay (%d shown)" % nv)
        res.append("%s: %s" % (prop, how) + ((" — e.g. `" + first.group(1).strip()[:140].replace("|", "\\|") + "`") if first and nv else ""))
    rows.append("| %s | %s | %s | %s | %s |" % (
        sid, ", ".join(m.get("files", []))[:90], (m.get("summary", "")[:260]).replace("|", "\\|").replace("\n", " "),
        (m.get("needs", "")[:200]).replace("|", "\\|").replace("\n", " "), "<br>".join(res) or "not yet run"))
block = ["<!-- BEGIN SEEDED (tools_seed_table.py) -->", "",
         "| seed | files | change | needs, to manifest | result of `./check` with the change applied |",
         "|------|-------|--------|--------------------|---------------------------------------------|"] + rows + ["", "<!-- END SEEDED -->"]
block = "\n".join(block)
p = os.path.join(HERE, "DESIGN.md")
s = open(p).read()
if "<!-- BEGIN SEEDED" in s:
    s = re.sub(r"<!-- BEGIN SEEDED.*?<!-- END SEEDED -->", lambda m: block, s, flags=re.S)
else:
    s = s.replace("---------------------------------------------------------------------------\n\n## Appendix A.",
                  "---------------------------------------------------------------------------\n\n## 10. Seeded changes: which check catches which realistic breakage\n\n"
                  "Each change below was written by a fresh sub-agent that was given only the text of one property and its own scratch\n"
                  "worktree of /repo (nothing from /verif), asked for a small, plausible change that breaks the property, still compiles and\n"
                  "passes the existing tests, and needs something specific to manifest; every change was confirmed by the coordinator in a\n"
                  "scratch worktree (demonstration fails with the change, passes without; `cargo test -p dust_dds --lib` passes with it) and is\n"
                  "kept under `seeded/<id>/` (patch.diff, demo/, meta.json, confirm.log). `tools_seed_check.sh <id>` applies the patch to a scratch\n"
                  "worktree of /repo's HEAD and runs the check against it (`VERIF_REPO`), so /repo itself is never modified.\n\n" + block +
                  "\n\n---------------------------------------------------------------------------\n\n## Appendix A.")
open(p, "w").write(s)
print("seed table:", len(rows), "rows")
